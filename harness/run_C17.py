"""C17 correspondence + property oracle: the real interpreter's import statements and builtin lookup vs the Lean model.

impl  = the real AstEval / GlobalContext.module_import from /repo (stub hass, real files in a temp pyscript folder)
model = PsModel.C17.run / lookupName via verifdrv
verdict = an independent oracle: what is permitted (pyscript module visible | whole name on ALLOWED_IMPORTS | allow_all),
          what must be bound to which object, that a refused import binds nothing and never reaches importlib, and that
          the builtins named by the property never resolve to the host's objects.

Host imports: names already in sys.modules are taken from there (as pyscript does); `importlib.import_module` as seen by
eval.py is replaced by a shim that really imports only a fixed safe list and otherwise hands out a recorded fake module
(or raises ModuleNotFoundError for names that do not exist) – no arbitrary package is ever executed.
"""
import asyncio
import builtins
import importlib
import importlib.util
import io
import logging
import os
import pkgutil
import re
import shutil
import sys
import tempfile
import types
from unittest.mock import patch

import common
from common import Case, sx

PROP = "C17"
RULE = ("every top-level module name of pkgutil.iter_modules() and sys.builtin_module_names (thorough: all; quick: all "
        "allow-listed + near-miss variants of allow-listed names (prefix, suffix, parent, child) + pyscript module/app "
        "names + a seeded sample) and sampled submodules x {import a, import a as x, import m, a, from a import b, "
        "from a import b as c, from a import *, from a import <missing>} x {direct, exec, nested exec} x allow_all_imports "
        "in {False, True} x {script context, app context}; relative forms; stubs forms; names shadowing files under "
        "pyscript/modules and pyscript/apps; every name of dir(builtins) plus dunder/own names x {direct, exec, eval, "
        "inside a function, user-shadowed}.  Non-trivial = every case (each is a distinct statement/configuration).")
ASSUMPTIONS = [
    "sys.modules / importlib.import_module are the host's import system; the shim returns the module Python would "
    "return for the safe list and a recorded stand-in otherwise",
    "a module's importable attributes are the keys of its __dict__ (no module-level __getattr__ in generated from-imports)",
    "relative imports are generated with one leading dot only; module names are ASCII identifiers joined by dots",
    "a fresh GlobalContextMgr.contexts per case (no module loaded earlier by another script)",
]
TRUSTED = ["tools/extract.py + tools/extractors/C17.py (ALLOWED_IMPORTS, BUILTIN_EXCLUDE, BUILTIN_AST_FUNCS_FACTORY keys)",
           "harness/run_C17.py (import shim, object-identity canonicalisation, oracle)", "harness/interp_env.py (stub hass)"]

SAFE_REAL = ["math", "cmath", "json", "json.decoder", "re", "random", "string", "time", "datetime", "decimal", "fractions",
             "functools", "statistics", "itertools", "collections", "os", "os.path", "homeassistant.const", "voluptuous",
             "textwrap", "bisect", "heapq"]
MOD_SRC = "x = 1\n_y = 2\ndef f():\n    return 3\n"
PYS_FILES = {
    "modules/os.py": "modules.os", "modules/math.py": "modules.math", "modules/mymod.py": "modules.mymod",
    "modules/pkg/__init__.py": "modules.pkg", "modules/pkg/sub.py": "modules.pkg.sub",
    "modules/both/__init__.py": "modules.both", "modules/both.py": "modules.both",
    "apps/app1/__init__.py": "apps.app1", "apps/app1/helper.py": "apps.app1.helper",
    "apps/shadow.py": "apps.shadow", "modules/shadow.py": "modules.shadow", "apps/json.py": "apps.json",
    "apps/app1/sub/__init__.py": "apps.app1.sub",
}
PYS_NAMES = ["os", "math", "mymod", "pkg", "pkg.sub", "both", "shadow", "json", "app1", "app1.helper", "helper", "sub", "nosuch"]
NAMED = ["open", "compile", "input", "breakpoint", "memoryview", "print"]

_S = {}


# ------------------------------------------------------------------ environment (once per process)
def _setup():
    if _S:
        return _S
    import interp_env as IE
    import custom_components.pyscript.eval as E
    from custom_components.pyscript.const import ALLOWED_IMPORTS
    from custom_components.pyscript.function import Function
    from custom_components.pyscript.global_ctx import GlobalContext, GlobalContextMgr

    loop = asyncio.new_event_loop()
    asyncio.set_event_loop(loop)
    IE.setup_stub(loop)
    for n in SAFE_REAL:
        try:
            importlib.import_module(n)
        except Exception:  # pylint: disable=broad-except
            pass
    tmp = tempfile.mkdtemp(prefix="c17_")
    for rel, _ in PYS_FILES.items():
        p = os.path.join(tmp, "pyscript", rel)
        os.makedirs(os.path.dirname(p), exist_ok=True)
        with open(p, "w", encoding="utf-8") as f:
            f.write(MOD_SRC)
    Function.hass.config.path = lambda *a: os.path.join(tmp, *a)
    Function.hass.config.config_dir = tmp

    async def init():
        Function.init(Function.hass)     # the real registrations of print / log.* / task.*
    loop.run_until_complete(init())
    exists = {m.name for m in pkgutil.iter_modules()} | set(sys.builtin_module_names) | set(sys.modules)
    _S.update(IE=IE, E=E, Function=Function, GC=GlobalContext, GCM=GlobalContextMgr, loop=loop, tmp=tmp,
              allowed=set(ALLOWED_IMPORTS), exists=exists, fakes={}, calls=[])
    return _S


def _cleanup():
    if _S:
        shutil.rmtree(_S["tmp"], ignore_errors=True)
        for t in (_S["Function"].task_reaper, _S["Function"].task_waiter):
            try:
                if t:
                    t.cancel()
            except Exception:  # pylint: disable=broad-except
                pass


def submodules_of(top, limit=6):
    """submodule names from the file system – nothing is imported"""
    try:
        spec = importlib.util.find_spec(top)
    except Exception:  # pylint: disable=broad-except
        return []
    out = []
    for loc in (spec.submodule_search_locations or []) if spec else []:
        try:
            for fn in sorted(os.listdir(loc)):
                if fn.endswith(".py") and not fn.startswith("_") and re.fullmatch(r"[A-Za-z][A-Za-z0-9_]*", fn[:-3]):
                    out.append(f"{top}.{fn[:-3]}")
        except OSError:
            pass
    return out[:limit]


def host_expect(name):
    """(exists, module object) the host import of `name` yields under the shim"""
    S = _S
    if sys.modules.get(name) is not None:        # whatever object sits there (some packages install proxies)
        return True, sys.modules[name]
    if name in S["exists"] or name in S["subs"]:
        if name not in S["fakes"]:
            m = types.ModuleType(name)
            m.__dict__.update({"pub": 1, "_priv": 2, "b": 3, "Zed": 4})
            S["fakes"][name] = m
        return True, S["fakes"][name]
    return False, None


class _Shim:
    def __init__(self, S):
        self.S = S

    def import_module(self, name, package=None):
        self.S["calls"].append(name)
        ok, m = host_expect(name)
        if not ok:
            raise ModuleNotFoundError(f"No module named {name!r}")
        return m

    def __getattr__(self, k):
        return getattr(importlib, k)


# ------------------------------------------------------------------ generators
def stmt_text(st):
    if st[0] == "import":
        return "import " + ", ".join(n if a is None else f"{n} as {a}" for n, a in st[1])
    _, mod, rel, names = st
    return f"from {'.' if rel else ''}{mod or ''} import " + ", ".join(n if a is None else f"{n} as {a}" for n, a in names)


def wrap(src, depth):
    for _ in range(depth):
        src = f"exec({src!r})"
    return src


def forms_for(name, pick_attr):
    b = pick_attr(name)
    return [("import", [(name, None)]), ("import", [(name, "xx")]), ("import", [("math", None), (name, None)]),
            ("from", name, False, [(b, None)]), ("from", name, False, [(b, "cc")]), ("from", name, False, [("*", None)]),
            ("from", name, False, [("zz_missing", None)])]


def near_miss(allowed):
    out = set()
    for a in allowed:
        out |= {a + "x", a + "2", "x" + a, a + ".evil", a + "." + a, a.upper(), a[:-1], "_" + a}
        if "." in a:
            out |= {a.split(".")[0], a.rsplit(".", 1)[0], a.replace(".", "_")}
    out |= {"os", "os.path", "sys", "subprocess", "builtins", "importlib", "json.decoder", "json.tool", "re2", "maths",
            "homeassistant", "homeassistant.core", "homeassistant.constants", "stubs", "stubsx", "stubs2.a", "pathlib", "socket"}
    return sorted(n for n in out - set(allowed) if n and re.fullmatch(r"[A-Za-z_][A-Za-z0-9_]*(\.[A-Za-z_][A-Za-z0-9_]*)*", n))


def gen_cases(rng, tier, search):
    S = _setup()
    allowed = sorted(S["allowed"])
    tops = sorted(n for n in ({m.name for m in pkgutil.iter_modules()} | set(sys.builtin_module_names))
                  if re.fullmatch(r"[A-Za-z_][A-Za-z0-9_]*", n))
    subs_all = []
    for t in tops:
        if t in sys.modules or t in ("json", "xml", "email", "http", "urllib", "logging", "concurrent", "unittest"):
            subs_all += submodules_of(t, limit=6 if tier == "quick" else 30)
    S["subs"] = set(subs_all) | {"json.tool"}
    if tier == "quick" and not search:
        sample = rng.sample(tops, min(len(tops), 230))
        subs = rng.sample(subs_all, min(len(subs_all), 90))
    else:
        sample, subs = tops, (subs_all if tier == "thorough" else rng.sample(subs_all, min(len(subs_all), 400)))
    names = list(dict.fromkeys(allowed + near_miss(allowed) + PYS_NAMES + sample + subs))

    def pick_attr(name):
        ok, m = host_expect(name)
        if ok:
            pub = [k for k in _dict(m) if not k.startswith("_") and re.fullmatch(r"[A-Za-z][A-Za-z0-9_]*", k)]
            if pub:
                return pub[len(name) % len(pub)]
        return "x"

    cases = []
    for name in names:
        special = name in allowed or name in PYS_NAMES or name in ("os", "json.decoder", "homeassistant", "os.path") \
            or (tier == "thorough" and rng.random() < 0.5)
        for st in forms_for(name, pick_attr):
            for allow in (False, True):
                for ctx in (("script", "app") if special else ("script",)):
                    depths = (0, 1, 2) if special else ((0, 1) if rng.random() < 0.25 else (0,))
                    for d in depths:
                        cases.append(mk_imp(allow, ctx, d, st))
    # relative and stubs forms
    rel_forms = [("from", None, True, [("helper", None)]), ("from", None, True, [("helper", "h")]), ("from", None, True, [("nosuch", None)]),
                 ("from", None, True, [("sub", None), ("helper", None)]), ("from", "helper", True, [("x", None)]),
                 ("from", "helper", True, [("*", None)]), ("from", "os", True, [("x", None)]), ("from", "math", True, [("pi", None)]),
                 ("from", "nosuch", True, [("x", None)]), ("from", "sub", True, [("f", "g")]),
                 ("from", "stubs", False, [("x", None)]), ("from", "stubs.a.b", False, [("y", None), ("z", None)]),
                 ("from", "stubs", False, [("x", "y")]), ("from", "stubs.q", False, [("x", None), ("w", "y")]),
                 ("from", "stubs", True, [("x", None)]), ("from", "stubs", False, [("*", None)]),
                 ("from", "stubsx", False, [("x", None)]), ("import", [("stubs", None)]), ("import", [("stubs.a", "s")]),
                 ("import", [("math", None), ("json", "j"), ("os", None), ("re", None)]),
                 ("from", "math", False, [("pi", None), ("e", "ee"), ("zz_missing", None), ("tau", None)]),
                 ("from", "json", False, [("tool", None)]), ("from", "json", False, [("decoder", None)]),
                 ("from", "xml", False, [("dom", None)]), ("from", "email", False, [("mime", "mm")])]
    for st in rel_forms:
        for allow in (False, True):
            for ctx in ("script", "app"):
                for d in (0, 1):
                    cases.append(mk_imp(allow, ctx, d, st))
    # plain-name lookup
    nm = sorted(set(dir(builtins)) | {"__import__", "__builtins__", "__loader__", "__spec__", "_", "eval", "exec", "globals",
                                       "locals", "print", "log", "task", "nosuchname", "pyscript", "state"})
    for x in nm:
        if not re.fullmatch(r"[A-Za-z_][A-Za-z0-9_]*", x) or x in ("None", "True", "False", "__debug__"):
            continue
        for mode in ("direct", "exec", "eval", "func", "user", "gfunc", "nested", "comp", "cls"):
            cases.append(Case({"kind": "name", "name": x, "mode": mode}, None, tags=("name", "name-" + mode)))
        if x in NAMED:
            # natively compiled code (lambda) has the host's builtins – documented; recorded as finding C17-F2
            cases.append(Case({"kind": "name", "name": x, "mode": "lambda"}, None, tags=("name", "name-lambda")))
    for x in NAMED:
        cases.append(Case({"kind": "call", "name": x}, None, tags=("call",)))
    return cases


def mk_imp(allow, ctx, depth, st):
    st = list(st)
    return Case({"kind": "imp", "allow": allow, "ctx": ctx, "depth": depth, "stmt": st, "src": wrap(stmt_text(st), depth)},
                None, tags=("imp", "allow" if allow else "restricted", ctx, f"depth{depth}", st[0] if st[0] == "import" else
                            ("from-rel" if st[2] else "from")))


# ------------------------------------------------------------------ running the real code
ERR_KIND = [("not allowed", "notAllowed"), ("No module named", "notFound"), ("not supported for stubs", "stubsAs"),
            ("no known parent package", "relNoParent"), ("' not found", "relNotFound")]


def _new_ctx(kind):
    S = _S
    S["GCM"].contexts.clear()
    if kind == "app":
        g = S["GC"]("apps.app1", global_sym_table={}, manager=S["GCM"], rel_import_path="apps/app1")
    else:
        g = S["GC"]("file.t", global_sym_table={}, manager=S["GCM"])
    a = S["E"].AstEval(g.get_name(), global_ctx=g)
    S["Function"].install_ast_funcs(a)
    return g, a


async def _exec(kind, src):
    g, a = _new_ctx(kind)
    exc = None
    try:
        a.parse(src)
        await a.eval()
    except BaseException as e:  # pylint: disable=broad-except
        exc = e
    return g, a, exc


def _tag_of(obj, registry):
    return registry.get(id(obj))


async def _run_imp(c):
    S = _S
    p = c.payload
    S["IE"].set_allow_all_imports(p["allow"])
    st = p["stmt"]
    del S["calls"][:]
    with patch.object(S["E"], "importlib", _Shim(S)):
        g, a, exc = await _exec(p["ctx"], p["src"])
    calls = list(S["calls"])
    # ---- registry of module objects by identity
    registry = {}
    pys_attrs = {}
    for rel, ctxname in PYS_FILES.items():
        gc = S["GCM"].get(ctxname)
        if gc is not None and getattr(gc, "module", None) is not None and os.path.normpath(gc.file_path).endswith(os.path.normpath(rel)):
            registry[id(gc.module)] = "pys:" + rel
            pys_attrs[rel] = list(gc.module.__dict__.keys())
    mods = [n for n, _ in st[1]] if st[0] == "import" else ([st[1]] if st[1] else [])
    host = []
    for n in dict.fromkeys(mods):
        ok, m = host_expect(n)
        if ok:
            registry.setdefault(id(m), "host:" + n)
            host.append([n, "host:" + n, list(_dict(m).keys()) if st[0] == "from" else []])
    # ---- canonical bindings
    gs = g.global_sym_table
    binds = []
    aliases = st[1] if st[0] == "import" else st[3]
    src_name = {}
    for n, asn in aliases:
        src_name.setdefault(asn or n, n)
    for k, v in gs.items():
        if k.startswith("__") and k in ("__name__", "__doc__", "__package__", "__loader__", "__spec__", "__builtins__"):
            continue
        if id(v) in registry and (st[0] == "import" or (st[0] == "from" and st[1] is None)):
            binds.append([k, "m", registry[id(v)]])
            continue
        found = None
        an = src_name.get(k, k)
        for mid, tag in registry.items():
            mod = _obj_by_id(mid, S, registry)
            if mod is not None and an in _dict(mod) and _dict(mod)[an] is v:
                found = [k, "a", tag, an]
                break
        binds.append(found or ([k, "m", registry[id(v)]] if id(v) in registry else [k, "?", type(v).__name__]))
    kind = "ok"
    if exc is not None:
        msg = str(exc)
        kind = "exc:" + type(exc).__name__
        if isinstance(exc, AttributeError):
            kind = "attrMissing"
        elif isinstance(exc, ImportError):
            for pat, k in ERR_KIND:
                if pat in msg:
                    kind = k
                    break
    c.impl = sx(["binds"] + binds) + " " + kind
    # ---- model line: the files that exist (with the dict keys a loaded pyscript module has), host modules involved
    default_attrs = S.setdefault("pys_default_attrs", None)
    if default_attrs is None and pys_attrs:
        S["pys_default_attrs"] = default_attrs = next(iter(pys_attrs.values()))
    files = [[rel, "pys:" + rel, pys_attrs.get(rel) or default_attrs or ["x", "_y", "f"]] for rel in PYS_FILES]
    mstmt = (["import"] + [[n, a or "-"] for n, a in st[1]]) if st[0] == "import" else \
        (["from", st[1] or "-", 1 if st[2] else 0] + [[n, a or "-"] for n, a in st[3]])
    c.line = "C17 " + sx(["imp", p["allow"], "apps/app1" if p["ctx"] == "app" else "-", ["files"] + files,
                          ["host"] + host, p["depth"], mstmt])
    p["_obs"] = {"exc": type(exc).__name__ if exc else None, "msg": str(exc)[:120] if exc else None, "kind": kind,
                 "binds": binds, "calls": calls, "loaded": sorted(registry.values())}


def _dict(m):
    d = getattr(m, "__dict__", None)
    return d if isinstance(d, dict) else {}


def _obj_by_id(mid, S, registry):
    tag = registry[mid]
    if tag.startswith("pys:"):
        gc = S["GCM"].get(PYS_FILES[tag[4:]])
        return gc.module if gc is not None else None
    ok, m = host_expect(tag[5:])
    return m if ok else None


async def _run_name(c):
    S = _S
    p = c.payload
    x, mode = p["name"], p["mode"]
    S["IE"].set_allow_all_imports(False)
    src = {"direct": f"__r = {x}", "exec": f"exec({('__r = ' + x)!r})", "eval": f"__r = eval({x!r})",
           "func": f"def __f():\n    return {x}\n__r = __f()", "user": f"{x} = 12345\n__r = {x}",
           # every other way a plain name can be looked up: a function that declares it global, a nested function,
           # a comprehension, a class body
           "gfunc": f"def __f():\n    global {x}\n    return {x}\n__r = __f()",
           "nested": f"def __f():\n    def __g():\n        return {x}\n    return __g()\n__r = __f()",
           "comp": f"__r = [{x} for __i in [1]][0]",
           "cls": f"class __C:\n    v = {x}\n__r = __C.v",
           "lambda": f"__r = (lambda: {x})()"}[mode]
    g, a, exc = await _exec("script", src)
    if exc is not None:
        res = "evalName" if isinstance(exc, NameError) else "exc:" + type(exc).__name__
    else:
        v = g.global_sym_table.get("__r", None)
        if mode == "user" and v == 12345:
            res = "user"
        elif hasattr(builtins, x) and v is getattr(builtins, x):
            res = "host"
        elif getattr(v, "__module__", None) == "custom_components.pyscript.eval":
            res = "astFactory"
        elif isinstance(getattr(v, "__self__", None), logging.Logger):
            res = "pyscriptFunc"
        else:
            res = "other:" + type(v).__name__
    c.impl = res
    func = x in S["Function"].functions or x in S["Function"].ast_functions
    if mode == "lambda":
        c.line = None
    elif mode == "gfunc":
        c.line = "C17 " + sx(["nameg", x, False])
    else:
        c.line = "C17 " + sx(["name", x, mode == "user", hasattr(builtins, x), func])
    p["_obs"] = {"res": res, "is_host": bool(exc is None and hasattr(builtins, x)
                                            and g.global_sym_table.get("__r") is getattr(builtins, x))}


async def _run_call(c):
    """print(...) must land on the script's logger and nowhere else"""
    S = _S
    x = c.payload["name"]
    recs = []

    class H(logging.Handler):
        def emit(self, r):
            recs.append((r.name, r.levelname, str(r.msg)))
    g, a = _new_ctx("script")
    logging.disable(logging.NOTSET)
    lg = a.get_logger()
    h = H()
    lg.addHandler(h)
    old_level = lg.level
    lg.setLevel(logging.DEBUG)
    out = io.StringIO()
    exc = None
    try:
        with patch.object(sys, "stdout", out):
            if x == "print":
                a.parse("print('m-print')\nlog.info('m-info')")
                await a.eval()
            else:
                # never CALL a host builtin that turned out to be reachable (input/breakpoint would block)
                try:
                    a.parse(f"__r = {x}")
                    await a.eval()
                except NameError:
                    pass
                if hasattr(builtins, x) and g.global_sym_table.get("__r") is getattr(builtins, x):
                    raise RuntimeError("REACHABLE")
                g, a = _new_ctx("script")
                a.parse(f"__r = {x}('zz_no_such_file_c17')")
                await a.eval()
    except BaseException as e:  # pylint: disable=broad-except
        exc = e
    finally:
        lg.removeHandler(h)
        lg.setLevel(old_level)
        logging.disable(logging.CRITICAL)
    c.impl = None
    c.payload["_obs"] = {"exc": type(exc).__name__ if exc else None, "recs": recs, "stdout": out.getvalue(),
                         "logger": lg.name}


def run_impl(cases):
    S = _setup()
    loop = S["loop"]
    logging.disable(logging.CRITICAL)

    async def go():
        for c in cases:
            k = c.payload["kind"]
            if k == "imp":
                await _run_imp(c)
            elif k == "name":
                await _run_name(c)
            else:
                await _run_call(c)
    loop.run_until_complete(go())


# ------------------------------------------------------------------ the property oracle
def _pys_visible(name, ctx):
    S = _S
    base = os.path.join(S["tmp"], "pyscript")
    path = name.replace(".", "/")
    cands = ([f"apps/{path}/__init__.py", f"apps/{path}.py"] if ctx == "app" else []) + \
        [f"modules/{path}/__init__.py", f"modules/{path}.py"]
    for cnd in cands:
        if os.path.isfile(os.path.join(base, cnd)):
            return cnd
    return None


def verdict(c):
    p = c.payload
    o = p.get("_obs")
    if o is None:
        return None
    if p["kind"] == "name":
        x = p["name"]
        if p["mode"] == "lambda" and (x in NAMED or x.startswith("_")) and o["is_host"]:
            return f"native-code-builtins: {x!r} inside a lambda (natively compiled) resolves to the host builtin"
        if p["mode"] != "user" and (x in NAMED or x.startswith("_")) and o["is_host"]:
            return f"builtin-reachable: plain name {x!r} ({p['mode']}) resolves to the host builtin"
        return None
    if p["kind"] == "call":
        x = p["name"]
        if x == "print":
            if o["exc"]:
                return f"print-raises: print('…') raised {o['exc']}"
            if o["stdout"]:
                return "print-to-stdout: print wrote to the real stdout"
            if not any(m == "m-print" and n == o["logger"] for n, _, m in o["recs"]):
                return f"print-not-logged: print('m-print') left no record on the script logger {o['logger']}"
            if not any(m == "m-info" and lv == "INFO" for _, lv, m in o["recs"]):
                return "log-not-logged: log.info left no INFO record on the script logger"
        elif o["exc"] != "NameError":
            return f"builtin-callable: calling {x}(…) by its plain name did not fail with NameError (got {o['exc']})"
        return None
    st = p["stmt"]
    S = _S
    binds = o["binds"]
    if st[0] == "from" and st[1] is not None and (st[1] == "stubs" or st[1].startswith("stubs.")):
        if any(a for _, a in st[3]):
            return None if (o["exc"] == "ModuleNotFoundError" and not binds) else \
                f"stubs-as: {p['src']!r} gave {o['exc']} / {binds}"
        if o["exc"] or binds or o["calls"]:
            return f"stubs-not-ignored: {p['src']!r} gave {o['exc']}, bound {binds}, imported {o['calls']}"
        return None
    if st[0] == "from" and (st[1] is None or st[2]):
        # relative imports: only containment facts are part of the property
        if p["ctx"] == "script" and (o["exc"] != "ImportError" or binds):
            return f"relative-without-package: {p['src']!r} in a plain script gave {o['exc']} and bound {binds}"
        return None
    mods = [(n, a) for n, a in st[1]] if st[0] == "import" else [(st[1], None)]
    expect_binds = []
    expect_exc = None
    for n, asn in mods:
        vis = _pys_visible(n, p["ctx"])
        permitted = bool(vis) or n in S["allowed"] or p["allow"]
        if not permitted:
            expect_exc = ("ModuleNotFoundError", f"refused:{n}")
            break
        if vis:
            tag = "pys:" + vis
            attrs_of = None
        else:
            ok, m = host_expect(n)
            if not ok:
                expect_exc = ("ModuleNotFoundError", f"nohost:{n}")
                break
            tag, attrs_of = "host:" + n, m
        if st[0] == "import":
            expect_binds.append([asn or n, "m", tag])
        else:
            for an, aas in st[3]:
                if an == "*":
                    keys = [k for k in (_dict(attrs_of) if attrs_of is not None else ["x", "_y", "f"]) if not k.startswith("_")]
                    expect_binds += [[k, "a", tag, k] for k in keys]
                else:
                    has = (an in _dict(attrs_of)) if attrs_of is not None else an in ("x", "_y", "f")
                    if not has:
                        sub_ok = attrs_of is not None and (f"{n}.{an}" in S["subs"] or f"{n}.{an}" in S["exists"])
                        expect_exc = ("SUBMODULE" if sub_ok else "ImportError|AttributeError", f"noattr:{n}.{an}")
                        break
                    expect_binds.append([aas or an, "a", tag, an])
            if expect_exc:
                break
    expect_binds = _as_dict(expect_binds)
    if expect_exc and expect_exc[1].startswith("refused:"):
        n = expect_exc[1][8:]
        if o["exc"] != "ModuleNotFoundError":
            return (f"refused-import-not-refused: {p['src']!r} (allow_all={p['allow']}, {p['ctx']}) must raise "
                    f"ModuleNotFoundError for {n!r}, got {o['exc']} with bindings {binds[:4]}")
        if n in o["calls"]:
            return f"refused-import-reached-importlib: {p['src']!r} imported {n!r} before refusing"
        if binds != expect_binds:
            return f"refused-import-bound-names: {p['src']!r} left bindings {binds[:4]} (expected {expect_binds})"
        return None
    if expect_exc and expect_exc[0] == "SUBMODULE":
        if o["exc"] is None:
            return None
        return (f"from-import-unloaded-submodule: {p['src']!r} is permitted and {expect_exc[1][7:]!r} is an importable "
                f"submodule, CPython imports it; pyscript raised {o['exc']}")
    if expect_exc:
        if o["exc"] is None:
            return f"missing-module-imported: {p['src']!r} should fail ({expect_exc[1]}) but bound {binds[:4]}"
        if o["exc"] not in ("ModuleNotFoundError", "ImportError", "AttributeError"):
            return f"wrong-exception: {p['src']!r} raised {o['exc']}"
        if binds != expect_binds:
            return f"failed-import-bound-names: {p['src']!r} left {binds[:4]} expected {expect_binds[:4]}"
        return None
    if o["exc"]:
        return (f"permitted-import-failed: {p['src']!r} (allow_all={p['allow']}, {p['ctx']}) is permitted but raised "
                f"{o['exc']}: {o['msg']}")
    if binds != expect_binds:
        if any(b[0].startswith("_") for b in binds) and st[0] == "from" and any(an == "*" for an, _ in st[3]):
            return f"star-import-private: {p['src']!r} bound underscore names"
        return f"wrong-binding: {p['src']!r} bound {binds[:4]} expected {expect_binds[:4]}"
    return None


def _as_dict(binds):
    """writes in order -> final symbol table (a dict: a rebinding keeps the key's position)"""
    d = {}
    for b in binds:
        d[b[0]] = b
    return list(d.values())


def classify(c, reason):
    return reason.split(":", 1)[0]


def replay_cases(obj):
    p = obj["case"]
    p.pop("_obs", None)
    _setup()
    _S.setdefault("subs", {"json.tool"})
    return [Case(p, None)]


def extra_coverage(cases):
    kinds, outcomes, resolved = {}, {}, {}
    for c in cases:
        o = c.payload.get("_obs") or {}
        kinds[c.payload["kind"]] = kinds.get(c.payload["kind"], 0) + 1
        if c.payload["kind"] == "imp":
            outcomes[o.get("kind")] = outcomes.get(o.get("kind"), 0) + 1
        elif c.payload["kind"] == "name":
            resolved[o.get("res")] = resolved.get(o.get("res"), 0) + 1
    names = {c.payload["stmt"][1][-1][0] if c.payload["stmt"][0] == "import" else c.payload["stmt"][1]
             for c in cases if c.payload["kind"] == "imp"}
    return {"case_kinds": kinds, "import_outcomes": outcomes, "name_resolutions": resolved, "distinct_module_names": len(names)}


import atexit  # noqa: E402
atexit.register(_cleanup)
