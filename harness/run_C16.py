"""C16 correspondence + property oracle: generated pyscript scripts on a real Home Assistant instance vs the Lean model.

A case = an environment (which head names are Python variables, which services exist) + an operation sequence
(script statements and external hass.states changes).  After every step the harness records what the script saw
(value / exception class) and the whole of hass.states; the same sequence goes to `verifdrv` (model and spec columns).
The verdict re-derives every step from the *observed* previous store with an independent Python rendering of the
dictionary rules of the property (so each step is judged on its own, also after a deviation).
"""
import datetime as dt
import json
import re

import common
from common import Case, sx, parse_sx

PROP = "C16"
RULE = ("op sequences (6-16 steps) over <=3 entities x <=3 attributes drawn from read / read-attr / state.get / assign / "
        "attr-assign / state.set (value omitted|plain|StateVal x new_attributes None|{}|dict x 0-2 kwargs) / state.setattr / "
        "del / state.delete / exist / getattr (name|snapshot) / names / re-inspection of captured snapshots / external "
        "async_set|async_remove, values str/int/float/bool/None/list/dict; environments with the head bound as local / "
        "global Python variable, entity names colliding with a service / function / entity-service method; a systematic "
        "block enumerates every state.set argument combination on existing and missing entities; augmented assignment "
        "(d.n += str), a StateVal as attribute value, explicit new_attributes=None, a write repeated three times in a row "
        "(p=0.12); boundary values in the pools ('', 'None', 'unknown', 'unavailable', ' on ', 200 chars, -0.5, 1000.0, {}, "
        "[[]], nested dict; attribute names last_updated / last_reported / upper / split / format / _x, also as stored "
        "keys) and three systematic boundary families per subsystem: 14 state values (write, read, write twice more, "
        "+= '', state.get; incl. a 255-character string and 0/1/-1/0.0/1.0/2.5/True/False), 9 colliding attribute names "
        "(read, exist, assign, read back, getattr, snapshot, set by keyword, del), 4 dotted-part counts (1-4) through "
        "every entry point on missing and existing entities; both decorator "
        "subsystems.  Non-trivial = at least one step that writes; distinct by payload.")
ASSUMPTIONS = [
    "Home Assistant's state machine behaves as a dictionary entity_id -> (str(state), attributes) (async_set/async_remove/get/async_entity_ids)",
    "entity names are lower-case identifiers (Home Assistant lower-cases / validates entity ids itself); the public attributes of python's str are the 47 names listed in the model (STR_ATTRS, compared with dir(str) by the harness)",
    "attribute values are compared by their JSON rendering (a StateVal object kept as attribute value: as the string it is); state values by str(); time-stamp fields only by type",
    "string splitting of dotted names ('a.b.c'.split('.')) is abstracted to part lists (covered by these runs only)",
    "State.service2args reflects the registered services (rebuilt once at a quiescent point before the operations)",
    "no two distinct generated values are ==-equal in python (Home Assistant skips a write whose state and attributes "
    "compare equal to the current ones, so writing False over 0 leaves 0 - observed while building, runtime behaviour)",
]
TRUSTED = ["tools/extractors/C16.py (STATE_VIRTUAL_ATTRS, StateVal.__new__ fields, State.set parameters, recurse_assign dot routing, ast_name look-up order)",
           "harness/run_C16.py (script generation, canonicalisation, the Python rendering of the dictionary rules used as oracle)",
           "modelled not verified: hass.states, python keyword binding, str(); nested attribute values alias the objects held by HA (residue case reported in the evidence)"]

VIRT = ["entity_id", "last_changed", "last_reported", "last_updated"]
CALLABLE_ATTRS = ["as_bool", "as_datetime", "as_float", "as_int", "as_round", "has_value", "is_unavailable", "is_unknown"]
SET_PARAMS = ["cls", "var_name", "value", "new_attributes"]
SERVICES = [["pyscript", "step"], ["pyscript", "svcm"], ["pyscript", "reload"], ["pyscript", "jupyter_kernel_start"]]
SVCMETHODS = [["pyscript", "svcm"]]
FUNCTIONS = [["task", "sleep"], ["state", "get"]]          # dotted registered functions (plain ones are never used as heads)
# the one deviation that is still open (C16-F2); C16-F1/F3/F4 were repaired in /repo and are judged like anything else
FINDING_SIGS = ["assign-stateval-replaces-attrs"]

# boundary values: the strings HA / pyscript give a meaning to ('', 'None', 'unknown', 'unavailable'), blanks around a
# value, a long string (the aug-assignment suffixes keep it under HA's 255 limit; exactly 255 is a systematic case),
# numbers as int / float / bool (what string do they become), None / {} / [] / nested values for attributes
VALUES = ["on", "off", "", "12", 5, 7, -3, 1.5, True, False, None, [3, "x"], [], {"k": 4}, {"k": [8, 2], "m": None}, "None",
          "unknown", "unavailable", " on ", "y" * 200, -0.5, 1000.0, {}, [[]], {"d": {"e": {}}}]
ENTS = [["pyscript", "e0"], ["pyscript", "e1"], ["sensor", "e2"], ["light", "e3"], ["pyscript", "step"], ["task", "sleep"]]
# attribute names: three ordinary ones, then names that collide with the virtual fields, an entity service, a helper
# method of StateVal, methods of str, a private-looking name, a missing one
ATTRS = ["a0", "a1", "a2", "entity_id", "svcm", "as_int", "zz", "last_changed", "context", "last_updated", "last_reported",
         "upper", "split", "format", "_x"]
KEY_NAMES = ["entity_id", "last_changed", "last_reported", "upper", "format", "_x", "as_int", "context"]   # as stored keys
STR_ATTRS = [a for a in dir(str) if not a.startswith("_")]


def _jd(o):
    return "<time>" if isinstance(o, dt.datetime) else f"<{type(o).__name__}>"


def canon_val(v):
    """identity of a python value: its JSON rendering (time stamps only by type; foreign objects by class name)"""
    if isinstance(v, dt.datetime):
        return "<time>"
    try:
        return json.dumps(v, sort_keys=True, default=_jd)
    except (TypeError, ValueError):
        return f"<{type(v).__name__}>"


def val_sx(v):
    return [canon_val(v), str(v)]


# ------------------------------------------------------------------ generation
def gen_attrs(rng, n=None):
    ks = rng.sample(["a0", "a1", "a2"], rng.randrange(0, 4) if n is None else n)
    if ks and rng.random() < 0.2:
        ks[0] = rng.choice(KEY_NAMES)          # a stored attribute named like a virtual field / a method / `_x`
    return [[k, rng.choice(VALUES)] for k in ks]


class Gen:
    """tracks just enough (number of captured snapshots, rough existence) to aim the generator"""

    def __init__(self, rng, ents, env, allow_findings):
        self.rng, self.ents, self.env, self.allow = rng, ents, env, allow_findings
        self.nsnaps = 0
        self.exists = set()

    def ent(self):
        return self.rng.choice(self.ents)

    def attr(self, wide=True):
        r = self.rng
        if wide and r.random() < 0.25:
            return r.choice(ATTRS[3:])
        return r.choice(ATTRS[:3])

    def pyhead(self, e):
        return e[0] in self.env["globals"] or e[0] in self.env["locals"]

    def collides(self, e):
        return e in SERVICES or e in FUNCTIONS

    def arg(self, allow_snap=True, allow_none=True):
        r = self.rng
        x = r.random()
        if allow_snap and self.nsnaps and x < 0.15:
            return ["snap", r.randrange(self.nsnaps)]
        v = r.choice(VALUES)
        if v is None and not allow_none:
            v = "x"
        return ["plain", v] if v is not None else "none"

    def op(self):
        r = self.rng
        e = self.ent()
        k = r.choices(
            ["load2", "load3", "get", "store2", "store3", "set", "setattr", "del", "delete", "exist", "getattr",
             "getattrsnap", "names", "peek", "extset", "extremove", "aug"],
            [10, 8, 6, 10, 8, 14, 4, 5, 5, 6, 5, 2, 3, 4, 6, 3, 3])[0]
        if k == "aug":
            if self.pyhead(e):
                e = next((x for x in self.ents if not self.pyhead(x)), None)
                if e is None:
                    return {"k": "names", "dom": None}
            return {"k": "aug", "parts": e, "sfx": r.choice(["x", "", " ", "0"])}
        if k == "load2":
            if not self.pyhead(e) and not self.collides(e):
                self.nsnaps += 1 if tuple(e) in self.exists else 0
            return {"k": "load", "parts": e}
        if k == "load3":
            if self.collides(e) and not self.pyhead(e):
                e = self.ents[0]
            return {"k": "load", "parts": e + [self.attr()]}
        if k == "get":
            parts = e + ([self.attr()] if r.random() < 0.5 else [])
            if r.random() < 0.05:
                parts = r.choice([[e[0]], e + ["a0", "b"]])
            if len(parts) == 2 and tuple(e) in self.exists:
                self.nsnaps += 1
            return {"k": "get", "parts": parts}
        if k == "store2":
            a = self.arg(allow_snap=self.allow, allow_none=True)
            if not self.pyhead(e):
                self.exists.add(tuple(e))
            return {"k": "store", "parts": e, "arg": a}
        if k == "store3":
            at = self.attr(wide=False)
            if r.random() < 0.2:
                at = r.choice(["value", "var_name", "cls", "new_attributes"])   # names of State.set's parameters
            a = self.arg(allow_snap=True)          # a StateVal as attribute value is stored as the string it is
            return {"k": "store", "parts": e + [at], "arg": a}
        if k == "set":
            a = self.arg(allow_snap=True)
            na = r.choice([None, None, [], "dict"])
            if na == "dict":
                na = gen_attrs(r, r.randrange(1, 3))
            if isinstance(a, list) and a[0] == "snap" and na is None and not self.allow:
                na = []
            kw = gen_attrs(r, r.choice([0, 0, 1, 2]))
            parts = e
            if r.random() < 0.04:
                parts = r.choice([[e[0]], e + ["a0"]])
            if len(parts) == 2:
                self.exists.add(tuple(e))
            return {"k": "set", "parts": parts, "arg": a, "na": na, "kw": kw,
                    "style": r.randrange(4)}
        if k == "setattr":
            at = self.attr(wide=False)
            if r.random() < 0.2:
                at = r.choice(["value", "new_attributes", "cls"])
            parts = e + [at]
            if r.random() < 0.06:
                parts = r.choice([e, e + ["a0", "b"]])
            return {"k": "setattr", "parts": parts, "val": r.choice(VALUES)}
        if k == "del":
            parts = e + ([self.attr(wide=False)] if r.random() < 0.6 else [])
            if len(parts) == 2 and not self.pyhead(e):
                self.exists.discard(tuple(e))
            return {"k": "del", "parts": parts}
        if k == "delete":
            parts = e + ([self.attr(wide=False)] if r.random() < 0.6 else [])
            if r.random() < 0.05:
                parts = r.choice([[e[0]], e + ["a0", "b"]])
            if len(parts) == 2:
                self.exists.discard(tuple(e))
            return {"k": "delete", "parts": parts}
        if k == "exist":
            parts = e + ([self.attr()] if r.random() < 0.6 else [])
            if r.random() < 0.05:
                parts = r.choice([[e[0]], e + ["a0", "b"]])
            return {"k": "exist", "parts": parts}
        if k == "getattr":
            parts = e if r.random() < 0.93 else r.choice([[e[0]], e + ["a0"]])
            return {"k": "getattr", "parts": parts}
        if k == "getattrsnap":
            return {"k": "getattrsnap", "i": r.randrange(self.nsnaps)} if self.nsnaps else {"k": "names", "dom": None}
        if k == "names":
            return {"k": "names", "dom": r.choice([None, "pyscript", "sensor", "nosuch"])}
        if k == "peek":
            return {"k": "peek", "i": r.randrange(self.nsnaps)} if self.nsnaps else {"k": "exist", "parts": e}
        if k == "extset":
            self.exists.add(tuple(e))
            return {"k": "extset", "ent": e, "value": str(r.choice([v for v in VALUES if v is not None])),
                    "attrs": gen_attrs(r)}
        self.exists.discard(tuple(e))
        return {"k": "extremove", "ent": e}


def random_case(rng, idx, allow_findings, nops=None):
    env = {"globals": [], "locals": []}
    x = rng.random()
    if x < 0.12:
        env["globals"] = ["sensor"]
    elif x < 0.24:
        env["locals"] = ["sensor"]
    elif x < 0.30:
        env["globals"], env["locals"] = ["sensor", "light"], ["sensor"]
    pool = ENTS[:4] if rng.random() < 0.8 else ENTS
    ents = rng.sample(pool, 3)
    g = Gen(rng, ents, env, allow_findings)
    ops = []
    # start from a populated store most of the time
    for e in ents:
        if rng.random() < 0.6:
            g.exists.add(tuple(e))
            ops.append({"k": "extset", "ent": e, "value": str(rng.choice(["on", "3", "x"])), "attrs": gen_attrs(rng)})
    n = nops or rng.randrange(6, 17)
    while len(ops) < n:
        o = g.op()
        ops.append(o)
        # the third and later write in a row with an identical value (Home Assistant skips equal writes)
        if o["k"] in ("store", "set", "setattr", "extset") and rng.random() < 0.12:
            ops += [dict(o), dict(o)]
    return {"env": env, "ops": ops, "legacy": bool(idx % 2)}


def systematic_cases():
    """every state.set argument combination, on an existing and on a missing target"""
    out = []
    src, tgt = ["pyscript", "e0"], ["pyscript", "e1"]
    for exists in (True, False):
        for val in ("omitted", "plain", "snap"):
            for na in (None, [], [["a1", 7], ["a2", [1]]]):
                for kw in ([], [["a0", "k"]], [["a0", None], ["a2", {"z": 1}]]):
                    for legacy in (False, True):
                        ops = [{"k": "extset", "ent": src, "value": "s0", "attrs": [["a0", 1], ["a1", "q"]]}]
                        if exists:
                            ops.append({"k": "extset", "ent": tgt, "value": "t0", "attrs": [["a0", 2], ["a2", True]]})
                        ops.append({"k": "load", "parts": src})
                        arg = {"omitted": "none", "plain": ["plain", 41], "snap": ["snap", 0]}[val]
                        ops.append({"k": "set", "parts": tgt, "arg": arg, "na": na, "kw": kw, "style": 0})
                        ops += [{"k": "getattr", "parts": tgt}, {"k": "load", "parts": tgt}, {"k": "peek", "i": 0}]
                        out.append({"env": {"globals": [], "locals": []}, "ops": ops, "legacy": legacy,
                                    "sys": f"set:{val}:{'none' if na is None else len(na)}:{len(kw)}:{exists}"})
    return out


def boundary_cases():
    """one short scenario per boundary value: what string does it become, is it read back unchanged, are the virtual
    fields still the virtual fields"""
    out = []
    e0 = ["pyscript", "e0"]
    for legacy in (False, True):
        for v in ("", "None", "unknown", "unavailable", " x ", "y" * 255, 0, 1, -1, 0.0, 1.0, 2.5, True, False):
            out.append({"env": {"globals": [], "locals": []}, "legacy": legacy, "sys": "bv-value",
                        "ops": [{"k": "store", "parts": e0, "arg": ["plain", v]}, {"k": "load", "parts": e0},
                                {"k": "store", "parts": e0, "arg": ["plain", v]}, {"k": "store", "parts": e0, "arg": ["plain", v]},
                                {"k": "aug", "parts": e0, "sfx": ""}, {"k": "get", "parts": e0}]})
        for a in ("entity_id", "last_changed", "last_updated", "last_reported", "upper", "split", "format", "_x", "as_int"):
            out.append({"env": {"globals": [], "locals": []}, "legacy": legacy, "sys": "bv-attrname",
                        "ops": [{"k": "extset", "ent": e0, "value": "v", "attrs": []},
                                {"k": "load", "parts": e0 + [a]}, {"k": "exist", "parts": e0 + [a]},
                                {"k": "store", "parts": e0 + [a], "arg": ["plain", 7]},
                                {"k": "load", "parts": e0 + [a]}, {"k": "get", "parts": e0 + [a]}, {"k": "exist", "parts": e0 + [a]},
                                {"k": "getattr", "parts": e0}, {"k": "load", "parts": e0}, {"k": "getattrsnap", "i": 0},
                                {"k": "set", "parts": ["pyscript", "e1"], "arg": "none", "na": None, "kw": [[a, None]], "style": 0},
                                {"k": "del", "parts": e0 + [a]}, {"k": "load", "parts": e0 + [a]}, {"k": "peek", "i": 0}]})
        for parts in (["pyscript"], e0, e0 + ["a0"], e0 + ["a0", "b"]):
            out.append({"env": {"globals": [], "locals": []}, "legacy": legacy, "sys": "bv-parts",
                        "ops": [{"k": kk, "parts": parts} for kk in ("get", "exist", "getattr", "delete")] +
                               [{"k": "set", "parts": parts, "arg": ["plain", 1], "na": None, "kw": [], "style": 0},
                                {"k": "setattr", "parts": parts, "val": 2}] +
                               [{"k": kk, "parts": parts} for kk in ("get", "exist", "getattr", "delete", "delete")] +
                               [{"k": "names", "dom": "pyscript"}]})
        # a StateVal as value and as attribute value; the snapshot after its entity changed and after it was deleted
        e1 = ["pyscript", "e1"]
        out.append({"env": {"globals": [], "locals": []}, "legacy": legacy, "sys": "bv-stateval",
                    "ops": [{"k": "set", "parts": e0, "arg": ["plain", "v"], "na": None, "kw": [["a0", 1]], "style": 0},
                            {"k": "load", "parts": e0}, {"k": "store", "parts": e1, "arg": ["plain", "w"]},
                            {"k": "store", "parts": e1 + ["a1"], "arg": ["snap", 0]},
                            {"k": "load", "parts": e1 + ["a1"]}, {"k": "get", "parts": e1 + ["a1"]}, {"k": "getattr", "parts": e1},
                            {"k": "store", "parts": e0, "arg": ["plain", "changed"]}, {"k": "peek", "i": 0}, {"k": "getattrsnap", "i": 0},
                            {"k": "load", "parts": e1 + ["a1"]},
                            {"k": "delete", "parts": e0}, {"k": "peek", "i": 0}, {"k": "getattrsnap", "i": 0},
                            {"k": "store", "parts": e0, "arg": ["snap", 0]}, {"k": "load", "parts": e0}, {"k": "getattr", "parts": e0},
                            {"k": "set", "parts": e1, "arg": ["snap", 0], "na": None, "kw": [], "style": 0}, {"k": "getattr", "parts": e1}]})
    return out


def finding_cases():
    e0, e1 = ["pyscript", "e0"], ["pyscript", "e1"]
    base = [{"k": "extset", "ent": e0, "value": "5", "attrs": [["a0", 1]]},
            {"k": "extset", "ent": e1, "value": "7", "attrs": [["a1", 2]]}]
    out = []
    for legacy in (False, True):
        out.append({"env": {"globals": [], "locals": []}, "legacy": legacy, "sys": "F1",
                    "ops": base + [{"k": "store", "parts": e0, "arg": "none"}, {"k": "load", "parts": e0}]})
        out.append({"env": {"globals": [], "locals": []}, "legacy": legacy, "sys": "F2",
                    "ops": base + [{"k": "load", "parts": e0}, {"k": "store", "parts": e1, "arg": ["snap", 0]},
                                   {"k": "getattr", "parts": e1}]})
        out.append({"env": {"globals": [], "locals": []}, "legacy": legacy, "sys": "F3",
                    "ops": base + [{"k": "store", "parts": e0 + ["value"], "arg": ["plain", 9]},
                                   {"k": "getattr", "parts": e0}]})
        out.append({"env": {"globals": [], "locals": ["sensor"]}, "legacy": legacy, "sys": "F4",
                    "ops": base + [{"k": "del", "parts": ["sensor", "e2"]}]})
        # priority: local > global > service > state
        out.append({"env": {"globals": ["sensor", "light"], "locals": ["sensor"]}, "legacy": legacy, "sys": "prio",
                    "ops": [{"k": "extset", "ent": ["sensor", "e2"], "value": "s", "attrs": [["a0", 1]]},
                            {"k": "extset", "ent": ["light", "e3"], "value": "l", "attrs": []},
                            {"k": "extset", "ent": ["pyscript", "step"], "value": "st", "attrs": [["a0", 3]]},
                            {"k": "load", "parts": ["sensor", "e2"]}, {"k": "load", "parts": ["light", "e3"]},
                            {"k": "load", "parts": ["sensor", "e2", "a0"]}, {"k": "load", "parts": ["pyscript", "step"]},
                            {"k": "get", "parts": ["pyscript", "step"]}, {"k": "load", "parts": ["pyscript", "step", "a0"]},
                            {"k": "store", "parts": ["sensor", "e2"], "arg": ["plain", 1]},
                            {"k": "store", "parts": ["light", "e3", "a0"], "arg": ["plain", 1]},
                            {"k": "store", "parts": ["pyscript", "step"], "arg": ["plain", "w"]},
                            {"k": "get", "parts": ["sensor", "e2"]}, {"k": "load", "parts": ["task", "sleep"]}]})
    return out


def model_str_attrs():
    """the list of str's public attributes written into the model (lean/PsModel/Model/C16.lean, STR_ATTRS)"""
    src = (common.LEAN / "PsModel" / "Model" / "C16.lean").read_text()
    m = re.search(r"def STR_ATTRS : List String :=\s*\[([^\]]*)\]", src)
    return re.findall(r'"([^"]+)"', m.group(1)) if m else []


# ------------------------------------------------------------------ model-less probes (judged by a fixed oracle)
# rebind: the SAME parsed functions are executed again after a Python variable named like the entity's domain appears /
#         disappears ("local and global Python variables take precedence over state names" - at every execution, not
#         only the first one of a parsed statement): reads, attribute reads, writes, attribute writes, deletes.
# alias:  state.set(name, value, new_attributes=D, k=v) with a caller-owned dict D that is inspected afterwards and
#         REUSED for another entity: the caller's dict is unchanged, the second entity gets exactly D (+ its own keywords).
PROBE_SRC = """
@service
def pstep(i=None, fn=None):
    try:
        rec('pout', i, PF[fn]())
    except Exception as e:
        rec('pexc', i, type(e).__name__, str(e))

def rb_bind():
    global sensor
    sensor = mkns('global')
def rb_unbind():
    global sensor
    del sensor
def rb_read():
    return sensor.e2
def rb_readattr():
    return sensor.e2.a0
def rb_write():
    sensor.e2 = 'w'
def rb_attrwrite():
    sensor.e2.a0 = 7
def rb_delattr():
    del sensor.e2.a0
def rb_del():
    del sensor.e2
def al_kw():
    D = {'a0': 1}
    state.set('pyscript.pa', 'v1', new_attributes=D, k1=5)
    d1 = dict(D)
    state.set('pyscript.pb', 'v2', D)
    return [d1, dict(D), state.getattr('pyscript.pa'), state.getattr('pyscript.pb')]
def al_pos():
    D = {}
    state.set('pyscript.pa', 'v1', D, k1=5, k2='x')
    d1 = dict(D)
    state.set('pyscript.pb', 'v2', new_attributes=D)
    return [d1, dict(D), state.getattr('pyscript.pa'), state.getattr('pyscript.pb')]
def al_reuse():
    D = {'a0': 1, 'a1': [2]}
    state.set('pyscript.pa', 'v1', D, k1=5)
    d1 = dict(D)
    state.set('pyscript.pb', 'v2', D, k2=6)
    return [d1, dict(D), state.getattr('pyscript.pa'), state.getattr('pyscript.pb')]
PF = {'rb_bind': rb_bind, 'rb_unbind': rb_unbind, 'rb_read': rb_read, 'rb_readattr': rb_readattr, 'rb_write': rb_write,
      'rb_attrwrite': rb_attrwrite, 'rb_delattr': rb_delattr, 'rb_del': rb_del, 'al_kw': al_kw, 'al_pos': al_pos,
      'al_reuse': al_reuse}
"""
RB_FNS = ["rb_read", "rb_readattr", "rb_write", "rb_attrwrite", "rb_delattr", "rb_del"]
# what each function must do to the entity sensor.e2 = ('on', {a0: 1}) when `sensor` is NOT a Python variable ...
RB_UNBOUND = {"rb_read": (["sv", "on"], ["on", [["a0", "1"]]]), "rb_readattr": (["val", "1"], ["on", [["a0", "1"]]]),
              "rb_write": (["val", "null"], ["w", [["a0", "1"]]]), "rb_attrwrite": (["val", "null"], ["on", [["a0", "7"]]]),
              "rb_delattr": (["val", "null"], ["on", []]), "rb_del": (["val", "null"], None)}
# ... and when it is: the Python object is read / gets the setattr / delattr, the state machine is not touched
RB_BOUND = {"rb_read": "py", "rb_readattr": "py", "rb_write": "setattr", "rb_attrwrite": "setattr",
            "rb_delattr": "delattr", "rb_del": "delattr"}
AL_EXPECT = {"al_kw": [{"a0": 1}, {"a0": 1}, {"a0": 1, "k1": 5}, {"a0": 1}],
             "al_pos": [{}, {}, {"k1": 5, "k2": "x"}, {}],
             "al_reuse": [{"a0": 1, "a1": [2]}, {"a0": 1, "a1": [2]}, {"a0": 1, "a1": [2], "k1": 5}, {"a0": 1, "a1": [2], "k2": 6}]}


def probe_cases(rng):
    out = []
    for legacy in (True, False):
        for order in ("UBU", "BUB", "UBUB"):
            fns = list(RB_FNS)
            rng.shuffle(fns)
            out.append({"kind": "probe", "probe": "rebind", "legacy": legacy, "order": order, "fns": fns,
                        "env": {"globals": [], "locals": []}, "ops": []})
        out.append({"kind": "probe", "probe": "alias", "legacy": legacy, "fns": ["al_kw", "al_pos", "al_reuse"],
                    "env": {"globals": [], "locals": []}, "ops": []})
    return out


def run_probe(p):
    from ha_env import run_ha
    from custom_components.pyscript.function import Function
    from custom_components.pyscript.state import StateVal
    nslog = []
    Function.functions.update({"mkns": lambda tag: NS(tag, nslog)})

    async def body(env):
        steps = []
        n = [0]

        async def call(fn):
            del nslog[:]
            n[0] += 1
            nrec = len(env.records)
            await env.call("pyscript", "pstep", {"i": n[0], "fn": fn})
            await env.settle(0)
            recs = [r for r in env.records[nrec:] if r[1] in ("pout", "pexc") and r[2] == n[0]]
            if len(recs) != 1:
                return ["harness", f"{len(recs)} records"]
            if recs[0][1] == "pexc":
                return ["exc", recs[0][3]]
            raw = recs[0][3]
            if nslog:
                return ["py", nslog[-1]]
            if isinstance(raw, StateVal):
                return ["sv", str(raw)]
            if isinstance(raw, NS):
                return ["py", "py"]
            return ["val", canon_val(raw)]

        if p["probe"] == "alias":
            for fn in p["fns"]:
                steps.append({"fn": fn, "out": await call(fn)})
            return steps
        bound = False
        for phase in p["order"]:
            if phase == "B" and not bound:
                steps.append({"fn": "rb_bind", "out": await call("rb_bind")})
                bound = True
            elif phase == "U" and bound:
                steps.append({"fn": "rb_unbind", "out": await call("rb_unbind")})
                bound = False
            for fn in p["fns"]:
                env.hass.states.async_set("sensor.e2", "on", {"a0": 1})
                await env.settle(0)
                out = await call(fn)
                st = env.hass.states.get("sensor.e2")
                steps.append({"fn": fn, "bound": bound, "out": out,
                              "store": None if st is None else [st.state, canon_dict(dict(st.attributes))]})
        return steps

    import gc
    gc.collect()
    return run_ha({"p.py": PROBE_SRC}, p["legacy"], body)


def judge_probe(p):
    bad = []
    obs = p.get("_obs") or []
    if p["probe"] == "alias":
        for i, st in enumerate(obs):
            want = AL_EXPECT[st["fn"]]
            if st["out"][0] != "val":
                bad.append((i, "alias-probe-raise", f"{st['fn']}: {st['out']}"))
                continue
            got = json.loads(st["out"][1])
            if got[0] != want[0] or got[1] != want[1]:
                bad.append((i, "caller-dict-mutated", f"{st['fn']}: the caller's new_attributes dict is {got[0]} / {got[1]} after "
                                                      f"state.set(..., k=v); it was {want[0]}"))
            elif got[2] != want[2] or got[3] != want[3]:
                bad.append((i, "reused-dict-attrs", f"{st['fn']}: entities got attributes {got[2]} / {got[3]} instead of "
                                                    f"{want[2]} / {want[3]}"))
        return bad
    for i, st in enumerate(obs):
        fn = st["fn"]
        if fn in ("rb_bind", "rb_unbind"):
            if st["out"][0] != "val":
                bad.append((i, "rebind-probe-driver", f"{fn}: {st['out']}"))
            continue
        if st["bound"]:
            want = RB_BOUND[fn]
            ok = (st["out"] == ["py", want]) and st["store"] == ["on", [["a0", "1"]]]
            if not ok:
                bad.append((i, "pyvar-ignored-on-rerun", f"step {i} {fn} with `sensor` bound to a Python object (order {p['order']}): "
                                                         f"saw {st['out']}, sensor.e2 = {st['store']}: the Python variable must take precedence"))
        else:
            wout, wstore = RB_UNBOUND[fn]
            if st["out"] != wout or st["store"] != wstore:
                bad.append((i, "state-ignored-on-rerun", f"step {i} {fn} with no Python variable `sensor` (order {p['order']}): "
                                                         f"saw {st['out']}, sensor.e2 = {st['store']} instead of {wout}, {wstore}"))
    return bad


def gen_cases(rng, tier, search):
    if sorted(model_str_attrs()) != sorted(STR_ATTRS):
        raise RuntimeError("the model's STR_ATTRS is not dir(str) of this python: "
                           f"{sorted(set(model_str_attrs()) ^ set(STR_ATTRS))}")
    n = 420 if tier == "quick" else 8000
    if search:
        n *= 3
    payloads = []
    if not search:
        payloads += systematic_cases() + finding_cases() + boundary_cases()
    for i in range(n):
        payloads.append(random_case(rng, i, allow_findings=(i % 8 == 7)))
    cases = []
    for p in payloads:
        c = Case(p, case_line(p), tags=tags_of(p))
        c.nontrivial = any(o["k"] in ("store", "set", "setattr", "del", "delete", "extset", "extremove", "aug") for o in p["ops"])
        cases.append(c)
    for p in probe_cases(rng):                       # also part of the failing-input search
        c = Case(p, None, tags=tags_of(p) + ["probe:" + p["probe"]])
        c.nontrivial = True
        cases.append(c)
    return cases


def tags_of(p):
    t = {"legacy" if p["legacy"] else "new"}
    if p.get("sys"):
        t.add("sys:" + p["sys"].split(":")[0])
    if p["env"]["globals"] or p["env"]["locals"]:
        t.add("pyvar-env")
    return sorted(t)


# ------------------------------------------------------------------ driver line
def arg_sx(a):
    if a == "none":
        return "none"
    if a[0] == "plain":
        return ["plain"] + val_sx(a[1])
    return ["snap", a[1]]


def attrs_sx(kvs):
    return [[k] + val_sx(v) for k, v in kvs]


def op_sx(o):
    k = o["k"]
    if k in ("load", "del", "get", "delete", "exist", "getattr"):
        return [k, o["parts"]]
    if k == "aug":
        return ["aug", o["parts"], o["sfx"]]
    if k == "store":
        return ["store", o["parts"], arg_sx(o["arg"])]
    if k == "set":
        na = "none" if o["na"] is None else ["attrs"] + attrs_sx(o["na"])
        return ["set", o["parts"], arg_sx(o["arg"]), na, attrs_sx(o["kw"])]
    if k == "setattr":
        return ["setattr", o["parts"], val_sx(o["val"])]
    if k in ("getattrsnap", "peek"):
        return [k, o["i"]]
    if k == "names":
        return ["names"] if o["dom"] is None else ["names", o["dom"]]
    if k == "extset":
        return ["extset", o["ent"], o["value"], attrs_sx(o["attrs"])]
    if k == "extremove":
        return ["extremove", o["ent"]]
    raise ValueError(k)


def case_line(p):
    env = [p["env"]["globals"], p["env"]["locals"], FUNCTIONS, SERVICES, SVCMETHODS]
    return "C16 " + sx(["run", env, [op_sx(o) for o in p["ops"]]])


# ------------------------------------------------------------------ script generation
def dotted(parts):
    return ".".join(parts)


def arg_src(a):
    if a == "none":
        return "None"
    if a[0] == "plain":
        return repr(a[1])
    return f"snapref({a[1]})"


def op_src(o):
    k = o["k"]
    if k == "load":
        return f"return {dotted(o['parts'])}"
    if k == "aug":
        return f"{dotted(o['parts'])} += {o['sfx']!r}"
    if k == "store":
        return f"{dotted(o['parts'])} = {arg_src(o['arg'])}"
    if k == "del":
        return f"del {dotted(o['parts'])}"
    if k == "get":
        return f"return state.get({dotted(o['parts'])!r})"
    if k == "set":
        args = [repr(dotted(o["parts"]))]
        style = o.get("style", 0)
        na = None if o["na"] is None else "{" + ", ".join(f"{k!r}: {v!r}" for k, v in o["na"]) + "}"
        if o["arg"] == "none":
            if style == 1 or (style == 2 and na is not None):
                args.append("None")                       # explicit None positional
                if na is not None:
                    args.append(na)
            elif na is not None:
                args.append(f"new_attributes={na}")
            elif style == 3:
                args.append("new_attributes=None")        # explicit None = omitted
        else:
            args.append(arg_src(o["arg"]) if style != 2 else "value=" + arg_src(o["arg"]))
            if na is not None:
                args.append(na if style == 0 else f"new_attributes={na}")
            elif style == 3:
                args.append("new_attributes=None")
        args += [f"{k}={v!r}" for k, v in o["kw"]]
        return f"state.set({', '.join(args)})"
    if k == "setattr":
        return f"state.setattr({dotted(o['parts'])!r}, {o['val']!r})"
    if k == "delete":
        return f"state.delete({dotted(o['parts'])!r})"
    if k == "exist":
        return f"return state.exist({dotted(o['parts'])!r})"
    if k == "getattr":
        return f"return state.getattr({dotted(o['parts'])!r})"
    if k == "getattrsnap":
        return f"return state.getattr(snapref({o['i']}))"
    if k == "names":
        return "return state.names()" if o["dom"] is None else f"return state.names({o['dom']!r})"
    if k == "peek":
        return f"return snapref({o['i']})"
    return None


def script_of(batch):
    """one script file for a batch of cases that share the global Python variables; op functions are op_<case>_<i>"""
    lines = ["@service", "def svcm(entity_id=None, p=None):", "    pass", "",
             "@service", "def step(i=None):", "    try:", "        rec('out', i, OPS[i]())",
             "    except Exception as e:", "        rec('exc', i, type(e).__name__, str(e))", ""]
    for g in batch[0]["env"]["globals"]:
        lines.append(f"{g} = mkns('global')")
    table = []
    for ci, p in enumerate(batch):
        for i, o in enumerate(p["ops"]):
            src = op_src(o)
            if src is None:
                continue
            lines.append(f"def op_{ci}_{i}():")
            for l in p["env"]["locals"]:
                lines.append(f"    {l} = mkns('local')")
            lines.append("    " + src)
            table.append(f"'{ci}_{i}': op_{ci}_{i}")
    lines.append("OPS = {" + ", ".join(table) + "}")
    return "\n".join(lines) + "\n"


# ------------------------------------------------------------------ running the implementation
class NS:
    """a native Python object standing for a Python variable named like a domain"""

    def __init__(self, tag, log):
        object.__setattr__(self, "_tag", tag)
        object.__setattr__(self, "_log", log)

    def __getattr__(self, name):
        if name.startswith("__"):
            raise AttributeError(name)
        return NS(self._tag + "." + name, self._log)

    def __setattr__(self, name, v):
        self._log.append("setattr")

    def __delattr__(self, name):
        self._log.append("delattr")


def canon_dict(d):
    out = []
    for k in sorted(d):
        v = d[k]
        out.append([k, "<time>" if isinstance(v, dt.datetime) else canon_val(v)])
    return out


def canon_out(x, nslog):
    from custom_components.pyscript.state import StateVal
    if nslog:
        return ["py", nslog[-1]]
    if isinstance(x, StateVal):
        return ["sv", str(x), canon_dict(x.__dict__)]
    if isinstance(x, NS):
        return ["py", x._tag.split(".")[0]]
    if callable(x):
        return "callable"
    if isinstance(x, dt.datetime):
        return ["attr", "<time>"]
    return ["val", canon_val(x)]      # refined per op kind below


def refine(o, raw):
    """turn a raw python result into the Out rendering of the model for op kind `o`"""
    k = o["k"]
    if not (isinstance(raw, list) and raw and raw[0] == "val"):
        return raw
    v = json.loads(raw[1])
    if k in ("store", "del", "set", "setattr", "delete", "aug"):
        return "unit"
    if k == "exist":
        return ["bool", 1 if v else 0]
    if k in ("getattr", "getattrsnap"):
        return ["attrs", "none"] if v is None else \
            ["attrs", [[kk, "<time>" if vv == "<time>" else canon_val(vv)] for kk, vv in sorted(v.items())]]
    if k == "names":
        return ["names", sorted(v)]
    return ["attr", raw[1]]


def snapshot_store(hass):
    out = []
    for s in sorted(hass.states.async_all(), key=lambda s: s.entity_id):
        out.append([s.entity_id, s.state, canon_dict(dict(s.attributes))])
    return out


_CAPTURED = []
_NSLOG = []


def run_batch(batch):
    """run the cases of a batch (same subsystem, same global Python variables) on ONE Home Assistant instance; the
    state machine is emptied and the captured snapshots are dropped between cases.
    returns per case {"steps": [[out, store] per step], "final": final look at the captured snapshots}"""
    from ha_env import run_ha
    from custom_components.pyscript.function import Function
    from custom_components.pyscript.state import StateVal
    captured, nslog = _CAPTURED, _NSLOG
    # registered before the instance starts: the script calls mkns() while it is being loaded
    Function.functions.update({"mkns": lambda tag: NS(tag, nslog), "snapref": lambda i: captured[i]})

    async def body(env):
        from custom_components.pyscript.state import State
        # State.service2args is rebuilt by concurrent get_service_params() calls while the new subsystem starts the
        # @service decorators; two overlapping calls can leave a stale table (seen in 2 of 5118 cases).  The entity
        # service table is an input of this property, so it is rebuilt once more at a quiescent point.
        await State.get_service_params()
        results = []
        for ci, p in enumerate(batch):
            del captured[:]
            for s in list(env.hass.states.async_all()):
                env.hass.states.async_remove(s.entity_id)
            await env.settle(0)
            steps = []
            for i, o in enumerate(p["ops"]):
                del nslog[:]
                nrec = len(env.records)
                key = f"{ci}_{i}"
                if o["k"] == "extset":
                    env.hass.states.async_set(dotted(o["ent"]), o["value"], dict((k, v) for k, v in o["attrs"]))
                    await env.settle(0)
                    out = "unit"
                elif o["k"] == "extremove":
                    env.hass.states.async_remove(dotted(o["ent"]))
                    await env.settle(0)
                    out = "unit"
                else:
                    await env.call("pyscript", "step", {"i": key})
                    await env.settle(0)
                    recs = [r for r in env.records[nrec:] if r[2] == key]
                    if len(recs) != 1:
                        out = ["harness", f"{len(recs)} records"]
                    elif recs[0][1] == "exc":
                        out = ["exc", recs[0][3]]
                    else:
                        raw = recs[0][3]
                        if o["k"] in ("load", "get") and isinstance(raw, StateVal):
                            if len(o["parts"]) == 3:
                                # an ATTRIBUTE whose stored value is a StateVal object (d.n.a = other_state_val keeps
                                # the object in hass.states): judged as the string it is
                                raw = str(raw)
                            else:
                                captured.append(raw)
                        out = refine(o, canon_out(raw, list(nslog)))
                steps.append([out, snapshot_store(env.hass)])
            # immutability: every captured snapshot still shows what it showed when captured
            final = [["sv", str(s), canon_dict(s.__dict__)] for s in captured]
            results.append({"steps": steps, "final": final})
        return results

    import gc
    gc.collect()   # function objects of an earlier instance must not run their __del__ (service_remove) inside this one
    return run_ha({"t.py": script_of(batch)}, batch[0]["legacy"], body)


def _worker(batch):
    try:
        return run_batch(batch)
    except BaseException as e:  # a crash of the environment is reported as such, never as an outcome
        import traceback
        return [{"crash": f"{type(e).__name__}: {e}", "tb": traceback.format_exc()[-1500:]}] * len(batch)


BATCH = 8


def _probe_worker(p):
    try:
        return {"obs": run_probe(p)}
    except BaseException as e:
        import traceback
        return {"crash": f"{type(e).__name__}: {e}", "tb": traceback.format_exc()[-1500:]}


def run_impl(cases):
    probes = [c for c in cases if c.payload.get("kind") == "probe"]
    cases = [c for c in cases if c.payload.get("kind") != "probe"]
    if probes:
        for c, r in zip(probes, common.pmap(_probe_worker, [c.payload for c in probes], chunk=1)):
            if "crash" in r:
                raise RuntimeError("harness environment crashed: " + r["crash"] + "\n" + r.get("tb", ""))
            c.payload["_obs"] = r["obs"]
            c.impl, c.model = "probe", None     # no model column: judged by the fixed oracle only
            c.line = None
    groups = {}
    for idx, c in enumerate(cases):
        p = c.payload
        groups.setdefault((p["legacy"], tuple(p["env"]["globals"])), []).append(idx)
    batches = []
    for idxs in groups.values():
        for j in range(0, len(idxs), BATCH):
            batches.append(idxs[j:j + BATCH])
    results = common.pmap(_worker, [[cases[i].payload for i in b] for b in batches], chunk=1)
    for b, rs in zip(batches, results):
        for i, r in zip(b, rs):
            c = cases[i]
            if "crash" in r:
                raise RuntimeError("harness environment crashed: " + r["crash"] + "\n" + r.get("tb", ""))
            c.payload["_obs"] = r
            c.impl = render(r["steps"])


# ------------------------------------------------------------------ canonical rendering shared by all three columns
def norm_out(o):
    if isinstance(o, list) and o:
        if o[0] == "sv":
            return ["sv", o[1], sorted([list(x) for x in o[2]])]
        if o[0] == "names":
            return ["names", sorted(o[1])]
        if o[0] == "attrs" and isinstance(o[1], list):
            return ["attrs", sorted([list(x) for x in o[1]])]
        if o[0] == "bool":
            return ["bool", int(o[1])]
    return o


def norm_store(st):
    return sorted([[e, v, sorted([list(x) for x in a])] for e, v, a in st])


def render(steps):
    return sx([[norm_out(o), norm_store(st)] for o, st in steps])


def split(outline):
    m = re.match(r"ok model=(.*) spec=(.*) conf=([01]*)$", outline)
    if not m:
        return outline, None
    try:
        mod = parse_sx(m.group(1))
        spc = parse_sx(m.group(2))
        return render(_steps(mod)), render(_steps(spc)) + " conf=" + m.group(3)
    except Exception as e:  # malformed driver output is a tie failure, not a crash
        return f"err unparsable-driver-output {e}", None


def _steps(x):
    out = []
    for step in x:
        o, st = step
        out.append([o, [[e, v, a if isinstance(a, list) else []] for e, v, a in (st if isinstance(st, list) else [])]])
    return out


# ------------------------------------------------------------------ the property, as an independent dictionary oracle
class Oracle:
    """the dictionary rules of the property statement over {entity_id: (value, {attr: canon})}"""

    def __init__(self, env):
        self.env = env

    def pyvar(self, d):
        if d in self.env["locals"]:
            return "local"
        if d in self.env["globals"]:
            return "global"
        return None

    @staticmethod
    def view(e, rec):
        d = dict(rec[1])
        d["entity_id"] = canon_val(e)
        for f in VIRT[1:]:
            d[f] = "<time>"
        return d

    def get(self, st, parts):
        if len(parts) not in (2, 3):
            return ["exc", "NameError"]
        e = dotted(parts[:2])
        if e not in st:
            return ["exc", "NameError"]
        if len(parts) == 2:
            return ["sv", st[e][0], sorted(self.view(e, st[e]).items())]
        a = parts[2]
        if [parts[0], a] in SVCMETHODS:
            return "callable"
        v = self.view(e, st[e])
        if a in v:
            return ["attr", v[a]]
        return "callable" if a in CALLABLE_ATTRS or a in STR_ATTRS else ["exc", "AttributeError"]

    @staticmethod
    def set_rule(st, e, value, na, kw):
        old = st.get(e)
        val = value if value is not None else (old[0] if old else "None")
        attrs = dict(na) if na is not None else (dict(old[1]) if old else {})
        for k, v in kw:
            attrs[k] = canon_val(v)
        st = dict(st)
        st[e] = (val, attrs)
        return st

    def step(self, st, o, snaps):
        """-> (expected out, expected store, category when the real code is known to differ here)"""
        k = o["k"]
        if k == "extset":
            st = dict(st)
            st[dotted(o["ent"])] = (o["value"], {kk: canon_val(v) for kk, v in o["attrs"]})
            return "unit", st
        if k == "extremove":
            st = dict(st)
            st.pop(dotted(o["ent"]), None)
            return "unit", st
        if k == "load":
            parts = o["parts"]
            pv = self.pyvar(parts[0])
            if pv:
                return ["py", pv], st
            if parts[:2] in FUNCTIONS or parts[:2] in SERVICES:
                # the name d.n is a function / an existing service: it wins over the state variable d.n;
                # what `d.n.attr` means then is not specified by the property (not judged)
                return ("callable" if len(parts) == 2 else None), st
            return self.get(st, parts), st
        if k == "get":
            return self.get(st, o["parts"]), st
        if k == "store":
            parts, a = o["parts"], o["arg"]
            if self.pyvar(parts[0]):
                return ["py", "setattr"], st
            if len(parts) == 2:
                s = "None" if a == "none" else (str(a[1]) if a[0] == "plain" else snaps[a[1]][1])
                return "unit", self.set_rule(st, dotted(parts), s, None, [])
            e = dotted(parts[:2])
            if e not in st:
                return ["exc", "NameError"], st
            v = None if a == "none" else (a[1] if a[0] == "plain" else snaps[a[1]][1])   # a StateVal is its string
            return "unit", self.set_rule(st, e, None, None, [[parts[2], v]])
        if k == "aug":
            parts = o["parts"]
            if parts in FUNCTIONS or parts in SERVICES:
                return ["exc", "TypeError"], st              # the name is a function: function += str
            e = dotted(parts)
            if e not in st:
                return ["exc", "NameError"], st
            return "unit", self.set_rule(st, e, st[e][0] + o["sfx"], None, [])
        if k == "setattr":
            parts = o["parts"]
            if len(parts) != 3 or dotted(parts[:2]) not in st:
                return ["exc", "NameError"], st
            return "unit", self.set_rule(st, dotted(parts[:2]), None, None, [[parts[2], o["val"]]])
        if k == "set":
            parts, a = o["parts"], o["arg"]
            if len(parts) != 2:
                return ["exc", "NameError"], st
            s = None if a == "none" else (str(a[1]) if a[0] == "plain" else snaps[a[1]][1])
            na = None if o["na"] is None else {kk: canon_val(v) for kk, v in o["na"]}
            return "unit", self.set_rule(st, dotted(parts), s, na, o["kw"])
        if k in ("del", "delete"):
            parts = o["parts"]
            if k == "del" and self.pyvar(parts[0]):
                return ["py", "delattr"], st
            if len(parts) not in (2, 3) or dotted(parts[:2]) not in st:
                return ["exc", "NameError"], st
            e = dotted(parts[:2])
            st2 = dict(st)
            if len(parts) == 2:
                del st2[e]
                return "unit", st2
            if parts[2] not in st[e][1]:
                return ["exc", "AttributeError"], st
            attrs = dict(st[e][1])
            del attrs[parts[2]]
            st2[e] = (st[e][0], attrs)
            return "unit", st2
        if k == "exist":
            parts = o["parts"]
            if len(parts) not in (2, 3) or dotted(parts[:2]) not in st:
                return ["bool", 0], st
            if len(parts) == 2:
                return ["bool", 1], st
            a = parts[2]
            ok = [parts[0], a] in SVCMETHODS or a in st[dotted(parts[:2])][1] or a in VIRT or a in CALLABLE_ATTRS
            return ["bool", 1 if ok else 0], st
        if k == "getattr":
            parts = o["parts"]
            if len(parts) != 2:
                return ["exc", "NameError"], st
            e = dotted(parts)
            return (["attrs", "none"] if e not in st else ["attrs", sorted(st[e][1].items())]), st
        if k == "getattrsnap":
            return ["attrs", sorted((kk, v) for kk, v in snaps[o["i"]][2] if kk not in VIRT)], st
        if k == "names":
            return ["names", sorted(e for e in st if o["dom"] is None or e.split(".")[0] == o["dom"])], st
        if k == "peek":
            return snaps[o["i"]], st
        raise ValueError(k)


def category(o, env):
    """the open deviation an operation belongs to (None = inside the fragment): C16-F2, a StateVal value whose
    attributes the rules would keep"""
    k = o["k"]
    py = o.get("parts", [""])[0] in env["globals"] + env["locals"]
    if k == "store" and len(o["parts"]) == 2 and not py and o["arg"] != "none" and o["arg"][0] == "snap":
        return FINDING_SIGS[0]
    if k == "set" and o["arg"] != "none" and o["arg"][0] == "snap" and o["na"] is None:
        return FINDING_SIGS[0]
    return None


def judge(c):
    """all failing steps of a case: [(step index, category, text)]"""
    p = c.payload
    obs = p.get("_obs")
    if not obs:
        return []
    orc = Oracle(p["env"])
    st = {}
    snaps = []
    bad = []
    for i, o in enumerate(p["ops"]):
        got_out, got_store = obs["steps"][i]
        got_out = norm_out(got_out)
        got_st = {e: (v, dict((k, x) for k, x in a)) for e, v, a in got_store}
        try:
            exp_out, exp_st = orc.step(st, o, snaps)
        except IndexError:
            exp_out, exp_st = "unmodelled", st
        exp_out = got_out if exp_out is None else norm_out(json.loads(json.dumps(exp_out)))
        diffs = []
        if exp_out != got_out:
            diffs.append(f"script saw {got_out!r:.120}, the rules give {exp_out!r:.120}")
        if exp_st != got_st:
            ch = sorted(e for e in set(exp_st) | set(got_st) if exp_st.get(e) != got_st.get(e))
            diffs.append("hass.states differs at " + ",".join(ch) + f": {[(e, got_st.get(e)) for e in ch]!r:.160} "
                         f"instead of {[(e, exp_st.get(e)) for e in ch]!r:.160}")
        if diffs:
            cat = category(o, p["env"]) or f"{o['k']}{len(o.get('parts', []))}:{'out' if exp_out != got_out else 'store'}"
            bad.append((i, cat, f"step {i} `{op_src(o) or o['k']}`: " + "; ".join(diffs)))
        if o["k"] in ("load", "get") and isinstance(got_out, list) and got_out[0] == "sv":
            snaps.append(got_out)
        st = got_st            # re-synchronise on what really happened
    # snapshots at the end
    for j, (s0, s1) in enumerate(zip(snaps, [norm_out(x) for x in obs.get("final", [])])):
        if s0 != s1:
            bad.append((len(p["ops"]), "snapshot-changed", f"captured snapshot {j} changed from {s0!r:.100} to {s1!r:.100}"))
    if len(snaps) != len(obs.get("final", [])):
        bad.append((len(p["ops"]), "snapshot-count", "harness captured a different number of snapshots"))
    return bad


def verdict(c):
    if c.payload.get("kind") == "probe":
        bad = judge_probe(c.payload)
        return bad[0][2] if bad else None
    bad = judge(c)
    if not bad:
        if c.spec is not None and " conf=" in c.spec:
            # cross-check of the two renderings of the rules: on a case wholly inside the fragment `Conf` of the Lean
            # spec, the spec column must equal what the implementation did (the oracle found nothing to object to)
            spec, conf = c.spec.rsplit(" conf=", 1)
            if "0" not in conf and c.impl != spec:
                return "oracle and Lean spec disagree on a case inside the fragment (spec column != implementation)"
        return None
    novel = [b for b in bad if b[1] not in FINDING_SIGS]
    pick = (novel or bad)[0]
    c.payload["_cat"] = pick[1]
    return pick[2]


def classify(c, reason):
    if c.payload.get("kind") == "probe":
        bad = judge_probe(c.payload)
        return bad[0][1] if bad else "probe-none"
    bad = judge(c)
    novel = [b for b in bad if b[1] not in FINDING_SIGS]
    if novel or bad:
        return (novel or bad)[0][1]
    return "spec-column"


def replay_cases(obj):
    p = {k: v for k, v in obj["case"].items() if not k.startswith("_")}
    if p.get("kind") == "probe":
        return [Case(p, None, tags=tags_of(p) + ["probe:" + p["probe"]])]
    return [Case(p, case_line(p), tags=tags_of(p))]


def shrink(c, reason):
    """drop operations that are not needed for the first failing step to keep failing the same way"""
    if c.payload.get("kind") == "probe":
        return c
    sig = classify(c, reason)
    p = {k: v for k, v in c.payload.items() if not k.startswith("_")}
    best = c

    def fails(ops):
        q = dict(p, ops=ops)
        if any(o["k"] in ("peek", "getattrsnap") or (isinstance(o.get("arg"), list) and o["arg"][0] == "snap")
               for o in ops) and len(ops) != len(p["ops"]):
            return None   # snapshot indices would shift
        cc = Case(q, case_line(q), tags=tags_of(q))
        try:
            run_impl([cc])
        except Exception:
            return None
        r = verdict(cc)
        return cc if r and classify(cc, r) == sig else None

    ops = list(p["ops"])
    i = 0
    while i < len(ops) and len(ops) > 1:
        trial = ops[:i] + ops[i + 1:]
        cc = fails(trial)
        if cc is not None:
            ops, best = trial, cc
        else:
            i += 1
    if best is not c:
        outs = common.drive([best.line])
        best.model, best.spec = split(outs[0])
    return best


def extra_coverage(cases):
    kinds, excs, setcombo, conf = {}, {}, {}, {"inside": 0, "finding-ops": 0}
    for c in cases:
        for i, o in enumerate(c.payload["ops"]):
            kinds[o["k"]] = kinds.get(o["k"], 0) + 1
            if category(o, c.payload["env"]):
                conf["finding-ops"] += 1
            else:
                conf["inside"] += 1
            if o["k"] == "set":
                a = o["arg"]
                key = f"value={'omitted' if a == 'none' else a[0]},new_attributes={'None' if o['na'] is None else ('{}' if not o['na'] else 'dict')},kwargs={len(o['kw'])}"
                setcombo[key] = setcombo.get(key, 0) + 1
            obs = c.payload.get("_obs")
            if obs:
                out = obs["steps"][i][0]
                if isinstance(out, list) and out[0] == "exc":
                    excs[out[1]] = excs.get(out[1], 0) + 1
    cov = {"op_histogram": kinds, "exception_classes_seen": excs, "state_set_argument_combinations": setcombo,
           "fragment": conf}
    try:
        cov["residue_nested_alias"] = residue_case()
    except Exception as e:  # informative only
        cov["residue_nested_alias"] = f"not run: {type(e).__name__}"
    return cov


def residue_case():
    """named residue: attribute values are shared objects – mutating a nested list in place is visible through a
    snapshot captured earlier (outside the op set of the property; reported, not judged)"""
    from ha_env import run_ha
    src = ("@service\ndef go():\n    state.set('pyscript.r0', 1, lst=[1, 2])\n    s = pyscript.r0\n"
           "    pyscript.r0.lst.append(3)\n    rec('res', s.lst, pyscript.r0.lst)\n")

    async def body(env):
        env.write("r.py", src)
        await env.reload("*")
        await env.call("pyscript", "go", {})
        await env.settle(0)
        r = [x for x in env.records if x[1] == "res"]
        return {"snapshot_lst_after_inplace_append": r[0][2], "state_lst": r[0][3]} if r else "no record"

    return run_ha({}, False, body)
