"""C01 correspondence.

trace stream: straight-line programs over opaque operands `V` (every dunder logs one event, decisions from a tape) are run
by pyscript, by CPython, by the Lean model (`run Current.cfg recorder`) and by the Lean reference (`run Cfg.python
recorder`).  impl == model is the tie, CPython == spec validates the reference, impl == CPython is the property.
value stream (no Lean column): operator x operand-kind tables, subscripts, unpacking, f-strings, comprehensions over
concrete built-in values, pyscript vs CPython on the same source.
"""
import asyncio
import itertools
import re

import common
from common import Case, sx

PROP = "C01"
RULE = ("trace stream: random straight-line programs (1-4 statements, expression depth <= 4) over every expression / "
        "assignment node kind of the model with tracer leaves and random decision tapes, plus one targeted program per "
        "(node kind x effectful operand position); value stream: every binary/unary/compare/in-place operator x ordered "
        "pairs of operand kinds (int, bigint, float, nan/inf, bool, None, str, bytes, list, tuple, dict, set), subscript and "
        "slice kinds, unpacking arities, f-string specs, comprehensions.  Distinct by source text + tape; non-trivial when "
        "the program contains at least one operator/call/display node.")
ASSUMPTIONS = [
    "the host's primitive operations (operators, getattr, iteration, formatting) are shared by pyscript and CPython",
    "opaque operands: comparison dunders return real bools from the tape; __str__ is silent (pyscript's call_func "
    "str()-formats positional arguments for a debug message, unobservable on built-in values)",
    "comprehensions, lambda and BaseException are outside the Lean model (value stream only)",
]
TRUSTED = ["harness/run_C01.py (class V, renderers to Python source and to the driver's S-expressions)",
           "CPython itself as oracle of the reference semantics (spec column == CPython on every trace case)"]

BINOPS = ["+", "-", "*", "/", "%", "**", "<<", ">>", "|", "^", "&", "//"]
BIN_DUNDER = ["add", "sub", "mul", "truediv", "mod", "pow", "lshift", "rshift", "or", "xor", "and", "floordiv"]
CMPOPS = {0: "==", 1: "!=", 2: "<", 3: "<=", 4: ">", 5: ">=", 8: "is", 9: "is not", 10: "in", 11: "not in"}
CMP_DUNDER = {0: "eq", 1: "ne", 2: "lt", 3: "le", 4: "gt", 5: "ge"}
UNOPS = {0: "not ", 1: "~", 2: "-", 3: "+"}
VARS = ["a", "b", "c"]


# ------------------------------------------------------------------ opaque operands (Python side of the recorder)
class TErr(Exception):
    def __init__(self, i):
        super().__init__(i)
        self.i = i


class World:
    def __init__(self, tape):
        self.log = []
        self.tape = list(tape)
        self.salt = len(tape)
        self.next = 0

    def pop(self):
        return self.tape.pop(0) if self.tape else 0

    def fresh(self):
        v = V(self, self.next)
        self.next += 1
        return v


def name_of(x):
    if isinstance(x, V):
        return f"V{object.__getattribute__(x, '_n')}"
    if isinstance(x, bool):
        return "1" if x else "0"
    if x is None:
        return "None"
    if isinstance(x, int):
        return str(x)
    if isinstance(x, str):
        return f"'{x}'"
    if isinstance(x, list):
        return "[" + ",".join(name_of(e) for e in x) + "]"
    if isinstance(x, tuple):
        return "(" + ",".join(name_of(e) for e in x) + ")"
    if isinstance(x, set):
        return "{" + ",".join(sorted(name_of(e) for e in x)) + "}"
    if isinstance(x, dict):
        return "{" + ",".join(name_of(k) + ":" + name_of(v) for k, v in x.items()) + "}"
    if isinstance(x, slice):
        return f"slice({name_of(x.start)},{name_of(x.stop)},{name_of(x.step)})"
    return f"<{type(x).__name__}>"


class V:
    __slots__ = ("_w", "_n")

    def __init__(self, w, n):
        object.__setattr__(self, "_w", w)
        object.__setattr__(self, "_n", n)

    def _ev(self, s):
        object.__getattribute__(self, "_w").log.append(s)

    def _fresh(self, s):
        self._ev(s)
        return object.__getattribute__(self, "_w").fresh()

    def __hash__(self):
        return object.__getattribute__(self, "_n") + 77

    def __bool__(self):
        # truthiness is PURE (as for every built-in value): fixed per run by the salt, no event, no tape
        w = object.__getattribute__(self, "_w")
        return ((1000 + object.__getattribute__(self, "_n")) * 7 + w.salt) % 3 != 0

    def __iter__(self):
        self._ev(f"iter({name_of(self)})")
        w = object.__getattribute__(self, "_w")
        k = w.pop() % 3
        return iter([w.fresh() for _ in range(k)])

    def __contains__(self, item):
        self._ev(f"contains({name_of(self)},{name_of(item)})")
        return object.__getattribute__(self, "_w").pop() % 2 == 1

    def __getitem__(self, i):
        return self._fresh(f"getitem({name_of(self)},{name_of(i)})")

    def __setitem__(self, i, v):
        self._ev(f"setitem({name_of(self)},{name_of(i)},{name_of(v)})")

    def __delitem__(self, i):
        self._ev(f"delitem({name_of(self)},{name_of(i)})")

    def __getattr__(self, n):
        if n.startswith("_"):
            raise AttributeError(n)
        return self._fresh(f"getattr({name_of(self)},{n})")

    def __setattr__(self, n, v):
        self._ev(f"setattr({name_of(self)},{n},{name_of(v)})")

    def __call__(self, *args, **kw):
        return self._fresh(f"call({name_of(self)};" + ",".join(name_of(a) for a in args) + ";" +
                           ",".join(f"{k}={name_of(v)}" for k, v in kw.items()) + ")")

    def __format__(self, spec):
        self._ev(f"format({name_of(self)},'{spec}')")
        return f"<f:{name_of(self)}:{spec}>"

    def __repr__(self):
        # silent: pyscript's call_func str()-formats its positional arguments for a debug message (no effect on
        # built-in values); an f-string `!r` conversion is still observable through the missing __format__ event
        return f"<c114:{name_of(self)}>"

    def __str__(self):
        return f"<s:{name_of(self)}>"

    def __invert__(self):
        return self._fresh(f"un1({name_of(self)})")

    def __neg__(self):
        return self._fresh(f"un2({name_of(self)})")

    def __pos__(self):
        return self._fresh(f"un3({name_of(self)})")


def _mk_bin(i, d):
    def f(self, o):
        if not isinstance(o, V):
            return NotImplemented
        return self._fresh(f"bin{i}({name_of(self)},{name_of(o)})")

    def g(self, o):
        if not isinstance(o, V):
            return NotImplemented
        return self._fresh(f"iop{i}({name_of(self)},{name_of(o)})")
    setattr(V, f"__{d}__", f)
    setattr(V, f"__i{d}__", g)


for _i, _d in enumerate(BIN_DUNDER):
    _mk_bin(_i, _d)


def _mk_cmp(i, d):
    def f(self, o):
        if not isinstance(o, V):
            return NotImplemented
        self._ev(f"cmp{i}({name_of(self)},{name_of(o)})")
        return object.__getattribute__(self, "_w").pop() % 2 == 1
    setattr(V, f"__{d}__", f)


for _i, _d in CMP_DUNDER.items():
    _mk_cmp(_i, _d)


def make_globals(tape):
    w = World(tape)

    def T(i):
        w.log.append(f"T({i})")
        if w.pop() == 7:
            raise TErr(i)
        return w.fresh()

    def Tv(i, v):
        """a tracer that hands its second argument on (value stream): logs, may raise by tape like T"""
        w.log.append(f"T({i})")
        if w.pop() == 7:
            raise TErr(i)
        return v
    return w, {"T": T, "Tv": Tv}


# ------------------------------------------------------------------ program generator (trace stream)
class G:
    """expressions as (python_source, sexp, feature-set)"""

    def __init__(self, rng):
        self.rng = rng
        self.t = itertools.count(1)
        self.feats = set()
        self.scope = []          # comprehension loop variables readable at this point (hold opaque operands)

    def leaf(self):
        i = next(self.t)
        return f"T({i})", ["T", i]

    def sink(self, d):
        """operand of a position that accepts any value (call argument, display element, dict key/value, index)"""
        r = self.rng.random()
        if r < 0.1:
            k = self.rng.randrange(0, 9)
            return str(k), ["c", k]
        if r < 0.3 and d > 0:
            return self.anyexpr(d)
        return self.vexpr(d)

    def vexpr(self, d):
        """an expression whose value is an opaque operand V at run time"""
        rng = self.rng
        r = rng.random()
        if d <= 0 or r < 0.3:
            if self.scope and rng.random() < 0.45:
                x = rng.choice(self.scope)
                return x, ["n", x]
            if r < 0.12:
                x = rng.choice(VARS)
                return x, ["n", x]
            return self.leaf()
        kind = rng.choice(["bin", "bin", "un", "if", "sub", "slice", "attr", "call", "call", "named"])
        self.feats.add(kind)
        if kind == "bin":
            op = rng.randrange(len(BINOPS))
            l, r2 = self.vexpr(d - 1), self.vexpr(d - 1)
            return f"({l[0]} {BINOPS[op]} {r2[0]})", ["bin", op, l[1], r2[1]]
        if kind == "un":
            op = rng.choice([1, 2, 3])
            if op == 3:
                self.feats.add("uadd")
            e = self.vexpr(d - 1)
            return f"({UNOPS[op]}{e[0]})", ["un", op, e[1]]
        if kind == "if":
            c, t, e = self.anyexpr(d - 1), self.vexpr(d - 1), self.vexpr(d - 1)
            return f"({t[0]} if {c[0]} else {e[0]})", ["if", c[1], t[1], e[1]]
        if kind == "sub":
            v, i = self.vexpr(d - 1), self.sink(d - 1)
            return f"{v[0]}[{i[0]}]", ["sub", v[1], i[1]]
        if kind == "slice":
            v = self.vexpr(d - 1)
            parts = [self.sink(d - 2) if rng.random() < 0.6 else None for _ in range(3)]
            src = ":".join(p[0] if p else "" for p in parts)
            return f"{v[0]}[{src}]", ["sub", v[1], ["slice"] + [p[1] if p else "-" for p in parts]]
        if kind == "attr":
            v = self.vexpr(d - 1)
            a = rng.choice(["m", "n2", "val"])
            return f"{v[0]}.{a}", ["attr", v[1], a]
        if kind == "call":
            f = self.vexpr(d - 1)
            args, kws = [], []
            for _ in range(rng.randrange(0, 3)):
                if rng.random() < 0.2:
                    # starred call arguments are list displays: WHEN CPython iterates a lone `*iterable` relative to
                    # the keyword values is an implementation detail (unobservable on built-in containers)
                    es = [self.sink(d - 1) for _ in range(rng.randrange(0, 3))]
                    args.append(("*[" + ", ".join(e[0] for e in es) + "]", ["s", ["seq", 0] + [["p", e[1]] for e in es]]))
                else:
                    e = self.sink(d - 1)
                    args.append((e[0], ["p", e[1]]))
            names = rng.sample([1, 2, 3], rng.randrange(0, 3))
            for j in names:
                e = self.sink(d - 1)
                kws.append((f"k{j}={e[0]}", ["k", f"k{j}", e[1]]))
            if rng.random() < 0.15:
                j = rng.choice([1, 9])
                e = self.sink(d - 1)
                # the `**` unpacking may stand before, between or after the explicit keywords
                kws.insert(rng.randrange(0, len(kws) + 1),
                           (f"**{{'k{j}': {e[0]}}}", ["ss", ["dict", ["kv", ["fstr", ["lit", 900 + j]], e[1]]]]))
                self.feats.add("kw-splat")
                if j in names:
                    self.feats.add("dup-keyword")
            if any(a[1][0] != "p" or a[1][1][0] != "c" for a in args) and any(
                    k[1][0] == "ss" or k[1][2][0] != "c" for k in kws):
                self.feats.add("call-effectful-args-and-kws")
            src = ", ".join([a[0] for a in args] + [k[0] for k in kws])
            return f"{f[0]}({src})", ["call", f[1], [a[1] for a in args], [k[1] for k in kws]]
        if kind == "named":
            x = rng.choice(VARS)
            e = self.vexpr(d - 1)
            return f"({x} := {e[0]})", ["named", x, e[1]]
        raise ValueError(kind)

    def anyexpr(self, d):
        """an expression of any type (bool from comparisons / not, containers, strings, or an opaque operand)"""
        rng = self.rng
        if d <= 0:
            return self.vexpr(0)
        kind = rng.choice(["v", "v", "bool", "cmp", "cmp", "cmp", "seq", "dict", "fstr", "not"])
        if kind == "v":
            return self.vexpr(d)
        self.feats.add(kind)
        if kind == "not":
            e = self.anyexpr(d - 1)
            return f"(not {e[0]})", ["un", 0, e[1]]
        if kind == "bool":
            isand = rng.random() < 0.5
            es = [self.anyexpr(d - 1) for _ in range(rng.randrange(2, 4))]
            w = " and " if isand else " or "
            return "(" + w.join(e[0] for e in es) + ")", ["and" if isand else "or"] + [e[1] for e in es]
        if kind == "cmp":
            n = rng.choice([1, 1, 2, 3])
            l = self.vexpr(d - 1)
            arms = []
            for j in range(n):
                op = rng.choice([0, 1, 2, 3, 4, 5, 8, 9, 10, 11])
                if j < n - 1 and rng.random() < 0.7:
                    x = rng.choice(VARS)
                    e = (x, ["n", x])
                else:
                    e = self.vexpr(d - 1)
                    if j < n - 1 and e[1][0] != "n":
                        self.feats.add("chain-effectful-middle")
                arms.append((op, e))
            src = l[0] + "".join(f" {CMPOPS[op]} {e[0]}" for op, e in arms)
            return f"({src})", ["cmp", l[1]] + [[op, e[1]] for op, e in arms]
        if kind == "seq":
            k = rng.choice([0, 1, 2])
            es = []
            for _ in range(rng.randrange(1, 4)):
                if rng.random() < 0.2:
                    e = self.vexpr(d - 1)
                    es.append(("*" + e[0], ["s", e[1]]))
                elif k == 2:
                    e = self.vexpr(d - 1)         # set elements must be hashable: opaque operands only
                    es.append((e[0], ["p", e[1]]))
                else:
                    e = self.sink(d - 1)
                    es.append((e[0], ["p", e[1]]))
            inner = ", ".join(e[0] for e in es)
            src = f"[{inner}]" if k == 0 else (f"({inner},)" if k == 1 else "{" + inner + "}")
            return src, ["seq", k] + [e[1] for e in es]
        if kind == "dict":
            arms = []
            for _ in range(rng.randrange(1, 4)):
                if rng.random() < 0.15:
                    e = self.sink(d - 1)
                    arms.append((f"**{{5: {e[0]}}}", ["ss", ["dict", ["kv", ["c", 5], e[1]]]]))
                else:
                    k = self.vexpr(d - 1) if rng.random() < 0.6 else (str(rng.randrange(9)),)
                    if len(k) == 1:
                        k = (k[0], ["c", int(k[0])])
                    v = self.sink(d - 1)
                    if k[1][0] != "c" and v[1][0] != "c":
                        self.feats.add("dict-effectful-key-and-value")
                    arms.append((f"{k[0]}: {v[0]}", ["kv", k[1], v[1]]))
            return "{" + ", ".join(a[0] for a in arms) + "}", ["dict"] + [a[1] for a in arms]
        if kind == "fstr":
            parts = []
            for _ in range(rng.randrange(1, 4)):
                r = rng.random()
                if r < 0.3:
                    k = rng.randrange(10, 99)
                    parts.append((str(k), ["lit", k]))
                else:
                    e = self.vexpr(d - 1)
                    if r < 0.5:
                        self.feats.add("fstr-conversion")
                        parts.append(("{" + e[0] + "!r}", ["fmt", e[1], 114, "-"]))
                    elif r < 0.7:
                        k = rng.randrange(10, 99)
                        parts.append(("{" + e[0] + ":" + str(k) + "}", ["fmt", e[1], "-", ["fstr", ["lit", k]]]))
                    else:
                        parts.append(("{" + e[0] + "}", ["fmt", e[1], "-", "-"]))
            return 'f"' + "".join(p[0] for p in parts) + '"', ["fstr"] + [p[1] for p in parts]
        raise ValueError(kind)

    def comp(self, d):
        """a list / set / dict comprehension over opaque operands: 1-3 generators, name / tuple / subscript targets,
        0-2 conditions each, inner iterables and conditions that read the outer loop variables, nested comprehensions"""
        rng = self.rng
        self.feats.add("comp")
        pool = ["x", "y", "z", "a"]
        ngen = rng.choice([1, 1, 2, 2, 3])
        targets = []
        for _ in range(ngen):
            r = rng.random()
            if r < 0.18:
                targets.append(tuple(rng.sample(pool, 2)))
            else:
                targets.append((rng.choice(pool),))
        outer_scope = self.scope
        bound = list(outer_scope)
        gsrc, gsx = [], []
        for gi, tg in enumerate(targets):
            later = [n for t2 in targets[gi:] for n in t2 if n not in bound]
            early = gi > 0 and later and rng.random() < 0.07
            self.scope = bound + ([rng.choice(later)] if early else [])
            if early:
                self.feats.add("comp-read-before-bound")
            r = rng.random()
            if r < 0.45:
                it = self.vexpr(min(d - 1, 1))                      # an opaque operand: iter() event, 0-2 fresh items from the tape
            else:
                es = [self.vexpr(min(d - 1, 1)) for _ in range(rng.randrange(0, 4))]
                if r < 0.8:
                    it = ("[" + ", ".join(e[0] for e in es) + "]", ["seq", 0] + [["p", e[1]] for e in es])
                else:
                    it = ("(" + "".join(e[0] + ", " for e in es) + ")", ["seq", 1] + [["p", e[1]] for e in es])
            if len(tg) == 2:
                tsrc, tsx = f"({tg[0]}, {tg[1]})", ["tup", False, [["n", tg[0]], ["n", tg[1]]], "-", []]
                self.feats.add("comp-tuple-target")
            elif rng.random() < 0.06:
                self.scope = bound
                v, i = self.vexpr(0), self.sink(0)
                tsrc, tsx = f"{v[0]}[{i[0]}]", ["sub", v[1], i[1]]
                tg = ()
                self.feats.add("comp-subscript-target")
            else:
                tsrc, tsx = tg[0], ["n", tg[0]]
            bound = bound + [n for n in tg if n not in bound]
            later2 = [n for t2 in targets[gi + 1:] for n in t2 if n not in bound]
            early2 = later2 and rng.random() < 0.04
            self.scope = bound + ([rng.choice(later2)] if early2 else [])
            if early2:
                self.feats.add("comp-read-before-bound")
            ifs = [self.anyexpr(min(d - 1, 2)) for _ in range(rng.choice([0, 0, 1, 1, 2]))]
            if len(ifs) >= 2:
                self.feats.add("comp-two-conditions")
            gsrc.append(f"for {tsrc} in {it[0]}" + "".join(f" if {c[0]}" for c in ifs))
            gsx.append(["gen", tsx, it[1], [c[1] for c in ifs]])
        self.scope = bound
        kind = rng.choice(["list", "list", "set", "dict"])
        if ngen >= 2:
            self.feats.add("comp-nested-generators")
        try:
            if kind == "dict":
                k = self.vexpr(min(d - 1, 1))
                v = self.comp(d - 2) if d >= 3 and rng.random() < 0.2 else self.sink(min(d - 1, 2))
                return "{" + f"{k[0]}: {v[0]} " + " ".join(gsrc) + "}", ["dcomp", k[1], v[1], gsx]
            if kind == "set":
                e = self.vexpr(min(d - 1, 2))
                return "{" + f"{e[0]} " + " ".join(gsrc) + "}", ["comp", 2, e[1], gsx]
            if d >= 3 and rng.random() < 0.25:
                self.feats.add("comp-in-comp")
                e = self.comp(d - 2)
            else:
                e = self.sink(min(d - 1, 2))
            return f"[{e[0]} " + " ".join(gsrc) + "]", ["comp", 0, e[1], gsx]
        finally:
            self.scope = outer_scope

    def target(self, d, allow_tuple=True, vtyped=True):
        """vtyped: the assigned value is an opaque operand (so operand variables may be bound)"""
        rng = self.rng
        r = rng.random()
        if r < 0.4 or d <= 0:
            x = rng.choice(VARS if vtyped else ["p", "q"])
            return x, ["n", x]
        if r < 0.6:
            v, i = self.vexpr(d - 1), self.sink(d - 1)
            return f"{v[0]}[{i[0]}]", ["sub", v[1], i[1]]
        if r < 0.72:
            v = self.vexpr(d - 1)
            return f"{v[0]}.at", ["attr", v[1], "at"]
        if not allow_tuple:
            x = rng.choice(VARS if vtyped else ["p", "q"])
            return x, ["n", x]
        is_list = rng.random() < 0.25
        if is_list:
            self.feats.add("list-target")
        before = [self.target(d - 1) for _ in range(rng.randrange(0, 3))]
        star = rng.choice([None, None, "s1"])
        after = [self.target(d - 1) for _ in range(rng.randrange(0, 2))] if star else []
        if not before and not after and not star:
            before = [self.target(0)]
        items = [b[0] for b in before] + (["*" + star] if star else []) + [a[0] for a in after]
        inner = ", ".join(items)
        src = f"[{inner}]" if is_list else (f"({inner},)" if len(items) == 1 else f"({inner})")
        return src, ["tup", is_list, [b[1] for b in before], star if star else "-", [a[1] for a in after]]

    def stmt(self, d):
        rng = self.rng
        r = rng.random()
        if r < 0.3:
            e = self.anyexpr(d)
            return e[0], ["expr", e[1]]
        if r < 0.55:
            ts = [self.target(2) for _ in range(rng.choice([1, 1, 2]))]
            e = self.vexpr(d)
            return " = ".join(t[0] for t in ts) + " = " + e[0], ["assign", [t[1] for t in ts], e[1]]
        if r < 0.65:
            t = self.target(1, allow_tuple=False, vtyped=False)
            e = self.anyexpr(d)
            return f"{t[0]} = {e[0]}", ["assign", [t[1]], e[1]]
        if r < 0.85:
            t = self.target(2, allow_tuple=False)
            op = rng.randrange(len(BINOPS))
            e = self.vexpr(d - 1)
            self.feats.add("aug")
            if t[1][0] != "n":
                self.feats.add("aug-complex-target")
            return f"{t[0]} {BINOPS[op]}= {e[0]}", ["aug", t[1], op, e[1]]
        ts = []
        for _ in range(rng.choice([1, 2])):
            if rng.random() < 0.5:
                # only non-operand names are deleted: `x.attr = v` with x unbound is a state-variable write in
                # pyscript (C16), not Python's NameError
                x = rng.choice(["p", "q"])
                ts.append((x, ["n", x]))
            else:
                v, i = self.vexpr(1), self.sink(1)
                ts.append((f"{v[0]}[{i[0]}]", ["sub", v[1], i[1]]))
        return "del " + ", ".join(t[0] for t in ts), ["del"] + [t[1] for t in ts]


PRELUDE_SRC = "a = T(90)\nb = T(91)\nc = T(92)\n"
PRELUDE_SX = [["assign", [["n", "a"]], ["T", 90]], ["assign", [["n", "b"]], ["T", 91]], ["assign", [["n", "c"]], ["T", 92]]]


def gen_cases(rng, tier, search):
    n = 2100 if tier == "quick" else 40000
    if search:
        n *= 3
    cases, seen = [], set()
    for _ in range(n):
        g = G(rng)
        stmts = [g.stmt(rng.choice([1, 2, 2, 3, 4])) for _ in range(rng.choice([1, 1, 2, 3]))]
        src = PRELUDE_SRC + "\n".join(s[0] for s in stmts) + "\n"
        try:
            compile(src, "t", "exec")
        except SyntaxError:
            continue
        tape = [0, 0, 0] + [rng.choice([0, 0, 0, 1, 1, 2, 7]) for _ in range(rng.randrange(0, 14))]
        key = (src, tuple(tape))
        if key in seen:
            continue
        seen.add(key)
        line = "C01 " + sx(["run", ["tape"] + tape, PRELUDE_SX + [s[1] for s in stmts]])
        cases.append(Case({"stream": "trace", "src": src, "tape": tape, "features": sorted(g.feats)}, line,
                          tags=["trace"] + sorted(g.feats)))
    # comprehensions over opaque operands (model column: the comprehension evaluator of Model/C01.lean)
    m = 480 if tier == "quick" else 12000
    if search:
        m *= 3
    for _ in range(m):
        g = G(rng)
        c = g.comp(rng.choice([2, 3, 3, 4]))
        form = rng.random()
        if form < 0.55:
            x = rng.choice(["r", "p", "q"])      # never an operand variable: the result is a container
            stmts = [(f"{x} = {c[0]}", ["assign", [["n", x]], c[1]])]
        elif form < 0.75:
            f = g.vexpr(1)
            stmts = [(f"r = {f[0]}({c[0]})", ["assign", [["n", "r"]], ["call", f[1], [["p", c[1]]], []]])]
        else:
            stmts = [(c[0], ["expr", c[1]])]
        if rng.random() < 0.3:
            stmts.append(g.stmt(2))
        if rng.random() < 0.2:
            stmts.insert(0, g.stmt(1))
        src = PRELUDE_SRC + "\n".join(s[0] for s in stmts) + "\n"
        try:
            compile(src, "t", "exec")
        except SyntaxError:
            continue
        tape = [0, 0, 0] + [rng.choice([0, 1, 1, 2, 2, 2, 2, 7]) for _ in range(rng.randrange(0, 26))]
        key = (src, tuple(tape))
        if key in seen:
            continue
        seen.add(key)
        line = "C01 " + sx(["run", ["tape"] + tape, PRELUDE_SX + [s[1] for s in stmts]])
        cases.append(Case({"stream": "trace", "src": src, "tape": tape, "features": sorted(g.feats)}, line,
                          tags=["trace", "comp-trace"] + sorted(g.feats)))
    cases += value_cases(rng, tier)
    cases += compscope_cases(rng, tier)
    return cases


# ------------------------------------------------------------------ comprehension scope stream (Lean column: C01Comp.comp)
def compscope_cases(rng, tier):
    """loopvar_scope_save / recurse_assign of the loop variables / loopvar_scope_restore on a crafted symbol table holding
    plain values, cells shared with closures and unbound cells"""
    import json
    out, seen = [], set()
    for _ in range(150 if tier == "quick" else 2500):
        names = rng.sample(["x", "y", "z", "w", "v"], rng.randrange(0, 5))
        tbl, cells = [], []
        for n in names:
            k = rng.random()
            if k < 0.4:
                tbl.append([n, "plain", rng.randrange(50)])
            else:
                cells.append(None if k > 0.85 else rng.randrange(50, 99))
                tbl.append([n, "cell", len(cells) - 1])
        lv = rng.sample(["x", "y", "z", "w", "v"], rng.randrange(1, 4))
        iters = [[rng.randrange(100, 200) for _ in lv] for _ in range(rng.randrange(0, 4))]
        shape = rng.choice(["tuple", "separate"]) if len(lv) > 1 else "separate"
        p = {"tbl": tbl, "cells": cells, "lv": lv, "iters": iters, "shape": shape}
        key = json.dumps(p, sort_keys=True)
        if key in seen:
            continue
        seen.add(key)
        line = "C01 " + sx(["compscope", tbl, ["none" if c is None else c for c in cells], lv, iters])
        out.append(Case({"stream": "compscope", "src": key, "tape": [], "features": ["comp-scope"]}, line,
                        tags=["compscope"] + (["shared-cell"] if cells else [])))
    return out


def show_frame(tbl, cells):
    ents = sorted(f"{n}={'p' if k == 'plain' else 'c'}{v}" for n, k, v in tbl)
    return ",".join(ents) + ";" + ",".join("none" if c is None else str(c) for c in cells)


async def run_compscope(key):
    import ast
    import json
    import interp_env
    from custom_components.pyscript.eval import EvalLocalVar
    p = json.loads(key)
    g, a = interp_env.new_ctx("c01c", {"__name__": "c01c"})
    cell_objs = [EvalLocalVar(f"c{i}") if v is None else EvalLocalVar(f"c{i}", value=v) for i, v in enumerate(p["cells"])]
    a.sym_table = {n: (v if k == "plain" else cell_objs[v]) for n, k, v in p["tbl"]}
    name = lambda x: ast.Name(id=x, ctx=ast.Store())  # noqa: E731
    if p["shape"] == "tuple":
        gens = [ast.comprehension(target=ast.Tuple(elts=[name(x) for x in p["lv"]], ctx=ast.Store()), iter=None, ifs=[], is_async=0)]
    else:
        gens = [ast.comprehension(target=name(x), iter=None, ifs=[], is_async=0) for x in p["lv"]]
    try:
        lvars, saved = await a.loopvar_scope_save(gens)
        try:
            for vals in p["iters"]:
                for x, v in zip(p["lv"], vals):
                    await a.recurse_assign(name(x), v)
        finally:
            await a.loopvar_scope_restore(lvars, saved)
    except Exception as e:  # pylint: disable=broad-except
        return f"raise:{type(e).__name__}"
    tbl = []
    for n, v in a.sym_table.items():
        if isinstance(v, EvalLocalVar):
            idx = next((i for i, c in enumerate(cell_objs) if c is v), None)
            tbl.append([n, "cell", idx if idx is not None else "?"])
        else:
            tbl.append([n, "plain", v])
    cells = [c.get() if c.is_defined() else None for c in cell_objs]
    return show_frame(tbl, cells)


# ------------------------------------------------------------------ value stream
VALUES = ["3", "-7", "0", "10**30", "2.5", "float('nan')", "float('inf')", "True", "None", "'ab'", "''", "b'xy'",
          "[1, 2]", "[]", "(1, 2)", "{'k': 1}", "{1, 2}"]


def value_cases(rng, tier):
    out = []

    def add(src, *feats):
        out.append(Case({"stream": "value", "src": src, "tape": [], "features": list(feats)}, None,
                        tags=["value"] + list(feats)))
    pairs = list(itertools.product(VALUES, VALUES))
    if tier == "quick":
        pairs = rng.sample(pairs, 90)
    for x, y in pairs:
        for op in BINOPS:
            if op in ("**", "<<") and y == "10**30":
                continue      # astronomically large results: the host itself does not terminate
            add(f"x = {x}\ny = {y}\nr = x {op} y\n", "binop")
        for op in ["==", "!=", "<", "<=", ">", ">=", "in", "not in"]:
            add(f"x = {x}\ny = {y}\nr = x {op} y\n", "compare")
        for op in rng.sample(BINOPS, 4):
            if op in ("**", "<<") and y == "10**30":
                continue
            add(f"x = {x}\nal = x\ny = {y}\nx {op}= y\n", "augassign", "aug-alias")
        add(f"x = {x}\ny = {y}\nr = x and y\ns = x or y\nt = y if x else x\n", "boolop")
    for x in VALUES:
        add(f"x = {x}\nr = x is None\ns = x is not None\nt = x is x\n", "compare")   # identity: singletons / same object only
        for op in ["not ", "~", "-", "+"]:
            add(f"x = {x}\nr = {op}x\n", "unary", *(["uadd"] if op == "+" else []))
        for idx in ["0", "-1", "5", "1:", ":1", "::2", "::-1", "1:5:2", "'k'", "None", ":", "0:0"]:
            add(f"x = {x}\nr = x[{idx}]\n", "subscript")
        for spec in ["", "!r", "!s", "!a", ":>6", ":.2f", ":d", ":x", "!r:>8"]:
            add(f"x = {x}\nr = f'<{{x{spec}}}>'\n", "fstring", *(["fstr-conversion"] if "!" in spec else []))
        for pat in ["p, q = x", "p, = x", "p, *q = x", "*p, q = x", "p, q, r2 = x", "[p, q] = x", "(p, (q, r2)) = x, x"]:
            add(f"x = {x}\n{pat}\n", "unpack", *(["list-target"] if pat.startswith("[") else []))
        add(f"x = {x}\nr = [e for e in x]\n", "comprehension")
        add(f"x = {x}\nr = {{e: 1 for e in x}}\ns = {{e for e in x}}\n", "comprehension")
    extra = [
        ("r = [i * j for i in range(3) for j in range(i) if j % 2 == 0]\n", ["comprehension"]),
        ("i = 7\nr = [i for i in range(3)]\n", ["comprehension"]),
        ("r = {k: v for k, v in [(1, 2), (3, 4)] if k > 1}\n", ["comprehension"]),
        ("r = [y := 5, y ** 2]\n", ["namedexpr"]),
        ("d = {}\nd['a'] = d2 = [1]\nd2 += [2]\n", ["augassign", "aug-alias"]),
        ("a1 = b1 = [1]\na1 += [2]\n", ["augassign", "aug-alias"]),
        ("L = [[0]]\nL[0][0] += 1\n", ["augassign"]),
        ("def f(**kw):\n    return kw\nr = f(x=1, **{'x': 2})\n", ["dup-keyword"]),
        ("def f(**kw):\n    return kw\nr = f(**{'x': 2}, x=1)\n", ["dup-keyword"]),
        ("def f(a, **kw):\n    return (a, kw)\nr = f(1, **{'c': 1}, c=2)\n", ["dup-keyword"]),
        ("def f(**kw):\n    return kw\nr = f(**{'x': 2}, **{'x': 3})\n", ["dup-keyword"]),
        ("r = dict(**{'x': 2}, x=1)\n", ["dup-keyword"]),
        ("def f(*a, **kw):\n    return (a, kw)\nr = f(1, *[2, 3], k=4, **{'m': 5})\n", ["call"]),
        ("x = 5\ntry:\n    [1 / 0 for x in [1]]\nexcept ZeroDivisionError:\n    pass\n", ["comprehension", "comp-leak-on-exception"]),
        ("x = [3, 1, 2]\ndel x[0]\ny = 4\ndel y\n", ["delete"]),
        ("x = [3, 1, 2]\ny = 1\ndel (x[0], y)\n", ["delete", "del-tuple-target"]),
        ("r = 1 < 2 < 3\ns = 1 < 2 > 3\nt = 3 > 2 == 2.0 != 1\n", ["compare"]),
        ("r = {1: 2, **{3: 4}, 1: 5}\n", ["dict"]),
        ("r = {[]: 1}\n", ["dict"]),
        ("r = [*range(3), *'ab']\ns = (*[1], 2)\nt = {*[1, 1]}\n", ["seq"]),
        ("r = f'{3:{4}}|{2.5:.{1}f}'\n", ["fstring"]),
        ("r = -(-3) ** 2\ns = not 0\nt = ~True\n", ["unary"]),
        ("x = 'a'\nr = x * 3 + 'b'\ns = x % ()\n", ["binop"]),
        ("x: int = 3\ny: str\n", ["annassign"]),
        ("x = 1\nx += 1.5\nx **= 2\nx //= 2\n", ["augassign"]),
        ("r = (lambda q: q + 1)(2)\n", ["lambda"]),
    ]
    for src, feats in extra:
        add(src, *feats)
    # comprehensions: every clause carries a tracer, so the order of evaluation, the short-circuit between `if` clauses,
    # lazily re-evaluated inner iterables, the isolation of the loop variables and what happens when a clause raises are
    # all visible in the trail
    seen = set()
    for _ in range(260 if tier == "quick" else 4000):
        src, tape = CompGen(rng).program()
        if (src, tuple(tape)) in seen:
            continue
        seen.add((src, tuple(tape)))
        try:
            compile(src, "t", "exec")
        except SyntaxError:
            continue
        out.append(Case({"stream": "value", "src": src, "tape": tape, "features": ["comprehension", "comp-traced"]}, None,
                        tags=["value", "comprehension", "comp-traced"]))
    # unpacking a list OBJECT into targets that store into that same object (directly, through an alias, into a nested
    # list that a nested target unpacks, as the `for` target of a comprehension): CPython takes all items BEFORE the first
    # store (UNPACK_SEQUENCE / UNPACK_EX), so an earlier store must not change what a later target receives
    seen = set()
    for src, feats in UNPACK_FIXED:
        add(src, "unpack", "unpack-self-store", *feats)
    for _ in range(110 if tier == "quick" else 3000):
        src = UnpackGen(rng).program()
        if src in seen:
            continue
        seen.add(src)
        try:
            compile(src, "t", "exec")
        except SyntaxError:
            continue
        # `*a[1:]` / `*o.attr` as starred target: recurse_assign reads `.id` of the starred node (known finding C01-F15)
        add(src, "unpack", "unpack-self-store", *(["star-nonname-target"] if re.search(r"\*[a-z]\w*[\[.]", src) else []))
    return out


UNPACK_FIXED = [
    ("a = [1, 2]\na[1], a[0] = a\n", []),
    ("a = [1, 2, 3]\na[2], a[0], a[1] = a\n", []),
    ("a = [Tv(1, 10), Tv(2, 20)]\nb = a\nb[Tv(3, 1)], b[Tv(4, 0)] = a\n", ["alias"]),
    ("m = [[1, 2], 0]\n(m[0][1], m[0][0]), m[1] = m\n", ["nested"]),
    ("a = [1, 2]\nr = [0 for a[1], a[0] in [a]]\n", ["comp-target"]),
    ("a = [[7], 8, 9]\na[1:], x, y = a\n", ["slice-store"]),
    ("a = [1, 2, 3]\na[0], *a[1:] = a\n", ["slice-store", "star-nonname-target"]),
    ("a = [1, 2, 3, 4]\na[3], *r, a[0] = a\n", ["star"]),
    ("a = [1, 2]\n[a[1], a[0]] = a\n", ["list-target"]),
    ("a = [1, 2]\nx = y = 0\na[1], x, = a\n", []),
    ("a = [5, 6]\nfor a[1], a[0] in [a, a]:\n    pass\n", ["for-target"]),
    ("a = [1, 2, 3]\nx, *y = a\nz = y is a\nw = y == a\n", ["control"]),
]


class UnpackGen:
    """`<targets> = L` where L is a list object and some targets are subscript / slice stores into L itself"""

    def __init__(self, rng):
        self.rng = rng

    def program(self):
        rng = self.rng
        n = rng.choice([2, 2, 3, 3, 4])
        nested = rng.random() < 0.3
        vals = rng.sample(range(1, 30), n)
        items = [str(v) for v in vals]
        lines = []
        if nested:
            # element 0 is itself a list that a nested target unpacks while storing into it
            m = rng.choice([2, 3])
            inner = rng.sample(range(40, 70), m)
            items[0] = "[" + ", ".join(str(v) for v in inner) + "]"
        lines.append("a = [" + ", ".join(items) + "]")
        alias = rng.random() < 0.35
        if alias:
            lines.append("b = a")
        nm = (lambda: rng.choice(["a", "b"])) if alias else (lambda: "a")

        def store(base, length):
            r = rng.random()
            if r < 0.62:
                i = rng.randrange(-length, length + (1 if rng.random() < 0.1 else 0))
                return f"{base}[{i}]"
            if r < 0.72:
                return f"{base}[{rng.randrange(0, length)}:{rng.choice(['', str(rng.randrange(0, length + 1))])}]"
            return rng.choice(["x", "y", "z"])

        tgts = []
        star_at = rng.randrange(0, n) if rng.random() < 0.2 else None
        k = n if star_at is None else rng.randrange(1, n + 1)
        for j in range(k):
            if j == star_at:
                tgts.append("*" + (rng.choice(["s", "s", f"{nm()}[{rng.randrange(0, n)}:]"])))
            elif nested and j == 0 and rng.random() < 0.8:
                m = items[0].count(",") + 1
                sub = [store(f"{nm()}[0]", m) for _ in range(m)]
                tgts.append("(" + ", ".join(sub) + ")")
            else:
                tgts.append(store(nm(), n))
        if rng.random() < 0.08:
            tgts = tgts[:-1] if len(tgts) > 1 else tgts + ["x"]            # arity mismatch: ValueError before any store
        tl = ", ".join(tgts) + ("," if len(tgts) == 1 else "")
        rhs = nm()
        form = rng.random()
        if form < 0.7:
            if rng.random() < 0.2:
                tl = "[" + ", ".join(tgts) + "]"
            lines.append(f"{tl} = {rhs}")
        elif form < 0.85:
            lines.append(f"r = [0 for {tl} in [{rhs}]]")
        else:
            lines.append(f"for {tl} in [{rhs}]:\n    pass")
        return "\n".join(lines) + "\n"


class CompGen:
    def __init__(self, rng):
        self.rng = rng
        self.k = itertools.count(1)

    def tv(self, e):
        return f"Tv({next(self.k)}, {e})"

    def cond(self, vars_):
        rng = self.rng
        v = rng.choice(vars_)
        w = rng.choice(vars_)
        return rng.choice([f"{v} % 2 == 0", f"{v} != 0", f"8 // {v} > 1", f"{v} < {w} + 1", "True", f"({v}w := {v}) > 0",
                           f"{v} not in (1,)", f"{v}"])

    def iterable(self, outer):
        rng = self.rng
        c = rng.random()
        if outer and c < 0.35:
            return f"range({rng.choice(outer)})"
        if c < 0.6:
            return "[" + ", ".join(str(rng.choice([0, 1, 2, 3, 4])) for _ in range(rng.randrange(0, 4))) + "]"
        if c < 0.8:
            return f"range({rng.randrange(0, 4)})"
        return rng.choice(["(3, 0, 2)", "{1: 2, 0: 1}", "'ab'", "[2, 2]"]) if c < 0.95 else "5"   # 5: not iterable

    def comp(self, depth=1):
        rng = self.rng
        names = ["x", "y"] if rng.random() < 0.8 else ["y", "x"]
        ngen = rng.choice([1, 1, 2])
        gens, bound = [], []
        for gi in range(ngen):
            it = self.iterable(bound if all(b in ("x", "y") for b in bound) else [])
            if "'ab'" in it or "5" == it:
                pass
            v = names[gi]
            clause = f"for {v} in {self.tv(it)}"
            bound.append(v)
            numeric = "'ab'" not in it
            for _ in range(rng.choice([0, 1, 1, 2, 3])):
                clause += f" if {self.tv(self.cond(bound) if numeric else 'True')}"
            gens.append(clause)
        e = rng.choice(bound)
        elt_pool = [e, f"({', '.join(bound)})", f"{e} * 2" if True else e]
        if depth > 0 and rng.random() < 0.25:
            elt_pool.append(self.comp(depth - 1))
        elt = self.tv(rng.choice(elt_pool))
        kind = rng.choice(["list", "list", "set", "dict"])
        body = " ".join(gens)
        if kind == "list":
            return f"[{elt} {body}]"
        if kind == "set":
            return "{" + f"{self.tv(e)} {body}" + "}"
        return "{" + f"{self.tv(e)}: {elt} {body}" + "}"

    def program(self):
        rng = self.rng
        c = self.comp()
        n = next(self.k)
        tape = [rng.choice([0, 0, 0, 0, 0, 0, 0, 0, 7]) for _ in range(rng.randrange(0, 3 * n))] if rng.random() < 0.5 else []
        if rng.random() < 0.5:
            src = f"x = 10\ny = 20\nr = {c}\n"
        else:
            # inside a function whose x is shared with a closure: the loop variable must not write through
            src = ("x = 100\ndef f():\n    x = 10\n    y = 20\n    def g():\n        return (x, y)\n"
                   f"    try:\n        r = {c}\n    except (ZeroDivisionError, TypeError) as e:\n        r = type(e).__name__\n"
                   "    return (r, x, y, g())\nR = f()\n")
        return src, tape


# ------------------------------------------------------------------ running
def canon_val(v):
    try:
        r = repr(v)
    except Exception as e:  # pylint: disable=broad-except
        r = f"<repr raised {type(e).__name__}>"
    return f"{type(v).__name__}:{r}"


async def run_pyscript(src, tape, stream):
    import interp_env
    w, G0 = make_globals(tape)
    g, a = interp_env.new_ctx("c01", G0)
    try:
        a.parse(src)
        await a.eval()
        exc = None
    except BaseException as e:  # pylint: disable=broad-except
        exc = e
    return finish(w, G0, exc, stream)


def run_cpython(src, tape, stream):
    w, G0 = make_globals(tape)
    try:
        exec(compile(src, "t", "exec"), G0)  # pylint: disable=exec-used
        exc = None
    except BaseException as e:  # pylint: disable=broad-except
        exc = e
    return finish(w, G0, exc, stream)


def finish(w, G0, exc, stream):
    if exc is not None:
        # UnboundLocalError is the NameError family (a comprehension variable read before its generator binds it)
        res = "exc:" + (f"T{exc.i}" if isinstance(exc, TErr) else
                        "NameError" if stream == "trace" and isinstance(exc, NameError) else type(exc).__name__)
    else:
        items = {k: v for k, v in G0.items() if k not in ("T", "Tv") and not k.startswith("__")
                 and (isinstance(v, V) or not callable(v))}
        if stream == "trace":
            res = "ok:" + ",".join(sorted(f"{k}={name_of(v)}" for k, v in items.items()))
        else:
            res = "ok:" + ",".join(sorted(f"{k}={canon_val(v)}" for k, v in items.items()))
    return ";".join(w.log) + "|" + res


def _worker(items):
    import interp_env
    loop = asyncio.new_event_loop()
    asyncio.set_event_loop(loop)
    interp_env.setup_stub(loop)
    out = []
    for src, tape, stream in items:
        if stream == "compscope":
            import json
            a = loop.run_until_complete(run_compscope(src))
            p0 = json.loads(src)
            b = show_frame(p0["tbl"], p0["cells"])      # Python: the loop variables have their own scope
            out.append((a, b))
            continue
        a = loop.run_until_complete(run_pyscript(src, tape, stream))
        b = run_cpython(src, tape, stream)
        out.append((a, b))
    loop.close()
    return out


def run_impl(cases):
    items = [(c.payload["src"], c.payload["tape"], c.payload["stream"]) for c in cases]
    nshard = 12
    shards = [items[i::nshard] for i in range(nshard)]
    res = common.pmap(_worker, shards, workers=nshard, chunk=1) if len(items) > 200 else [_worker(s) for s in shards]
    for si, shard in enumerate(res):
        for j, (a, b) in enumerate(shard):
            c = cases[si + j * nshard]
            c.impl = f"model={a} spec={b}"
            c.payload["pyscript"] = a
            c.payload["cpython"] = b


def split(outline):
    """driver line -> (model+spec columns, `conf` = is the program in the fragment ConfProg Current.cfg of the theorems)"""
    if " conf=" in outline:
        m, conf = outline.rsplit(" conf=", 1)
        return m, conf.strip()
    return outline, None


def verdict(c):
    if c.payload["pyscript"] != c.payload["cpython"]:
        return f"pyscript {c.payload['pyscript'][:300]!r} != CPython {c.payload['cpython'][:300]!r}"
    return None


# features whose deviation is a recorded known finding today (fixed ones were removed: they must never be excused again)
PRIORITY = []      # every C01 finding is fixed: nothing may be excused


def classify(c, reason):
    f = set(c.payload.get("features", []))
    if c.line is not None and c.model is not None:
        m = re.match(r"model=(.*) spec=", c.model)
        if not m or m.group(1) != c.payload.get("pyscript"):
            return "unmodelled:" + "+".join(sorted(f))
    ps, cp = c.payload.get("pyscript", ""), c.payload.get("cpython", "")
    # C01-F14: a comprehension clause reads a loop variable that a LATER generator binds: Python raises (NameError family),
    # pyscript reads the enclosing variable of that name.  Excused only in exactly that form.
    # The Lean fragment predicate itself (`conf=false` from the driver: some comprehension is not `compEarlyFree`) decides
    # whether a program may be excused, not a tag of the generator.
    if c.spec == "false" and cp.endswith("|exc:NameError") and not ps.endswith("|exc:NameError"):
        return "comp-read-before-bound"
    # C01-F15: `*a[1:]` / `*o.attr` as starred target: recurse_assign reads `.id` of the starred node
    if "star-nonname-target" in f and ps.endswith("|exc:AttributeError") and not cp.endswith("|exc:AttributeError"):
        return "star-nonname-target"
    for k in PRIORITY:
        if k in f:
            return k
    return "other:" + "+".join(sorted(f))


def replay_cases(obj):
    p = obj["case"]
    return [Case({"stream": p.get("stream", "value"), "src": p["src"], "tape": p.get("tape", []),
                  "features": p.get("features", [])}, None)]


def extra_coverage(cases):
    streams, feats = {}, {}
    for c in cases:
        streams[c.payload["stream"]] = streams.get(c.payload["stream"], 0) + 1
    dis = sum(1 for c in cases if c.payload.get("pyscript") != c.payload.get("cpython"))
    exc = {}
    for c in cases:
        m = re.search(r"\|exc:(\w+)$", c.payload.get("cpython", ""))
        if m:
            exc[m.group(1)] = exc.get(m.group(1), 0) + 1
    return {"streams": streams, "pyscript_vs_cpython_differences": dis, "cpython_exception_kinds": exc}
