"""C04 correspondence + property oracle: which state changes run a @state_trigger function (both subsystems).

A scenario = entities existing before the script is loaded, 1-3 trigger functions (1-2 stacked @state_trigger decorators
each, drawn from all argument forms), and a history of create / change value / change attribute / re-set same / delete
operations grouped into bursts (a burst is issued without yielding to the event loop, then everything settles).
Every scenario is run on a real Home Assistant instance under legacy_decorators=True and =False.

Three columns per case:
  impl   - what the functions recorded (kwargs, start order), how often each function's trigger expression was
           evaluated (AstEval.eval wrapped), which names each decorator watches (debug log), queue residue;
  model  - the Lean transition system run on the schedule asyncio produces for these bursts;
  spec   - Lean `Spec.funcRuns/stEvals`, and an independent Python oracle evaluating the expression source with
           CPython on the spec environment (the verdict uses the oracle; oracle == Lean spec is part of the tie).
"""
import ast
import json
import logging
import random
import re

import common
from common import Case, sx, parse_sx

PROP = "C04"
RULE = ("scenarios: <=3 entities x <=2 attributes, some existing before the triggers start; 1-3 functions x 1-2 stacked "
        "@state_trigger decorators drawn from: single / several expression strings, list / set arguments, any-change "
        "names d.e / d.e.attr / d.e.*, mixtures, .old and .old.attr names, watch= (superset / subset / with any-change "
        "names only), kwargs= (also overriding var_name/value); expressions from a grammar (== != is-None bool() int()> "
        "and or not, over values, attributes, .old); histories of <=12 create / change value / change attribute / "
        "re-set same / delete operations in bursts of 1-6; each scenario under both subsystems; plus runs delayed by "
        "state_hold in {0, 0.5, 2 s} with kwargs= of plain names and of names colliding with var_name / value / "
        "old_value / trigger_type (the keyword arguments of the delayed run are judged), alone or next to a PLAIN trigger "
        "on the same entity (stacked before / after it, or on a second function: every run's full kwargs per function); "
        "multi-life histories (all trigger functions removed and loaded again, changes in the gap, then a burst over both "
        "variables of the expression); kwargs=None spelled out.  Non-trivial = at "
        "least one event delivered to some decorator; distinct by payload.")
ASSUMPTIONS = [
    "Home Assistant delivers state_changed to pyscript's listener synchronously, in firing order, and fires no event "
    "for a set to identical state+attributes (modelled in Hub.apply)",
    "asyncio: a task blocked in Queue.get() is woken in the order of the first put; a non-empty Queue.get() does not "
    "suspend (gives the schedule handed to the model)",
    "attribute names do not collide with StateVal virtual/callable attributes or service names; no attribute is named "
    "'old' or '*'",
    "operations come from outside pyscript (hass.states.async_set/async_remove), not from State.set inside scripts",
]
TRUSTED = ["harness/run_C04.py (scenario -> script text, schedule derivation, canonicalisation, Python oracle)",
           "lean/PsModel/Drv/C04.lean expression evaluator (cross-checked against CPython by the oracle on every case)",
           "eval.py get_names is taken from the implementation (debug log) and cross-checked against the harness' "
           "syntactic name set"]

# boundary values on purpose: entity / attribute names with underscores and digits in several domains; state values that
# are empty, look like None / unknown / unavailable, numeric strings with spaces or leading zeros; an empty attribute value
ENTS = ["pyscript.x", "sensor.y_1", "input_number.z2_a"]
ATTRS = ["a1", "a_2"]
STATES = ["0", "1", "2", "on", "7", "", "None", "unknown", "unavailable", " 3 ", "00"]
AVALS = ["p", "q", "3", ""]


# ------------------------------------------------------------------ expression grammar
def rnd_name(rng, ents):
    e = rng.choice(ents)
    k = rng.random()
    if k < 0.5:
        return [e]
    if k < 0.7:
        return [e, rng.choice(ATTRS)]
    if k < 0.88:
        return [e, "old"]
    return [e, "old", rng.choice(ATTRS)]


def rnd_atom(rng, ents):
    n = rnd_name(rng, ents)
    isattr = n[-1] in ATTRS
    lit = rng.choice(AVALS if isattr else STATES)
    k = rng.random()
    if k < 0.45:
        return ["eq", n, lit]
    if k < 0.6:
        return ["ne", n, lit]
    if k < 0.68:
        return ["eqn", n, rnd_name(rng, ents)]
    if k < 0.76:
        return ["isnone", n]
    if k < 0.87:
        # the VALUE itself is the truth value (str / None, not bool), in three spellings
        return ["truthy", n, rng.choice(["bool", "or", "and"])]
    if k < 0.93:
        return ["intnz", n]           # an int (0 / non-zero) as truth value; raises for non-numeric strings
    return ["intgt", n, rng.choice([0, 1, 2])]


def rnd_ex(rng, ents, depth=0):
    k = rng.random()
    if depth >= 2 or k < 0.45:
        return rnd_atom(rng, ents)
    if k < 0.7:
        return ["and", rnd_ex(rng, ents, depth + 1), rnd_ex(rng, ents, depth + 1)]
    if k < 0.9:
        return ["or", rnd_ex(rng, ents, depth + 1), rnd_ex(rng, ents, depth + 1)]
    return ["not", rnd_ex(rng, ents, depth + 1)]


def ex_names(ex):
    op = ex[0]
    if op in ("eq", "ne", "isnone", "truthy", "intgt", "intnz"):
        return [ex[1]]
    if op == "eqn":
        return [ex[1], ex[2]]
    out = []
    for sub in ex[1:]:
        out += ex_names(sub)
    return out


def dotted(n):
    return ".".join(n)


def ex_src(ex, nm=dotted):
    op = ex[0]
    if op == "eq":
        return f"{nm(ex[1])} == '{ex[2]}'"
    if op == "ne":
        return f"{nm(ex[1])} != '{ex[2]}'"
    if op == "eqn":
        return f"{nm(ex[1])} == {nm(ex[2])}"
    if op == "isnone":
        return f"{nm(ex[1])} is None"
    if op == "truthy":
        style = ex[2] if len(ex) > 2 else "bool"
        if style == "or":
            return f"({nm(ex[1])} or None)"
        if style == "and":
            return f"({nm(ex[1])} and {nm(ex[1])})"
        return f"bool({nm(ex[1])})"
    if op == "intnz":
        return f"int({nm(ex[1])})"
    if op == "intgt":
        return f"int({nm(ex[1])}) > {ex[2]}"
    if op == "and":
        return f"({ex_src(ex[1], nm)} and {ex_src(ex[2], nm)})"
    if op == "or":
        return f"({ex_src(ex[1], nm)} or {ex_src(ex[2], nm)})"
    if op == "not":
        return f"not ({ex_src(ex[1], nm)})"
    raise ValueError(op)


def ex_sx(ex):
    op = ex[0]
    if op in ("eq", "ne"):
        return [op, name_sx(ex[1]), ex[2]]
    if op == "eqn":
        return [op, name_sx(ex[1]), name_sx(ex[2])]
    if op in ("isnone", "truthy", "intnz"):
        return [op, name_sx(ex[1])]
    if op == "intgt":
        return [op, name_sx(ex[1]), ex[2]]
    return [op] + [ex_sx(s) for s in ex[1:]]


def name_sx(n):
    """['pyscript.x', 'a1'] (entity, rest...) -> S-expression list"""
    return list(n)


def split_name(s):
    p = s.split(".")
    return [p[0] + "." + p[1]] + p[2:]


# ------------------------------------------------------------------ scenario generation
def rnd_any(rng, ents):
    e = rng.choice(ents)
    k = rng.random()
    if k < 0.5:
        return [e]
    if k < 0.8:
        return [e, rng.choice(ATTRS)]
    return [e, "*"]


def rnd_dec(rng, ents, fidx, didx):
    form = rng.choice(["expr", "expr", "expr", "multi", "list", "set", "any", "any", "mix", "mixlist"])
    args = []
    if form == "expr":
        args = [{"k": "expr", "ex": rnd_ex(rng, ents)}]
    elif form == "multi":
        args = [{"k": "expr", "ex": rnd_ex(rng, ents)} for _ in range(rng.choice([2, 3]))]
    elif form in ("list", "set"):
        args = [{"k": form, "items": [{"k": "expr", "ex": rnd_ex(rng, ents)} for _ in range(rng.choice([1, 2]))]}]
    elif form == "any":
        args = [{"k": "any", "name": rnd_any(rng, ents)} for _ in range(rng.choice([1, 1, 2]))]
    elif form == "mix":
        args = [{"k": "expr", "ex": rnd_ex(rng, ents)}, {"k": "any", "name": rnd_any(rng, ents)}]
        rng.shuffle(args)
    else:
        args = [{"k": "list", "items": [{"k": "any", "name": rnd_any(rng, ents)}, {"k": "expr", "ex": rnd_ex(rng, ents)}]}]
    dec = {"args": args, "watch": None, "kwargs": None, "form": form}
    k = rng.random()
    names = dec_names(dec)
    if k < 0.12:        # superset: everything mentioned plus one more entity
        dec["watch"] = sorted({dotted(n) for n in names["expr"] + names["any"] if len(n) <= 2} | {rng.choice(ents)})
        dec["wkind"] = "superset"
    elif k < 0.18:      # subset of the names (others become "conditions only")
        pool = sorted({dotted(n) for n in names["expr"] + names["any"] if len(n) <= 2})
        if pool:
            dec["watch"] = sorted(rng.sample(pool, max(1, len(pool) - 1)))
            dec["wkind"] = "subset"
    elif k < 0.22:      # unrelated entity only
        dec["watch"] = [rng.choice(ents)]
        dec["wkind"] = "other"
    if dec["watch"] is not None and rng.random() < 0.5:
        dec["wtype"] = "set"
    k = rng.random()
    if k < 0.3:
        dec["kwargs"] = {"dec": f"{fidx}{didx}"}
    elif k < 0.4:
        dec["kwargs"] = {"var_name": "ovr", "extra": "1"}
    elif k < 0.45:
        dec["kwargs"] = {"value": "v", "old_value": "o"}
    elif k < 0.5:
        dec["kwargs"] = {}                       # an empty dict is not "no kwargs"
    elif k < 0.55:
        dec["kwargs"] = {"extra": None, "trigger_type": None}    # None values (one colliding with an own argument)
    if rng.random() < 0.15:
        dec["xnone"] = True                      # spell the unset option out: watch=None (kwargs=None: see C04-F5)
    return dec


def flat_args(dec):
    out = []
    for a in dec["args"]:
        if a["k"] in ("list", "set"):
            out += a["items"]
        else:
            out.append(a)
    return out


def dec_names(dec):
    """syntactic get_names: names of the expressions / the any-change names (split form)"""
    ex, anyn = [], []
    for a in flat_args(dec):
        if a["k"] == "expr":
            for n in ex_names(a["ex"]):
                if n not in ex:
                    ex.append(n)
        else:
            if a["name"] not in anyn:
                anyn.append(a["name"])
    return {"expr": ex, "any": anyn}


def dec_ident(dec):
    n = dec_names(dec)
    if dec["watch"] is not None:
        return [split_name(w) for w in dec["watch"]]
    out = []
    for x in n["expr"] + n["any"]:
        if x not in out:
            out.append(x)
    return out


def dec_subscribed(dec):
    return sorted({n[0] for n in dec_ident(dec) if len(n) <= 2})


def rnd_sval(rng):
    attrs = {}
    for a in ATTRS:
        if rng.random() < 0.45:
            attrs[a] = rng.choice(AVALS)
    return [rng.choice(STATES), attrs]


def race_scenario(rng):
    """family aimed at the live-read window: entities that exist before the triggers start (never notified), an
    expression over two of them, and a first burst that changes both"""
    ents = ENTS[:rng.choice([2, 3])]
    pre = {e: [rng.choice(STATES), {}] for e in ents}
    a, b = rng.sample(ents, 2)
    va = rng.choice([s for s in STATES if s != pre[a][0]])
    vb = rng.choice([s for s in STATES if s != pre[b][0]])
    atom_b = rng.choice([["eq", [b], pre[b][0]], ["ne", [b], vb], ["eq", [b], vb], ["ne", [b], pre[b][0]]])
    ex = [rng.choice(["and", "or"]), ["eq", [a], va], atom_b]
    dec = {"args": [{"k": "expr", "ex": ex}], "watch": None, "kwargs": None, "form": "expr"}
    funcs = [{"decs": [dec]}]
    if rng.random() < 0.4:
        funcs.append({"decs": [rnd_dec(rng, ents, 1, 0)]})
    first = [["set", a, va, {}], ["set", b, vb, {}]]
    if rng.random() < 0.5:
        first.reverse()
    hist = [first]
    cur = {a: va, b: vb}
    for _ in range(rng.randrange(0, 4)):
        e = rng.choice([a, b])
        v = rng.choice([s for s in STATES if s != cur[e]])
        cur[e] = v
        if rng.random() < 0.5:
            hist[-1].append(["set", e, v, {}])
        else:
            hist.append([["set", e, v, {}]])
    return {"ents": ents, "pre": pre, "funcs": funcs, "hist": hist, "family": "race"}


def relife_scenario(rng):
    """family aimed at the snapshot of unchanged variables surviving a period WITHOUT subscribers: a trigger over two
    entities, both notified while it is watching (life 1); every subscriber goes away (script removed + reload), the
    entities may change in the gap, the script comes back (life 2) and the first burst changes both entities - the
    first change must be evaluated with the other entity's value AT that event (State.notify keeps the empty entry of an
    entity once watched, so State.update keeps recording its value in notify_var_last)"""
    ents = ENTS[:rng.choice([2, 3])]
    a, b = rng.sample(ents, 2)
    cur = {}
    hist = []

    def chg(e):
        v = rng.choice([x for x in STATES if x != cur.get(e)])
        cur[e] = v
        return ["set", e, v, {}]
    pre = {}
    if rng.random() < 0.3:
        pre[b] = [rng.choice(STATES), {}]
        cur[b] = pre[b][0]
    # life 1: both entities notified, settled one at a time (sometimes a control burst as well)
    first = [chg(a), chg(b)]
    rng.shuffle(first)
    hist += [[first[0]], [first[1]]]
    if rng.random() < 0.4:
        hist.append([chg(a), chg(b)])
    hist.append([["unload"]])
    for _ in range(rng.choice([0, 0, 1, 2])):           # the gap: nobody is subscribed, the entry stays
        hist.append([chg(rng.choice([a, b]))])
    hist.append([["load"]])
    vb_before = cur[b]
    opa, opb = chg(a), chg(b)
    va, vb = opa[2], opb[2]
    atom_b = rng.choice([["eq", [b], vb_before], ["ne", [b], vb], ["eq", [b], vb], ["ne", [b], vb_before]])
    ex = [rng.choice(["and", "or"]), ["eq", [a], va], atom_b]
    burst = [opa, opb]
    for _ in range(rng.choice([0, 0, 1, 2])):
        burst.append(chg(rng.choice([a, b])))
    hist.append(burst)
    for _ in range(rng.randrange(0, 3)):
        hist.append([chg(rng.choice([a, b]))])
    dec = {"args": [{"k": "expr", "ex": ex}], "watch": None, "kwargs": None, "form": "expr"}
    return {"ents": ents, "pre": pre, "funcs": [{"decs": [dec]}], "hist": hist, "family": "relife"}


def is_life_op(op):
    return op[0] in ("unload", "load")


def rnd_scenario(rng, tier):
    r = rng.random()
    if r < 0.12:
        return race_scenario(rng)
    if r < 0.2:
        return relife_scenario(rng)
    nent = rng.choice([1, 2, 2, 3])
    ents = ENTS[:nent]
    pre = {}
    if rng.random() < 0.45:
        for e in ents:
            if rng.random() < 0.6:
                pre[e] = rnd_sval(rng)
    funcs = []
    for fi in range(rng.choice([1, 1, 2, 3])):
        nd = 2 if rng.random() < 0.3 else 1
        funcs.append({"decs": [rnd_dec(rng, ents, fi, di) for di in range(nd)]})
    # history
    cur = {e: (list(v) if v else None) for e, v in pre.items()}
    hist = []
    nops = rng.randrange(3, 13)
    settled = rng.random() < 0.35
    ops = []
    for _ in range(nops):
        e = rng.choice(ents)
        c = cur.get(e)
        k = rng.random()
        if c is None:
            op = ["set", e] + rnd_sval(rng) if k < 0.9 else ["del", e]
        elif k < 0.4:      # change value, keep attributes
            op = ["set", e, rng.choice([s for s in STATES if s != c[0]]), dict(c[1])]
        elif k < 0.65:     # change attribute only
            attrs = dict(c[1])
            a = rng.choice(ATTRS)
            if a in attrs and rng.random() < 0.3:
                del attrs[a]
            else:
                attrs[a] = rng.choice([v for v in AVALS if v != attrs.get(a)])
            op = ["set", e, c[0], attrs]
        elif k < 0.75:     # both
            op = ["set", e] + rnd_sval(rng)
        elif k < 0.87:     # re-set same
            op = ["set", e, c[0], dict(c[1])]
        else:
            op = ["del", e]
        cur[e] = [op[2], dict(op[3])] if op[0] == "set" else None
        ops.append(op)
    i = 0
    while i < len(ops):
        n = 1 if settled else rng.choice([1, 1, 2, 3, 4, 6])
        hist.append(ops[i:i + n])
        i += n
    return {"ents": ents, "pre": pre, "funcs": funcs, "hist": hist}


def _dec(args, watch=None, kwargs=None):
    return {"args": args, "watch": watch, "kwargs": kwargs, "form": "witness"}


# the closed witnesses of Props/C04, replayed on the real code on every run (open findings C04-F1, F3, F4; the second
# scenario is the regression case of the fixed C04-F2 and must be clean under both subsystems)
WITNESSES = [
    # C04_cex_burst_*: pyscript.b exists before the trigger starts, burst a := 1; b := 5
    {"ents": ["pyscript.x", "pyscript.y"], "pre": {"pyscript.y": ["0", {}]},
     "funcs": [{"decs": [_dec([{"k": "expr", "ex": ["and", ["eq", ["pyscript.x"], "1"], ["eq", ["pyscript.y"], "0"]]}])]}],
     "hist": [[["set", "pyscript.x", "1", {}], ["set", "pyscript.y", "5", {}]]]},
    # C04_new_regress_noexpr (fixed by 5a43b84): only an any-change name, watch= lists another variable
    {"ents": ["pyscript.x", "pyscript.y"], "pre": {},
     "funcs": [{"decs": [_dec([{"k": "any", "name": ["pyscript.x"]}], watch=["pyscript.x", "pyscript.y"])]}],
     "hist": [[["set", "pyscript.y", "5", {}]]]},
    # C04_cex_unwatched_undefined: expression variable missing from watch= and undefined
    {"ents": ["pyscript.x", "pyscript.z"], "pre": {},
     "funcs": [{"decs": [_dec([{"k": "expr", "ex": ["and", ["ne", ["pyscript.x"], "7"], ["ne", ["pyscript.z"], "2"]]}],
                              watch=["pyscript.x"])]}],
     "hist": [[["set", "pyscript.x", "1", {}]]]},
    # C04_resubscribed: y notified in life 1, all subscribers gone and back, burst x := 1; y := 5 - the run for x := 1
    # (y was still '0') must happen: notify_var_last survives the period without subscribers
    {"ents": ["pyscript.x", "pyscript.y"], "pre": {}, "family": "relife",
     "funcs": [{"decs": [_dec([{"k": "expr", "ex": ["and", ["eq", ["pyscript.x"], "1"], ["eq", ["pyscript.y"], "0"]]}])]}],
     "hist": [[["set", "pyscript.x", "0", {}]], [["set", "pyscript.y", "0", {}]], [["unload"]], [["load"]],
              [["set", "pyscript.x", "1", {}], ["set", "pyscript.y", "5", {}]]]},
    {"ents": ["pyscript.x", "pyscript.y"], "pre": {}, "family": "relife",
     "funcs": [{"decs": [_dec([{"k": "expr", "ex": ["and", ["eq", ["pyscript.x"], "1"], ["eq", ["pyscript.y"], "7"]]}])]}],
     "hist": [[["set", "pyscript.x", "0", {}]], [["set", "pyscript.y", "0", {}]], [["unload"]],
              [["set", "pyscript.y", "7", {}]], [["load"]],
              [["set", "pyscript.x", "1", {}], ["set", "pyscript.y", "5", {}]]]},
    # C04_cex_multi_burst_order: stacked decorators, burst x := 1; x := 2
    {"ents": ["pyscript.x"], "pre": {},
     "funcs": [{"decs": [_dec([{"k": "expr", "ex": ["eq", ["pyscript.x"], "2"]}], kwargs={"dec": "1"}),
                         _dec([{"k": "expr", "ex": ["eq", ["pyscript.x"], "1"]}], kwargs={"dec": "2"})]}],
     "hist": [[["set", "pyscript.x", "1", {}], ["set", "pyscript.x", "2", {}]]]},
]


# ---- runs delayed by state_hold: which keyword arguments do they get?  (timing itself is C05's subject)
HELD_HOLDS = [0, 0.0, 2 ** -10, 0.5, 2]       # int 0, float 0.0, a very small positive hold (binary-exact, < 1 ms)
HELD_KWARGS = [
    {"extra": "7"},                                        # a plain additional keyword
    {"var_name": "ovr"},                                   # collides with the trigger's own argument
    {"value": "v", "old_value": "o", "dec": "1"},          # two collisions and a plain name
    {"trigger_type": "tt", "extra": "1"},
    {"extra": "7", "var_name": "ovr", "value": "v"},
    {},                                                    # empty dict
    {"extra": None, "old_value": None},                    # None values, one colliding
]


def held_values(rng):
    """values pyscript.x takes, 5 s apart (longer than any hold): the expression `pyscript.x == '1'` becomes true at every
    '1'; attributes vary so that value / old_value carry attributes too"""
    out, cur = [], None
    for _ in range(rng.randrange(2, 6)):
        v = rng.choice([x for x in ["1", "1", "0", "2"] if x != cur])
        cur = v
        attrs = {"a1": rng.choice(AVALS)} if rng.random() < 0.5 else {}
        out.append([v, attrs])
    if all(v != "1" for v, _ in out):
        out.append(["1", {}])
    return out


def held_events(p):
    """(ctx, new, old) of the operations that make the expression true = the runs expected after the hold"""
    evs, old = [], None
    for i, (v, attrs) in enumerate(p["vals"]):
        new = [v, attrs]
        if v == "1":
            evs.append([i + 1, new, old])
        old = new
    return evs


HELD_SHAPES = ["single", "hold_first", "hold_last", "two"]


def held_src(p):
    """the held decorator alone, or together with a PLAIN state trigger on the same entity that fires on the same events:
    stacked on the same function (held decorator first / last) or on a second function - every subscriber of an event must
    get its own arguments (State.update hands each queue its own copy of func_args)"""
    held = f"@state_trigger(\"pyscript.x == '1'\", state_hold={p['hold']!r}, kwargs={p['kwargs']!r})\n"
    plain = "@state_trigger(\"pyscript.x == '1'\")\n"
    shape = p.get("shape", "single")
    body = "def f0(**kw):\n    rec('run', 0, kw)\n"
    if shape == "single":
        return held + body
    if shape == "hold_first":
        return held + plain + body
    if shape == "hold_last":
        return plain + held + body
    return held + body + "\n" + plain + "def f1(**kw):\n    rec('run', 1, kw)\n"


def make_held_case(p):
    p = {k: v for k, v in p.items() if not k.startswith("_")}
    shape = p.get("shape", "single")
    line = "C04 " + sx(["held", "legacy" if p["legacy"] else "new", [[k, str(v)] for k, v in p["kwargs"].items()],
                        [["pyscript.x", sval_sx(new), sval_sx(old), ctx] for ctx, new, old in held_events(p)],
                        shape != "single"])
    tags = ["legacy" if p["legacy"] else "new", "held", f"held:hold={p['hold']}", f"held:shape={shape}"]
    if any(k in ("var_name", "value", "old_value", "trigger_type") for k in p["kwargs"]):
        tags.append("held:kwargs-override")
    return Case(p, line, tags=tags)


def held_plain_func(p):
    return 1 if p.get("shape", "single") == "two" else 0


def held_oracle(p):
    """the delayed runs of the held decorator (event arguments overridden by ITS kwargs) and - when there is a plain trigger
    on the same entity - that trigger's immediate runs with the bare event arguments; entries [function, ctx, kwargs…]"""
    runs = []
    for ctx, new, old in held_events(p):
        def base():
            return [["trigger_type", "state"], ["var_name", "pyscript.x"], ["value", o_show(SV(new[0], new[1]))],
                    ["old_value", "None" if old is None else o_show(SV(old[0], old[1]))]]
        b1 = base()
        for k, val in p["kwargs"].items():
            for b in b1:
                if b[0] == k:
                    b[1] = str(val)
                    break
            else:
                b1.append([k, str(val)])
        runs.append([0, ctx] + b1)
        if p.get("shape", "single") != "single":
            runs.append([held_plain_func(p), ctx] + base())
    return {"runs": sorted(runs, key=json.dumps)}


def run_held(p):
    from ha_env import run_ha
    from homeassistant.core import Context

    async def body(env):
        env.write("t.py", held_src(p))
        await env.reload()
        t0 = env.now()
        for i, (v, attrs) in enumerate(p["vals"]):
            await env.settle_until(t0 + 1 + 5 * i)
            env.hass.states.async_set("pyscript.x", v, dict(attrs), context=Context(id=f"c{i + 1}"))
            await env.settle(0)
        await env.settle_until(t0 + 1 + 5 * len(p["vals"]) + 5)
        return sorted([[r[2]] + canon_kw(r[3]) for r in env.records if r[1] == "run"], key=json.dumps)

    try:
        return {"runs": run_ha({}, p["legacy"], body)}
    except Exception as e:  # pylint: disable=broad-except
        return {"crash": f"{type(e).__name__}: {e}"[:200]}


# ---- kwargs=None spelled out (the documented default): finding C04-F5
def make_kwnone_case(p):
    p = {k: v for k, v in p.items() if not k.startswith("_")}
    qs = [v == "1" for v in p["vals"]]
    line = "C04 " + sx(["kwnone", "legacy" if p["legacy"] else "new", qs, list(range(1, len(qs) + 1))])
    return Case(p, line, tags=["legacy" if p["legacy"] else "new", "bv:kwargs-explicit-None"])


def kwnone_oracle(p):
    """the documented behaviour: kwargs=None is the default, i.e. the same as no kwargs"""
    return {"runs": [i + 1 for i, v in enumerate(p["vals"]) if v == "1"], "evals": len(p["vals"])}


def run_kwnone(p):
    from ha_env import run_ha
    from homeassistant.core import Context
    src = ("@state_trigger(\"pyscript.x == '1'\", kwargs=None)\n"
           "def f0(**kw):\n"
           "    rec('run', 0, kw)\n")
    evals = []

    async def body(env):
        from custom_components.pyscript.eval import AstEval
        orig = AstEval.eval

        async def eval_tap(self, *a, **k):
            if self.name.endswith("@state_trigger()"):
                evals.append(self.name)
            return await orig(self, *a, **k)

        AstEval.eval = eval_tap
        try:
            env.write("t.py", src)
            await env.reload()
            for i, v in enumerate(p["vals"]):
                env.hass.states.async_set("pyscript.x", v, {}, context=Context(id=f"c{i + 1}"))
                await env.settle(0.01)
            await env.settle(0.05)
            return [canon_kw(r[3])[0] for r in env.records if r[1] == "run"]
        finally:
            AstEval.eval = orig

    try:
        return {"runs": run_ha({}, p["legacy"], body), "evals": len(evals)}
    except Exception as e:  # pylint: disable=broad-except
        return {"crash": f"{type(e).__name__}: {e}"[:200]}


def gen_cases(rng, tier, search):
    n = 200 if tier == "quick" else 2500
    if search:
        n = 900 if tier == "quick" else 5000
    cases = []
    for scn in WITNESSES:
        for legacy in (True, False):
            cases.append(make_case(json.loads(json.dumps(scn)), legacy))
    for vals in (["0", "1", "0", "1"], ["1"], ["2", "0"]):
        for legacy in (True, False):
            cases.append(make_kwnone_case({"kind": "kwnone", "legacy": legacy, "vals": vals}))
    # kwargs of runs delayed by state_hold: every hold value x every kwargs shape, both subsystems
    for hold in HELD_HOLDS:
        for kw in HELD_KWARGS:
            vals = held_values(rng)
            # alone, or next to a plain trigger on the same entity (stacked before / after it, or on a second function)
            shapes = ["single", rng.choice(HELD_SHAPES[1:])] if tier == "quick" and not search else HELD_SHAPES
            for shape in shapes:
                for legacy in (True, False):
                    cases.append(make_held_case({"kind": "held", "legacy": legacy, "hold": hold, "kwargs": kw, "vals": vals,
                                                 "shape": shape}))
    for _ in range(n):
        scn = rnd_scenario(rng, tier)
        for legacy in (True, False):
            cases.append(make_case(scn, legacy))
    return cases


# ------------------------------------------------------------------ scenario -> script text / driver line
def arg_src(a):
    if a["k"] == "expr":
        return json.dumps(ex_src(a["ex"]))
    if a["k"] == "any":
        return json.dumps(dotted(a["name"]))
    inner = ", ".join(arg_src(i) for i in a["items"])
    return "[" + inner + "]" if a["k"] == "list" else "{" + inner + "}"


def script_src(scn):
    lines = []
    for fi, f in enumerate(scn["funcs"]):
        for d in f["decs"]:
            parts = [arg_src(a) for a in d["args"]]
            if d["watch"] is not None:
                items = ", ".join(json.dumps(w) for w in d["watch"])
                parts.append("watch=" + ("{" + items + "}" if d.get("wtype") == "set" else "[" + items + "]"))
            if d["kwargs"] is not None:
                parts.append("kwargs=" + repr(d["kwargs"]))
            if d["watch"] is None and d.get("xnone"):
                parts.append("watch=None")
            lines.append(f"@state_trigger({', '.join(parts)})")
        lines.append(f"def f{fi}(**kw):")
        lines.append(f"    rec('run', {fi}, kw)")
        lines.append("")
    return "\n".join(lines)


def sval_sx(v):
    if v is None:
        return "none"
    return [v[0], [[k, v[1][k]] for k in sorted(v[1])]]


def decs_of(scn):
    """global decorator list in subscription order: (function index, decorator)"""
    return [(fi, d) for fi, f in enumerate(scn["funcs"]) for d in f["decs"]]


def cfg_sx(fi, d):
    names = dec_names(d)
    exprs = [a["ex"] for a in flat_args(d) if a["k"] == "expr"]
    if not exprs:
        e = "none"
    elif len(exprs) == 1:
        e = ex_sx(exprs[0])
    else:
        e = ["anyl"] + [ex_sx(x) for x in exprs]
    w = "none" if d["watch"] is None else [name_sx(split_name(x)) for x in d["watch"]]
    kw = [[k, str(v)] for k, v in (d["kwargs"] or {}).items()]
    return [fi, e, [name_sx(n) for n in names["expr"]], [name_sx(n) for n in names["any"]], w, kw]


def schedule(scn):
    """the atomic-step sequence asyncio produces: a burst's listener steps first (they never suspend), then every
    woken trigger task (in the order of the first put to its queue) drains its queue without suspending"""
    decs = decs_of(scn)
    subs = [dec_subscribed(d) for _, d in decs]
    steps = []
    ctx = 0
    cur = {e: [v[0], dict(v[1])] for e, v in scn["pre"].items()}
    alive = True
    for burst in scn["hist"]:
        wake, cnt = [], {}
        for op in burst:
            if is_life_op(op):
                # all trigger functions go away / come back (fresh queues); State.notify keeps its (empty) entries
                steps.append([op[0]])
                alive = op[0] == "load"
                continue
            ctx += 1
            steps.append(["op", op[1], sval_sx([op[2], op[3]] if op[0] == "set" else None), ctx])
            new = [op[2], dict(op[3])] if op[0] == "set" else None
            if cur.get(op[1]) == new:
                continue            # no state_changed event: nothing is put, nobody is woken
            cur[op[1]] = new
            if not alive:
                continue
            for di, s in enumerate(subs):
                if op[1] in s:
                    if di not in wake:
                        wake.append(di)
                    cnt[di] = cnt.get(di, 0) + 1
        for di in wake:
            steps += [["deq", di]] * cnt[di]
    return steps


def make_case(scn, legacy):
    decs = decs_of(scn)
    line = "C04 " + sx(["legacy" if legacy else "new", [cfg_sx(fi, d) for fi, d in decs],
                        [[e, sval_sx(v)] for e, v in sorted(scn["pre"].items())], schedule(scn)])
    tags = ["legacy" if legacy else "new"]
    tags.append("burst" if any(len(b) > 1 for b in scn["hist"]) else "settled")
    if scn.get("family"):
        tags.append("family:" + scn["family"])
    if any(is_life_op(op) for b in scn["hist"] for op in b):
        tags.append("resubscribed")
    if scn["pre"]:
        tags.append("pre-existing")
    for _, d in decs:
        tags.append("form:" + d["form"])
        if d["watch"] is not None:
            tags.append("watch:" + d.get("wkind", "?"))
        if d["kwargs"]:
            tags.append("kwargs")
    if any(len(f["decs"]) > 1 for f in scn["funcs"]):
        tags.append("stacked")
    tags += sorted(boundary_tags(scn))
    return Case({"scn": scn, "legacy": legacy}, line, tags=tags)


SPECIAL_STATES = {"", "None", "unknown", "unavailable", " 3 ", "00"}


def boundary_tags(scn):
    """which boundary-value categories a scenario exercises (counted in the evidence tag histogram)"""
    t = set()

    def walk(ex):
        if ex[0] == "intnz" or (ex[0] == "truthy" and len(ex) > 2 and ex[2] != "bool"):
            t.add("bv:nonbool-truth-value")
        if ex[0] in ("eq", "ne") and ex[2] in SPECIAL_STATES:
            t.add("bv:special-literal")
        for sub in ex[1:]:
            if isinstance(sub, list) and sub and isinstance(sub[0], str) and sub[0] in (
                    "eq", "ne", "eqn", "isnone", "truthy", "intgt", "intnz", "and", "or", "not"):
                walk(sub)
    for _, d in decs_of(scn):
        if d["kwargs"] == {}:
            t.add("bv:kwargs-empty-dict")
        if d["kwargs"] and any(v is None for v in d["kwargs"].values()):
            t.add("bv:kwargs-None-value")
        if d["kwargs"] and any(k in ("var_name", "value", "old_value", "trigger_type") for k in d["kwargs"]):
            t.add("bv:kwargs-collide")
        if d.get("xnone"):
            t.add("bv:options-explicit-None")
        for a in flat_args(d):
            if a["k"] == "expr":
                walk(a["ex"])
    cur = {e: v for e, v in scn["pre"].items()}
    for burst in scn["hist"]:
        if len(burst) >= 3:
            t.add("bv:burst-3rd-or-later-change")
        for op in burst:
            if is_life_op(op):
                continue
            if op[0] == "set":
                if op[2] in SPECIAL_STATES:
                    t.add("bv:special-state-value")
                if not op[3]:
                    t.add("bv:empty-attribute-dict")
                if "" in op[3].values():
                    t.add("bv:empty-attribute-value")
                prev = cur.get(op[1])
                if prev and any(k not in op[3] for k in prev[1]):
                    t.add("bv:attribute-removed")
                cur[op[1]] = [op[2], op[3]]
            else:
                cur[op[1]] = None
    return t


# ------------------------------------------------------------------ running the real code
VIRT = {"entity_id", "last_changed", "last_updated", "last_reported"}


def show_sval(v):
    if v is None:
        return "None"
    attrs = {k: x for k, x in v.__dict__.items() if k not in VIRT} if hasattr(v, "__dict__") else {}
    if not hasattr(v, "__dict__"):
        return str(v)
    return str(v) + "{" + ",".join(f"{k}={attrs[k]}" for k in sorted(attrs)) + "}"


def canon_kw(kw):
    ctx = getattr(kw.get("context"), "id", None)
    k = int(ctx[1:]) if isinstance(ctx, str) and re.fullmatch(r"c\d+", ctx) else -1
    out = [k]
    for key, val in kw.items():
        if key == "context":
            continue
        if key in ("value", "old_value"):
            out.append([key, show_sval(val)])
        else:
            out.append([key, str(val)])
    return out


def run_one(payload):
    """returns the impl observation as a dict (or {'crash': ...})"""
    if payload.get("kind") == "held":
        return run_held(payload)
    if payload.get("kind") == "kwnone":
        return run_kwnone(payload)
    from ha_env import run_ha
    from homeassistant.core import Context
    scn, legacy = payload["scn"], payload["legacy"]
    src = script_src(scn)
    evals = []

    async def body(env):
        from custom_components.pyscript.eval import AstEval
        from custom_components.pyscript.state import State
        orig = AstEval.eval

        async def eval_tap(self, *a, **k):
            if self.name.endswith("@state_trigger()"):
                evals.append(self.name)
            return await orig(self, *a, **k)

        AstEval.eval = eval_tap
        try:
            for e, v in sorted(scn["pre"].items()):
                env.hass.states.async_set(e, v[0], dict(v[1]))
            await env.settle(0)
            env.write("t.py", src)
            await env.reload()
            await env.settle(0.01)
            ctx = 0
            for burst in scn["hist"]:
                for op in burst:
                    if op[0] == "unload":             # every trigger function goes away …
                        await env.settle(0.01)
                        env.remove("t.py")
                        await env.reload()
                        await env.settle(0.01)
                        continue
                    if op[0] == "load":               # … and comes back
                        env.write("t.py", src)
                        await env.reload()
                        await env.settle(0.01)
                        continue
                    ctx += 1
                    if op[0] == "set":
                        env.hass.states.async_set(op[1], op[2], dict(op[3]), context=Context(id=f"c{ctx}"))
                    else:
                        env.hass.states.async_remove(op[1], context=Context(id=f"c{ctx}"))
                await env.settle(0.01)
            await env.settle(0.05)
            pending = sorted({id(q): q.qsize() for qs in State.notify.values() for q in qs}.values())
            watching = []
            for name, lvl, msg in env.log:
                m = re.search(r"trigger (\S+): watching vars (.*)$", msg)
                if m:
                    try:
                        watching.append(sorted(n for n in ast.literal_eval(m.group(2)) if "." in n))
                    except (ValueError, SyntaxError):
                        watching.append([m.group(2)])
            errs = []
            return pending, watching, errs
        finally:
            AstEval.eval = orig

    try:
        holder = {}

        async def body2(env):
            holder["env"] = env
            return await body(env)

        pending, watching, errs = run_ha({}, legacy, body2)
        env = holder["env"]
        runs = {}
        for r in env.records:
            if r[1] == "run":
                runs.setdefault(r[2], []).append(canon_kw(r[3]))
        nf = len(scn["funcs"])
        ev = [0] * nf
        for n in evals:
            m = re.search(r"\.f(\d+) @state_trigger\(\)$", n)
            if m and int(m.group(1)) < nf:
                ev[int(m.group(1))] += 1
        return {"runs": [[fi] + runs.get(fi, []) for fi in range(nf)], "evals": ev,
                "pending": [p for p in pending if p], "watching": sorted(watching), "errs": errs}
    except Exception as e:  # a harness-level crash of this case: reported as an outcome, never silently dropped
        return {"crash": f"{type(e).__name__}: {e}"[:200]}


_WARM = []


def warm():
    """import Home Assistant + pyscript once in the parent so forked workers inherit them; freeze the heap so that the
    per-case gc.collect() in ha_env does not copy-on-write the whole parent image in every worker"""
    if _WARM:
        return
    import gc
    import ha_env  # noqa: F401
    from pytest_homeassistant_custom_component.common import async_test_home_assistant  # noqa: F401
    from homeassistant.setup import async_setup_component  # noqa: F401
    import custom_components.pyscript  # noqa: F401
    import custom_components.pyscript.decorators  # noqa: F401
    gc.collect()
    gc.freeze()
    _WARM.append(1)


def run_impl(cases):
    logging.disable(logging.CRITICAL)
    warm()
    outs = common.pmap(run_one, [c.payload for c in cases], workers=8)
    for c, o in zip(cases, outs):
        if c.payload.get("kind") in ("held", "kwnone"):
            orc = held_oracle(c.payload) if c.payload["kind"] == "held" else kwnone_oracle(c.payload)
            c.payload["_impl"] = o
            c.payload["_oracle"] = orc
            c.impl = json.dumps({"obs": o, "oracle": orc}, sort_keys=True)
            c.nontrivial = True
            continue
        scn = c.payload["scn"]
        orc = oracle(scn)
        c.payload["_impl"] = o
        c.payload["_oracle"] = orc
        c.impl = json.dumps({"obs": o, "oracle": orc}, sort_keys=True)
        c.nontrivial = any(e for e in orc["delivered"])


# ------------------------------------------------------------------ the independent Python oracle (the spec, in Python)
class SV(str):
    """a state value with attributes; a missing attribute reads as None (the documented @state_trigger rule)"""

    def __new__(cls, state, attrs):
        o = super().__new__(cls, state)
        o.attrs = dict(attrs)
        return o


def o_getattr(v, a):
    return None if v is None else v.attrs.get(a)


def o_show(v):
    if v is None:
        return "None"
    return str(v) + "{" + ",".join(f"{k}={v.attrs[k]}" for k in sorted(v.attrs)) + "}"


def o_env_val(name, ev, store):
    e, rest = name[0], name[1:]
    if e == ev["e"]:
        if rest == []:
            return ev["new"]
        if rest == ["old"]:
            return ev["old"]
        if len(rest) == 1:
            return o_getattr(ev["new"], rest[0])
        if len(rest) == 2 and rest[0] == "old":
            return o_getattr(ev["old"], rest[1])
        return None
    if rest == []:
        return store.get(e)
    if len(rest) == 1:
        return o_getattr(store.get(e), rest[0])
    return None


def o_value_changed(ev):
    return (None if ev["new"] is None else str(ev["new"])) != (None if ev["old"] is None else str(ev["old"]))


def o_attr_changed(ev, a):
    return o_getattr(ev["new"], a) != o_getattr(ev["old"], a)


def o_matches_any(ev, n):
    if n[0] != ev["e"]:
        return False
    rest = n[1:]
    if rest == []:
        return o_value_changed(ev)
    if rest == ["*"]:
        keys = set(ev["new"].attrs if ev["new"] is not None else ()) | set(ev["old"].attrs if ev["old"] is not None else ())
        return any(o_attr_changed(ev, a) for a in keys)
    if len(rest) == 1:
        return o_attr_changed(ev, rest[0])
    return False


def o_changes(ev, n):
    if n[0] != ev["e"]:
        return False
    rest = n[1:]
    if rest == [] or rest == ["old"]:
        return o_value_changed(ev)
    if len(rest) == 1:
        return o_attr_changed(ev, rest[0])
    return False


def o_truth(exprs, ev, store):
    """CPython evaluates the expression source; names are looked up in the spec environment"""
    def v(s):
        return o_env_val(split_name(s), ev, store)
    srcs = [ex_src(x, nm=lambda n: f"_v({dotted(n)!r})") for x in exprs]
    src = srcs[0] if len(srcs) == 1 else "any([" + ", ".join(srcs) + "])"
    try:
        return bool(eval(src, {"_v": v, "__builtins__": {"int": int, "bool": bool, "any": any}}))  # noqa: S307
    except Exception:  # an exception in the trigger expression is logged and counts as false
        return False


def oracle(scn):
    """expected runs per function (event order; decorators in order within one event), evaluations per function, and
    per decorator the events delivered – from the documented rules only"""
    decs = decs_of(scn)
    store = {e: SV(v[0], v[1]) for e, v in scn["pre"].items()}
    nf = len(scn["funcs"])
    runs = [[fi] for fi in range(nf)]
    evals = [0] * nf
    delivered = [0] * len(decs)
    ctx = 0
    alive, loads = True, 1
    for burst in scn["hist"]:
        for op in burst:
            if is_life_op(op):
                alive = op[0] == "load"
                loads += 1 if alive else 0
                continue
            ctx += 1
            old = store.get(op[1])
            new = SV(op[2], op[3]) if op[0] == "set" else None
            same = (old is None and new is None) or (old is not None and new is not None and str(old) == str(new)
                                                      and old.attrs == new.attrs)
            if same:
                continue
            if new is None:
                store.pop(op[1], None)
            else:
                store[op[1]] = new
            if not alive:
                continue                # nobody is subscribed: the change is seen by no trigger
            ev = {"e": op[1], "new": new, "old": old}
            for di, (fi, d) in enumerate(decs):
                names = dec_names(d)
                ident = dec_ident(d)
                exprs = [a["ex"] for a in flat_args(d) if a["k"] == "expr"]
                subscribed = op[1] in dec_subscribed(d)
                if subscribed:
                    delivered[di] += 1
                anym = subscribed and any(o_matches_any(ev, n) for n in names["any"])
                watched = any(o_changes(ev, n) for n in ident)
                ok = anym
                if not anym and watched and exprs:
                    evals[fi] += 1
                    ok = o_truth(exprs, ev, store)
                if ok:
                    base = [["trigger_type", "state"], ["var_name", op[1]], ["value", o_show(new)],
                            ["old_value", o_show(old)]]
                    for k, val in (d["kwargs"] or {}).items():
                        for b in base:
                            if b[0] == k:
                                b[1] = str(val)
                                break
                        else:
                            base.append([k, str(val)])
                    runs[fi].append([ctx] + base)
    watching = sorted(sorted({dotted(n) for n in dec_ident(d)}) for fi, d in decs for _ in range(loads))
    return {"runs": runs, "evals": evals, "delivered": delivered, "watching": watching}


# ------------------------------------------------------------------ driver output -> columns
def _runs(x):
    out = []
    for f in x:
        out.append([int(f[0])] + [[int(r[0])] + [[kv[0], kv[1]] for kv in r[1:]] for r in f[1:]])
    return out


def split(outline):
    if not outline.startswith("ok "):
        return outline, json.dumps({"err": outline})
    p = parse_sx("(" + outline[3:] + ")")
    model, spec, diag = p[0][1], p[1][1], p[2][1]
    if model and model[0] == "kwnone":
        m = {"runs": [int(v) for v in model[1]], "evals": int(model[2])}
        sp = {"runs": [int(v) for v in spec[1]], "evals": int(spec[2])}
        return json.dumps({"held": True, "kw": True, "m": m, "s": sp}), json.dumps({"spec": sp, "diag": []})
    if model and model[0] == "held":
        def hruns(x):
            # x = ["held", [delayed runs of the held decorator], [immediate runs of the plain trigger]]
            return {"held": [[int(r[0])] + [[kv[0], kv[1]] for kv in r[1:]] for r in x[1]],
                    "plain": [[int(r[0])] + [[kv[0], kv[1]] for kv in r[1:]] for r in x[2]]}
        return (json.dumps({"held": True, "m": hruns(model), "s": hruns(spec)}),
                json.dumps({"spec": {"runs": hruns(spec)}, "diag": []}))
    m = {"runs": _runs(model[1]), "evals": [int(v) for v in model[3]], "pending": [int(v) for v in model[5] if int(v)]}
    s = {"runs": _runs(spec[1]), "evals": [int(v) for v in spec[3]]}
    d = [[int(t[0]), int(t[1]), t[2]] for t in diag]
    return json.dumps({"m": m, "s": s}), json.dumps({"spec": s, "diag": d})


def _finish_model(c):
    """bring the model column into the shape of the impl column (per-function evaluation counts, names watched,
    Lean spec next to the Python oracle)"""
    try:
        ms = json.loads(c.model)
    except (TypeError, ValueError):
        return
    if "m" not in ms:
        return
    if ms.get("kw"):
        c.model = json.dumps({"obs": ms["m"], "oracle": ms["s"]}, sort_keys=True)
        return
    if ms.get("held"):
        pf = held_plain_func(c.payload)

        def flat(x):
            return sorted([[0] + r for r in x["held"]] + [[pf] + r for r in x["plain"]], key=json.dumps)
        c.model = json.dumps({"obs": {"runs": flat(ms["m"])}, "oracle": {"runs": flat(ms["s"])}}, sort_keys=True)
        return
    scn = c.payload["scn"]
    decs = decs_of(scn)
    nf = len(scn["funcs"])

    def per_func(ev):
        out = [0] * nf
        for (fi, _), n in zip(decs, ev):
            out[fi] += n
        return out
    m, s = ms["m"], ms["s"]
    orc = c.payload["_oracle"]
    obs = {"runs": m["runs"], "evals": per_func(m["evals"]), "pending": m["pending"], "watching": orc["watching"],
           "errs": []}
    spec_as_oracle = {"runs": s["runs"], "evals": per_func(s["evals"]), "delivered": orc["delivered"],
                      "watching": orc["watching"]}
    c.model = json.dumps({"obs": obs, "oracle": spec_as_oracle}, sort_keys=True)


_orig_execute = common._execute


def _execute(mod, cases, br):
    _orig_execute(mod, cases, br)
    if mod.PROP == PROP:
        for c in cases:
            _finish_model(c)


common._execute = _execute


# ------------------------------------------------------------------ the property, checked on the implementation
def _diff(c):
    """compare impl with the oracle; returns list of (category, detail)"""
    obs, orc = c.payload["_impl"], c.payload["_oracle"]
    if "crash" in obs:
        return [("unexplained", "harness-crash " + obs["crash"])]
    if c.payload.get("kind") == "kwnone":
        if obs == orc:
            return []
        # the known shape: nothing ever runs, legacy evaluates up to the first qualifying change, new never
        first = next((i + 1 for i, v in enumerate(c.payload["vals"]) if v == "1"), len(c.payload["vals"]))
        dead = {"runs": [], "evals": first if c.payload["legacy"] else 0}
        if obs == dead and orc["runs"]:
            return [("both:kwargs-explicit-None-kills-trigger", f"runs {obs['runs']} expected {orc['runs']}")]
        if obs == dead:
            return []       # nothing qualifies in this history: the dead trigger is not observable
        return [("unexplained", f"kwargs=None: got {obs} expected {orc}")]
    if c.payload.get("kind") == "held":
        if obs["runs"] != orc["runs"]:
            return [("unexplained", f"held run kwargs: got {json.dumps(obs['runs'])[:300]} expected "
                                    f"{json.dumps(orc['runs'])[:300]}")]
        return []
    scn = c.payload["scn"]
    decs = decs_of(scn)
    try:
        diag = json.loads(c.spec).get("diag", []) if c.spec else []
    except (TypeError, ValueError):
        diag = []
    tags = {}
    for di, ctx, tag in diag:
        fi = decs[di][0] if di < len(decs) else -1
        tags.setdefault((fi, ctx), set()).add(tag)
        if tag == "watch-subset":
            tags.setdefault((fi, "ws"), set()).add(tag)
    burst = any(len(b) > 1 for b in scn["hist"])
    out = []
    for fo, fe in zip(obs["runs"], orc["runs"]):
        fi = fo[0]
        got, exp = fo[1:], fe[1:]
        key = lambda r: json.dumps(r)  # noqa: E731
        g, e = sorted(map(key, got)), sorted(map(key, exp))
        if g != e:
            gm, em = list(g), list(e)
            for x in list(gm):
                if x in em:
                    gm.remove(x)
                    em.remove(x)
            for x, what in [(y, "extra") for y in gm] + [(y, "missing") for y in em]:
                ctx = json.loads(x)[0]
                t = tags.get((fi, ctx), set())
                if "undef" in t:
                    out.append(("both:unwatched-name-undefined-raises", f"f{fi} ctx {ctx} {what}"))
                elif "live" in t and (burst or ("watch-subset" in tags.get((fi, "ws"), set()))):
                    out.append(("both:unbound-name-read-live-in-burst", f"f{fi} ctx {ctx} {what}"))
                else:
                    out.append(("unexplained", f"f{fi} ctx {ctx} run {what}: {x[:120]}"))
        else:
            ctxs = [r[0] for r in got]
            if ctxs != sorted(ctxs):
                if len(scn["funcs"][fi]["decs"]) > 1 and burst:
                    out.append(("both:stacked-decorators-burst-order", f"f{fi} start order {ctxs}"))
                else:
                    out.append(("unexplained", f"f{fi} runs out of event order {ctxs}"))
    if obs["evals"] != orc["evals"]:
        out.append(("unexplained", f"expression evaluations per function {obs['evals']} expected {orc['evals']}"))
    if obs["pending"]:
        out.append(("unexplained", f"messages left in trigger queues {obs['pending']}"))
    if obs["watching"] != orc["watching"]:
        out.append(("unexplained", f"watched names {obs['watching']} expected {orc['watching']}"))
    return out


PRIORITY = ["unexplained", "both:kwargs-explicit-None-kills-trigger", "both:unwatched-name-undefined-raises",
            "both:unbound-name-read-live-in-burst", "both:stacked-decorators-burst-order"]


def verdict(c):
    d = _diff(c)
    if not d:
        return None
    d.sort(key=lambda t: PRIORITY.index(t[0]))
    sub = "legacy" if c.payload["legacy"] else "new"
    return f"{d[0][0]} | {sub}: " + "; ".join(x[1] for x in d[:4])


def classify(c, reason):
    cat = reason.split(" | ")[0]
    if cat == "unexplained":
        detail = re.sub(r"\d+", "N", reason.split(": ", 1)[-1])[:50]
        return f"unexplained:{'legacy' if c.payload['legacy'] else 'new'}:{detail}"
    return cat


def replay_cases(obj):
    p = obj["case"]
    if p.get("kind") == "held":
        return [make_held_case(p)]
    if p.get("kind") == "kwnone":
        return [make_kwnone_case(p)]
    return [make_case(p["scn"], p["legacy"])]


def _rerun(scn, legacy):
    c = make_case(scn, legacy)
    run_impl([c])
    o = common.drive([c.line])[0]
    c.model, c.spec = split(o)
    _finish_model(c)
    return c


def shrink(c, reason):
    """greedy: drop bursts, operations, functions, decorators while the same signature is reported"""
    if c.payload.get("kind") in ("held", "kwnone"):
        return c
    sig = classify(c, reason)
    scn, legacy = json.loads(json.dumps(c.payload["scn"])), c.payload["legacy"]
    best = c
    budget = 60

    def still(s):
        nonlocal budget
        if budget <= 0 or not s["funcs"] or not s["hist"]:
            return None
        budget -= 1
        try:
            c2 = _rerun(s, legacy)
        except Exception:  # pylint: disable=broad-except
            return None
        r = verdict(c2)
        return c2 if r and classify(c2, r) == sig else None
    changed = True
    while changed and budget > 0:
        changed = False
        cands = []
        for i in range(len(scn["funcs"])):
            if len(scn["funcs"]) > 1:
                s = json.loads(json.dumps(scn))
                del s["funcs"][i]
                cands.append(s)
        for i, f in enumerate(scn["funcs"]):
            for j in range(len(f["decs"])):
                if len(f["decs"]) > 1:
                    s = json.loads(json.dumps(scn))
                    del s["funcs"][i]["decs"][j]
                    cands.append(s)
        for i, b in enumerate(scn["hist"]):
            for j in range(len(b)):
                s = json.loads(json.dumps(scn))
                del s["hist"][i][j]
                s["hist"] = [x for x in s["hist"] if x]
                cands.append(s)
        for s in cands:
            c2 = still(s)
            if c2 is not None:
                scn, best, changed = s, c2, True
                break
    return best


def extra_coverage(cases):
    held = [c for c in cases if c.payload.get("kind") == "held"]
    cases = [c for c in cases if c.payload.get("kind") not in ("held", "kwnone")]
    n_runs = sum(len(f) - 1 for c in cases for f in c.payload.get("_oracle", {}).get("runs", []))
    n_evals = sum(sum(c.payload.get("_oracle", {}).get("evals", [])) for c in cases)
    n_deliv = sum(sum(c.payload.get("_oracle", {}).get("delivered", [])) for c in cases)
    n_ops = sum(1 for c in cases for b in c.payload["scn"]["hist"] for op in b if not is_life_op(op))
    return {"held_kwargs_cases": len(held),
            "held_delayed_runs_expected": sum(len(c.payload.get("_oracle", {}).get("runs", [])) for c in held),
            "operations_issued": n_ops, "events_delivered_to_decorators": n_deliv,
            "expected_runs": n_runs, "expected_expression_evaluations": n_evals,
            "oracle": "independent Python oracle (CPython eval of the expression source on the spec environment); "
                      "Lean Spec.funcRuns/stEvals compared with it on every case"}
