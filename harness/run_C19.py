"""C19 correspondence: real ZmqSocket / Kernel (in-memory streams) vs the Lean model."""
import asyncio
import hashlib
import hmac
import json
import logging
import os
import re

import common
from common import Case, sx, parse_sx

PROP = "C19"
RULE = ("frame lists with lengths around 0/1/255/256/65535/65536 and random contents x fragmentations (all cut "
        "positions for short streams, random otherwise); malformed streams (random bytes, command frames, truncations); "
        "heartbeat send/recv; request sequences (execute/complete/is_complete/kernel_info/comm/unknown) with valid "
        "signatures, single-bit corruptions and wrong keys, pushed through the real shell_listen.  A case is non-trivial "
        "when it has at least one frame / request; distinct by payload.  Round 4: greetings (valid / wrong signature, version, "
        "mechanism / garbage / HTTP / truncated) x fragmentations through the real handshake; wire frame lists (identity "
        "counts 0-6, delimiter missing / doubled / as identity, short, bad JSON / UTF-8, bad and non-hex signatures, extra "
        "buffers) through deserialize_wire_msg and send; sessions of 1-18 messages over the real shell / control / iopub / stdin "
        "listeners with every message type, malformed messages and pathological-but-legal code strings; housekeeping queues; "
        "heartbeat pings; whole shell connections fed malformed byte streams next to a healthy connection.")
ASSUMPTIONS = [
    "asyncio.StreamReader.read(k) returns a non-empty prefix of the buffered bytes (modelled by readChunk)",
    "hmac/hashlib are a MAC: modelled as an uninterpreted function `sign` (C19_auth is decision logic over it)",
    "json encoding/decoding and uuid/date header fields are masked, not modelled",
    "round 4: whether a frame decodes as JSON, what the decoded request says, what AstEval.parse does with a code string (class of "
    "the exception, its message test, its lineno) and the result of a cell are computed from the real objects and passed to the model",
    "LinenoSane: a line number reported by CPython's parser lies inside the source (checked on every generated code string)",
]
TRUSTED = ["tools/extract.py (ZMTP constants from the AST of send_multipart/send/recv)",
           "tools/extractors/C19.py (reply tables and branch shapes of shell_handler / control_listen, greeting literals and read "
           "sizes of handshake, send_cmd constants)",
           "harness/run_C19.py (in-memory streams, canonicalisation)",
           "modelled not verified: asyncio streams, hmac, json; the interpreter run of a cell is the parameter `run`"]

KEY = b"k3y-0123456789"


def hx(b):
    return b.hex() if b else "-"


# ------------------------------------------------------------------ generators
LENS = [0, 1, 2, 5, 254, 255, 256, 257, 300, 65535, 65536, 65537]


def rand_bytes(rng, n):
    if n > 2000:
        b = bytes([rng.randrange(256)]) * n
        return b
    return bytes(rng.randrange(256) for _ in range(n))


def fragmentations(rng, n, tier, exhaustive_limit=24):
    """cut-position sets for a stream of n bytes"""
    outs = [[]]  # unfragmented
    if n <= 1:
        return outs
    outs.append(list(range(1, n)) if n <= 4000 else [1, 2, 3, 9, 10, 11])  # 1-byte chunks
    if n <= exhaustive_limit:
        for c in range(1, n):
            outs.append([c])
        for c in range(1, n - 1):
            outs.append([c, c + 1])
    k = 6 if tier == "quick" else 30
    for _ in range(k):
        m = rng.randrange(1, min(8, n))
        outs.append(sorted(set(rng.randrange(1, n) for _ in range(m))))
    return outs


def cut(b, cuts):
    pts = [0] + list(cuts) + [len(b)]
    return [b[pts[i]:pts[i + 1]] for i in range(len(pts) - 1)]


def gen_cases(rng, tier, search):
    n_rand = 60 if tier == "quick" else 600
    if search:
        n_rand *= 5
    cases = []
    # --- frame lists: boundary lengths
    frame_lists = []
    for ln in LENS:
        frame_lists.append([rand_bytes(rng, ln)])
        frame_lists.append([rand_bytes(rng, ln), b""])
        frame_lists.append([b"", rand_bytes(rng, ln), b"x"])
    for _ in range(n_rand):
        k = rng.randrange(1, 6)
        frame_lists.append([rand_bytes(rng, rng.choice([0, 1, 2, 3, 7, 254, 255, 256, 257, 1000])) for _ in range(k)])
    for parts in frame_lists:
        trailing = rand_bytes(rng, rng.choice([0, 0, 1, 3]))
        cases.append(Case({"kind": "roundtrip", "parts": [hx(p) for p in parts], "trailing": hx(trailing)}, None,
                          tags=("roundtrip", "long" if any(len(p) > 255 for p in parts) else "short")))
    # --- heartbeat
    for ln in LENS[:9] + [rng.randrange(0, 600) for _ in range(n_rand // 4)]:
        cases.append(Case({"kind": "single", "msg": hx(rand_bytes(rng, ln))}, None, tags=("single",)))
    # --- malformed / arbitrary streams
    for _ in range(n_rand * 2):
        choice = rng.randrange(5)
        if choice == 0:
            b = rand_bytes(rng, rng.randrange(0, 12))
        elif choice == 1:   # valid message truncated
            parts = [rand_bytes(rng, rng.choice([0, 1, 3, 256])) for _ in range(rng.randrange(1, 4))]
            b = py_encode(parts)
            b = b[:rng.randrange(0, len(b))]
        elif choice == 2:   # command frame (possibly malformed) then a message
            body = rand_cmd_body(rng)
            b = bytes([4 + rng.choice([0, 1]), len(body)]) + body + py_encode([rand_bytes(rng, 3)])
        elif choice == 3:   # small flags / lengths soup
            b = bytes(rng.choice([0, 1, 2, 3, 4, 5, 6, 7, 0, 1]) if i % 3 == 0 else rng.randrange(0, 4)
                      for i in range(rng.randrange(1, 14)))
        else:               # valid message with a flipped flag byte
            parts = [rand_bytes(rng, rng.choice([0, 1, 2])) for _ in range(rng.randrange(1, 4))]
            bb = bytearray(py_encode(parts) + rand_bytes(rng, 2))
            bb[0] ^= rng.choice([1, 2, 4, 8, 3])
            b = bytes(bb)
        for cuts in fragmentations(rng, len(b), "quick", exhaustive_limit=0)[:3]:
            cases.append(Case({"kind": "stream", "chunks": [hx(c) for c in cut(b, cuts)]}, None, tags=("stream",)))
    # --- shell request sequences
    for _ in range(n_rand // 2):
        cases.append(Case({"kind": "shell", "reqs": gen_reqs(rng)}, None, tags=("shell",)))
    # directed: the execution counter after cells that fail / succeed with and without store_history, every run
    def rq(cell, store, mt="execute_request"):
        return {"mtype": mt, "cell": cell, "store": store, "idents": 1, "corrupt": None, "corrupt_pos": 0}
    err_cells = [i for i, c in enumerate(CELLS) if c[1] == "e"]
    val_cells = [i for i, c in enumerate(CELLS) if c[1] == "v"]
    for e in err_cells:
        for st in (False, True):
            cases.append(Case({"kind": "shell", "reqs": [rq(val_cells[0], True), rq(e, st), rq(val_cells[1], True),
                                                         rq(e, not st), rq(val_cells[2], False), rq(val_cells[0], True)]},
                              None, tags=("shell", "directed-counter")))
    for mt in ("kernel_info_request", "is_complete_request", "complete_request", "comm_info_request", "history_request"):
        cases.append(Case({"kind": "shell", "reqs": [rq(val_cells[0], True), rq(0, True, mt), rq(err_cells[0], False), rq(0, True, mt),
                                                     rq(val_cells[1], True)]}, None, tags=("shell", "directed-counter")))
    # --- several tasks sending on ONE socket whose writer suspends in drain(): each message must stay contiguous
    for _ in range(20 if tier == "quick" else 200):
        senders = []
        for _s in range(rng.randrange(2, 5)):
            senders.append([hx(rand_bytes(rng, rng.choice([0, 1, 3, 40, 300]))) for _ in range(rng.randrange(1, 5))])
        cases.append(Case({"kind": "concurrent-send", "senders": senders}, None, tags=("concurrent-send",)))
    # --- interleaved connections: a cell on connection A is still awaiting while connection B is served
    for _ in range(14 if tier == "quick" else 150):
        nb = rng.randrange(1, 4)
        cases.append(Case({"kind": "interleave",
                           "a_cell": rng.choice(["wait_gate()\n41 + 1", "wait_gate()", "y = wait_gate()\n'done'", "wait_gate()\n1/0"]),
                           "a_idents": rng.randrange(0, 3),
                           "b": [{"mtype": rng.choice(["kernel_info_request", "is_complete_request", "complete_request",
                                                       "execute_request", "comm_info_request"]),
                                  "cell": rng.choice([0, 1, 2, 4, 6]), "idents": rng.randrange(0, 3)} for _ in range(nb)],
                           "release_after": rng.randrange(0, nb + 1)}, None, tags=("interleave",)))
    cases += gen_kernel_cases(rng, tier, search)
    for c in cases:
        c.line = None
    return cases


# ====================================================================================================================
# round 4: greeting, wire messages, every message type on every channel, housekeeping, malformed connections
# ====================================================================================================================
GREETING_OK = b"\xff" + b"\x00" * 8 + b"\x7f" + b"\x03" + b"\x00" + b"NULL" + b"\x00" * 16 + b"\x00" * 32
READY_DEALER = (lambda b: bytes([4, len(b)]) + b)(b"\x05READY\x0bSocket-Type\x00\x00\x00\x06DEALER")

PATHO = ["", " ", "   \n", "# only a comment", "\n\n\n", "\t", "x" * 20000, "'" + "y" * 3000 + "'", "\x00", "a\x00b", "'\ud800'",
         "x = '\udfff'", "1+" * 6000 + "1", "-" * 6000 + "1", "a." * 3000 + "b", "(" * 300 + ")" * 300, "[" * 90 + "]" * 90,
         "if x:", "if x:\n", "if x:  # c", "for i in x:\n  if y:", "class A:\n\n", "def f(:", "(1,", "\"\"\"abc", "x = (\n", "a\\",
         "try:\n    pass", "while 1:\n    pass\n    ", "foo(\n1,\n2", "@dec", "x = [", "'abc", "if a:\n b\n  c", "if x:\n    y\n",
         "def f():\n    return 1\n  ", "x = 1\n ", "é = 'ü'", "lambda: (yield)", "return 5", "\\", "0x", "1 +", "print('a'", "if x:\n\ty",
         "with a as b:", "async def f():", "else:", "x = 1;", ";", "1 if", "if 1:\n  pass\nelse:", "\r\n", "a = 1\r\nb"]
SHELL_TYPES = ["execute_request", "kernel_info_request", "complete_request", "is_complete_request", "comm_info_request",
               "history_request", "comm_open", "comm_msg", "comm_close", "shutdown_request", "interrupt_request", "bogus_request",
               "execute_reply", ""]
CONTROL_TYPES = ["shutdown_request", "interrupt_request", "kernel_info_request", "debug_request", "shutdown_reply"]
BAD_KINDS = ["nodelim", "short", "nosig", "badjson", "badsig"]
SOCK_TYPES = [b"ROUTER", b"REP", b"PUB"]
CONN_CASES = 40


def rand_greeting(rng):
    """(bytes, what was done to it)"""
    g = bytearray(b"\xff" + rand_bytes(rng, 8) + b"\x7f" + bytes([rng.choice([3, 3, 3, 4, 255])]) + bytes([rng.randrange(256)])
                  + b"NULL" + b"\x00" * 16 + rand_bytes(rng, 32))
    what = rng.choice(["valid", "valid", "valid", "sig0", "sig9", "version", "mech", "mechpad", "garbage", "zeros", "http", "short"])
    if what == "sig0":
        g[0] = rng.choice([0, 1, 0xfe, 0x7f])
    elif what == "sig9":
        g[9] = rng.choice([0, 0x7e, 0xff, 1])
    elif what == "version":
        g[10] = rng.choice([0, 1, 2])
    elif what == "mech":
        g[12:32] = rng.choice([b"PLAIN" + b"\x00" * 15, b"CURVE" + b"\x00" * 15, b"null" + b"\x00" * 16, b"\x00" * 20])
    elif what == "mechpad":
        g[12:32] = (b"NULL" + b"\x00" * rng.randrange(0, 15) + b"\x01" + b"\x00" * 20)[:20]
    elif what == "garbage":
        g = bytearray(rand_bytes(rng, 64))
    elif what == "zeros":
        g = bytearray(64)
    elif what == "http":
        g = bytearray((b"GET / HTTP/1.1\r\nHost: x\r\n\r\n" + b"a" * 64)[:64])
    elif what == "short":
        g = g[:rng.randrange(0, 64)]
    return bytes(g), what


def greeting_valid(g):
    """independent statement of the ZMTP 3.x NULL greeting grammar"""
    return (len(g) == 64 and g[0] == 0xFF and g[9] == 0x7F and g[10] >= 3 and g[12:32] == b"NULL" + b"\x00" * 16)


def gen_events(rng, patho_p=0.5):
    n = rng.randrange(1, 7)
    evs = []
    bad_at = rng.randrange(n) if rng.random() < 0.3 else None
    for k in range(n):
        ch = rng.choice(["shell"] * 6 + ["control"] * 2 + ["iopub", "stdin"])
        mt = rng.choice(SHELL_TYPES[:9] * 2 + SHELL_TYPES) if ch != "control" else rng.choice(CONTROL_TYPES)
        if mt == "execute_request":
            code = rng.randrange(len(CELLS))       # index into CELLS
        else:
            code = rng.choice(PATHO) if rng.random() < patho_p else CELLS[rng.randrange(len(CELLS))][0]
        kind = "ok" if rng.random() < 0.85 else "extra"
        if k == bad_at and ch in ("shell", "control"):
            kind = rng.choice(BAD_KINDS)
        evs.append({"ch": ch, "kind": kind, "mtype": mt, "code": code, "store": rng.random() < 0.8, "idents": rng.randrange(0, 4),
                    "badvar": rng.randrange(4)})
    return evs


def gen_kernel_cases(rng, tier, search):
    q = tier == "quick"
    mul = 5 if search else 1
    cases = []
    # --- greetings through the real ZmqSocket.handshake
    for _ in range((40 if q else 600) * mul):
        g, what = rand_greeting(rng)
        tail = rand_bytes(rng, rng.choice([0, 0, 1, 5, 40]))
        stream = g + (tail if what != "short" else b"")
        cuts = rng.choice(fragmentations(rng, len(stream), "quick", exhaustive_limit=0))
        cases.append(Case({"kind": "hs", "type": rng.choice(SOCK_TYPES).decode(), "chunks": [hx(c) for c in cut(stream, cuts)],
                           "what": what, "glen": len(g)}, None, tags=("hs", "hs-" + what)))
    # --- wire messages through the real deserialize_wire_msg / send
    for _ in range((120 if q else 1200) * mul):
        nid = rng.choice([0, 0, 1, 1, 2, 3, 6])
        ids = [rng.choice([b"id%d" % j, b"", b"\x00\x01", b"<IDS|MSG", b"<IDS|MSG> ", rand_bytes(rng, 5)]) for j in range(nid)]
        hdr = json.dumps({"msg_id": "x", "msg_type": "kernel_info_request"}).encode()
        frames = [hdr, b"{}", b"{}", b"{}"] + [rng.choice([b"buf", b"<IDS|MSG>", b"", b"\xff\xfe"]) for _ in range(rng.choice([0, 0, 0, 1, 2]))]
        what = rng.choice(["ok", "ok", "ok", "nodelim", "short", "nosig", "badjson", "badutf8", "badsig", "nonhexsig", "delimident",
                           "twodelim", "sigfirst4", "empty", "swapped"])
        if what == "short":
            frames = frames[:rng.randrange(0, 4)]
        if what == "badjson" and len(frames) >= 4:
            frames[rng.randrange(4)] = rng.choice([b"{not json", b"", b"{'a': 1}", b"[1,"])
        if what == "badutf8" and len(frames) >= 4:
            frames[rng.randrange(4)] = b'{"a": "\xff"}'
        if what == "swapped" and len(frames) >= 4:
            frames[0], frames[3] = frames[3], frames[0]
        sig = sign(KEY, frames)
        if what == "badsig":
            sb = bytearray(sig)
            i = rng.randrange(len(sb))
            sb[i] = ord("0") if sb[i] != ord("0") else ord("1")
            sig = bytes(sb)
        if what == "nonhexsig":
            sig = rng.choice([b"", b"zz", sig.upper(), sig[:-1], sig + b"0", b"\xff" * 64])
        if what == "sigfirst4" and len(frames) > 4:
            sig = sign(KEY, frames[:4])
        wire = ids + [b"<IDS|MSG>", sig] + frames
        if what == "nodelim":
            wire = ids + [sig] + frames
        if what == "nosig":
            wire = ids + [b"<IDS|MSG>"]
        if what == "delimident":
            wire = [b"<IDS|MSG>"] + wire
        if what == "twodelim":
            wire = ids + [b"<IDS|MSG>"] + wire
        if what == "empty":
            wire = []
        cases.append(Case({"kind": "des", "wire": [hx(f) for f in wire], "what": what}, None, tags=("des", "des-" + what)))
    for _ in range((12 if q else 100) * mul):
        cases.append(Case({"kind": "ser", "idents": [hx(rand_bytes(rng, rng.choice([0, 1, 5]))) for _ in range(rng.randrange(0, 4))],
                           "mtype": rng.choice(["status", "x_reply"])}, None, tags=("ser",)))
    # --- is_complete / complete decisions on code strings (real handler, one request each, session must stay alive)
    codes = list(PATHO) + [c[0] for c in CELLS]
    for _ in range((40 if q else 400) * mul):
        base = rng.choice(codes)
        if len(base) < 200 and rng.random() < 0.7:
            base = base + rng.choice(["", "\n", "\n    ", "\n  ", ":", ":\n", " # c", "\n\n", "  ", "\n x:", "(", "\\"])
        codes.append(base)
    rng.shuffle(codes)
    per = 12
    for i in range(0, len(codes), per):
        cases.append(Case({"kind": "code", "codes": codes[i:i + per]}, None, tags=("code",)))
    # --- sessions: every message type on every channel, bad messages, shutdown
    for _ in range((70 if q else 700) * mul):
        cases.append(Case({"kind": "sess", "events": gen_events(rng)}, None, tags=("sess",)))
    # every type once, in one session, then shutdown on control
    allev = [{"ch": "shell", "kind": "ok", "mtype": mt, "code": (1 if mt == "execute_request" else "if x:"), "store": True, "idents": 2,
              "badvar": 0} for mt in SHELL_TYPES] + \
            [{"ch": "control", "kind": "ok", "mtype": mt, "code": "", "store": True, "idents": 1, "badvar": 0}
             for mt in ["interrupt_request", "kernel_info_request", "shutdown_request", "shutdown_request"]] + \
            [{"ch": "shell", "kind": "ok", "mtype": "kernel_info_request", "code": "", "store": True, "idents": 0, "badvar": 0}]
    cases.append(Case({"kind": "sess", "events": allev}, None, tags=("sess", "sess-all-types")))
    for bk in BAD_KINDS:
        for ch in ("shell", "control"):
            cases.append(Case({"kind": "sess", "events": [allev[1], dict(allev[0], ch=ch, kind=bk), allev[1]]}, None,
                              tags=("sess", "sess-bad")))
    # --- housekeeping queue
    for _ in range((60 if q else 600) * mul):
        n = rng.randrange(1, 14)
        evs, reg = [], 0
        for _i in range(n):
            e = rng.choice(["register"] * 4 + ["unregister"] * 3 + ["stdout", "handshake", "shutdown", "external"])
            if e == "unregister" and reg == 0:
                e = "register"
            reg += 1 if e == "register" else (-1 if e == "unregister" else 0)
            evs.append(e)
        cases.append(Case({"kind": "hk", "events": evs}, None, tags=("hk",)))
    cases.append(Case({"kind": "hk", "events": ["register"] * 5 + ["unregister"] * 5 + ["shutdown", "external", "shutdown"]}, None,
                      tags=("hk",)))
    # --- heartbeat
    for _ in range((15 if q else 150) * mul):
        m = rand_bytes(rng, rng.choice([0, 1, 4, 255, 256, 300]))
        parts = rng.choice([[b"", m], [m], [b"", m[:2], m[2:]]])
        stream = py_encode(parts)
        cuts = rng.choice(fragmentations(rng, len(stream), "quick", exhaustive_limit=0))
        cases.append(Case({"kind": "hb", "chunks": [hx(c) for c in cut(stream, cuts)]}, None, tags=("hb",)))
    # --- one shell connection fed a malformed byte stream, a healthy second connection next to it
    for _ in range((CONN_CASES if q else CONN_CASES * 10) * mul):
        cases.append(Case({"kind": "conn", "spec": gen_conn(rng)}, None, tags=("conn",)))
    return cases


def gen_conn(rng):
    """a byte stream for one shell connection: greeting, READY, then messages with one thing wrong (or nothing)"""
    g, gwhat = rand_greeting(rng) if rng.random() < 0.3 else (GREETING_OK, "valid")
    msgs = []
    nmsg = rng.randrange(1, 4)
    fault = rng.choice(["none", "none", "truncate", "oversize", "more-last", "badjson", "nonhexsig", "replay", "cmd-bad", "nodelim",
                        "short", "flip-byte", "cmd-mid"])
    for _k in range(nmsg):
        mt = rng.choice(SHELL_TYPES[:9])
        msgs.append({"mtype": mt, "cell": rng.randrange(len(CELLS)), "idents": rng.randrange(0, 3), "store": rng.random() < 0.8})
    return {"greeting": hx(g), "gwhat": gwhat, "ready": rng.random() < 0.85, "msgs": msgs, "fault": fault,
            "fault_at": rng.randrange(nmsg), "pos": rng.randrange(1 << 16), "eof": rng.random() < 0.7,
            "cutseed": rng.randrange(1 << 20)}


def rand_cmd_body(rng):
    name = b"READY"
    if rng.random() < 0.2:
        return b""
    body = bytes([len(name)]) + name
    for _ in range(rng.randrange(0, 3)):
        p = b"Socket-Type"
        v = rand_bytes(rng, rng.randrange(0, 5))
        body += bytes([len(p)]) + p + len(v).to_bytes(4, "big") + v
    if rng.random() < 0.3:
        body = body[:rng.randrange(1, len(body) + 1)]
    return body


def py_encode(parts):
    """independent reference encoder (ZMTP 3.0 framing as the spec column)"""
    out = b""
    for i, p in enumerate(parts):
        more = 1 if i < len(parts) - 1 else 0
        if len(p) <= 255:
            out += bytes([more, len(p)]) + p
        else:
            out += bytes([more | 2]) + len(p).to_bytes(8, "big") + p
    return out


CELLS = [("x = 1", "none"), ("1 + 2", "v"), ("1/0", "e"), ("x = 5\nx * 2", "v"), ("None", "none"),
         ("undefined_name_zz", "e"), ("'a' * 3", "v"), ("def f():\n    return 4\nf()", "v"), ("pass", "none"),
         ("raise ValueError('boom')", "e"), ("print('hello')", "none"), ("log.info('out')\n7", "v"),
         ("print('a')\nprint('b c')\n'r' + 's'", "v"), ("for i in range(3):\n    print(i)", "none"),
         ("print('é ü')\n[1, 'two', None]", "v"), ("print('before')\n1/0", "e"), ("{'k': (1, 2)}", "v"),
         ("print('')", "none"), ("''", "v"), ("0", "v")]
# (print takes exactly one argument in pyscript – documented: "print(str): same as log.debug(str); currently print doesn't
# support other arguments")


def cell_expectation(code):
    """what the cell produces according to CPython: (text/plain of the last expression or None, stdout text, exception class)"""
    import ast
    import contextlib
    import io
    if "log.info" in code:
        return ("7", "out\n", None)           # pyscript's log.info is forwarded to the console as a stdout line
    tree = ast.parse(code)
    last = tree.body[-1] if tree.body and isinstance(tree.body[-1], ast.Expr) else None
    body = tree.body[:-1] if last is not None else tree.body
    ns, out, val, exc = {}, io.StringIO(), None, None
    with contextlib.redirect_stdout(out):
        try:
            exec(compile(ast.Module(body=body, type_ignores=[]), "cell", "exec"), ns)  # pylint: disable=exec-used
            if last is not None:
                val = eval(compile(ast.Expression(body=last.value), "cell", "eval"), ns)  # pylint: disable=eval-used
        except Exception as e:  # pylint: disable=broad-except
            exc = type(e).__name__
    return (None if val is None else repr(val), out.getvalue(), exc)
MTYPES = ["execute_request", "execute_request", "execute_request", "kernel_info_request", "complete_request",
          "is_complete_request", "comm_info_request", "history_request", "comm_open", "comm_msg", "bogus_request"]


def gen_reqs(rng):
    reqs = []
    n = rng.randrange(1, 7)
    bad_at = rng.randrange(n) if rng.random() < 0.45 else None
    for i in range(n):
        mt = rng.choice(MTYPES)
        cell = rng.randrange(len(CELLS))
        corrupt = None
        if i == bad_at:
            corrupt = rng.choice(["bitflip-sig", "bitflip-frame", "wrong-key", "swap-frames", "empty-sig", "drop-frame"])
        reqs.append({"mtype": mt, "cell": cell, "store": rng.random() < 0.8, "idents": rng.randrange(0, 3),
                     "corrupt": corrupt, "corrupt_pos": rng.randrange(1 << 16)})
    return reqs


# ------------------------------------------------------------------ running the implementation
class FakeWriter:
    def __init__(self):
        self.buf = bytearray()
        self.closed = False

    def write(self, b):
        self.buf += bytes(b)

    async def drain(self):
        pass

    def close(self):
        self.closed = True


class YieldingWriter(FakeWriter):
    """a transport under back-pressure: drain() lets other tasks run"""
    async def drain(self):
        for _ in range(3):
            await asyncio.sleep(0)


async def impl_concurrent_send(senders):
    from custom_components.pyscript.jupyter_kernel import ZmqSocket
    w = YieldingWriter()
    sock = ZmqSocket(None, w, "PUB")
    await asyncio.gather(*[sock.send_multipart(parts) for parts in senders])
    return bytes(w.buf)


async def feed_chunks(reader, chunks, eof=True):
    for c in chunks:
        if c:
            reader.feed_data(c)
        for _ in range(4):
            await asyncio.sleep(0)
    if eof:
        reader.feed_eof()


async def impl_recv(chunks, single=False):
    from custom_components.pyscript.jupyter_kernel import ZmqSocket
    reader = asyncio.StreamReader()
    sock = ZmqSocket(reader, FakeWriter(), "ROUTER")
    feeder = asyncio.ensure_future(feed_chunks(reader, chunks))
    try:
        res = await (sock.recv() if single else sock.recv_multipart())
    except EOFError:
        await feeder
        return "err eof"
    except (IndexError, Exception) as e:  # struct.error, IndexError from the command parser
        feeder.cancel()
        return "err badcommand" if type(e).__name__ in ("IndexError", "error") else f"err {type(e).__name__}"
    await feeder
    rest = bytes(reader._buffer)
    if single:
        return f"ok {hx(res)} {hx(rest)}"
    return "ok (" + " ".join(hx(p) for p in res) + ") " + hx(rest)


async def impl_send_multipart(parts):
    from custom_components.pyscript.jupyter_kernel import ZmqSocket
    w = FakeWriter()
    await ZmqSocket(None, w, "ROUTER").send_multipart(parts)
    return bytes(w.buf)


async def impl_send(msg):
    from custom_components.pyscript.jupyter_kernel import ZmqSocket
    w = FakeWriter()
    await ZmqSocket(None, w, "REP").send(msg)
    return bytes(w.buf)


def sign(key, frames):
    h = hmac.new(key, digestmod=hashlib.sha256)
    for f in frames:
        h.update(f)
    return h.hexdigest().encode()


def build_wire(req, idx):
    header = {"msg_id": f"m{idx}", "msg_type": req["mtype"], "session": "s", "username": "u", "version": "5.3"}
    code = CELLS[req["cell"]][0]
    content = {"code": code, "cursor_pos": len(code), "store_history": req["store"], "silent": False}
    frames = [json.dumps(header).encode(), b"{}", b"{}", json.dumps(content).encode()]
    sig = sign(KEY, frames)
    idents = [f"id{j}".encode() for j in range(req["idents"])]
    c = req["corrupt"]
    pos = req["corrupt_pos"]
    if c == "bitflip-sig":
        s = bytearray(sig)
        i = pos % len(s)
        s[i] = ord("0") if s[i] != ord("0") else ord("1")
        sig = bytes(s)
    elif c == "bitflip-frame":
        # flip one character inside the code string / header so that the JSON still parses
        fi = 3 if pos % 2 else 0
        txt = frames[fi].decode()
        j = txt.index("store_history") if fi == 3 else txt.index("session")
        frames[fi] = (txt[:j] + ("S" if txt[j] != "S" else "T") + txt[j + 1:]).encode()
    elif c == "wrong-key":
        sig = sign(b"other-key", frames)
    elif c == "swap-frames":
        frames[1], frames[2] = b"{} ", b"{}"
    elif c == "empty-sig":
        sig = b""
    elif c == "drop-frame":
        sig = sign(KEY, frames[:3])
    return idents + [b"<IDS|MSG>", sig] + frames, idents, header


def decode_out(parts, stream, header_ids):
    i = parts.index(b"<IDS|MSG>")
    idents = parts[:i]
    sig = parts[i + 1]
    frames = parts[i + 2:]
    hdr = json.loads(frames[0])
    parent = json.loads(frames[1])
    content = json.loads(frames[3])
    ok_sig = sign(KEY, frames) == sig
    return {"stream": stream, "idents": idents, "type": hdr["msg_type"], "parent": parent.get("msg_id"),
            "content": content, "signed": ok_sig, "nframes": len(frames)}


async def impl_shell(reqs):
    """push the requests through the real shell_listen; returns (canonical string, details)"""
    import interp_env
    from custom_components.pyscript.jupyter_kernel import Kernel, ZmqSocket
    interp_env.setup_stub(asyncio.get_running_loop())
    g, a = interp_env.new_ctx("jupyter_0")
    cfg = {"key": KEY.decode(), "signature_scheme": "hmac-sha256", "no_connect_timeout": 3000}
    k = Kernel(cfg, a, g, "jupyter_0")
    a.add_logger_handler(k.console)
    logging.disable(logging.NOTSET)
    a.get_logger().setLevel(logging.DEBUG)
    a.get_logger().propagate = False
    logging.getLogger("custom_components.pyscript.jupyter_kernel").propagate = False
    logging.getLogger("custom_components.pyscript.jupyter_kernel").setLevel(
        logging.DEBUG if os.environ.get("VERIF_DEBUG") else logging.CRITICAL)
    hk = asyncio.ensure_future(k.housekeep_run())
    # iopub subscriber
    iow = FakeWriter()
    k.iopub_socket.add(ZmqSocket(asyncio.StreamReader(), iow, "PUB"))
    sreader = asyncio.StreamReader()
    sw = FakeWriter()
    greeting = b"\xff" + b"\x00" * 8 + b"\x7f" + b"\x03" + b"\x00" * 53
    rbody = b"\x05READY\x0bSocket-Type\x00\x00\x00\x06DEALER"
    ready = bytes([4, len(rbody)]) + rbody
    sreader.feed_data(greeting + ready)
    listener = asyncio.ensure_future(k.shell_listen(sreader, sw))
    for _ in range(10):
        await asyncio.sleep(0)
    hs_len = len(sw.buf)   # handshake bytes written by the kernel
    executed_before = 0
    results = []
    dead = False
    side = []
    for idx, req in enumerate(reqs):
        wire, idents, header = build_wire(req, idx)
        g.global_sym_table.pop("__marker__", None)
        s0, i0 = len(sw.buf), len(iow.buf)
        sreader.feed_data(py_encode(wire))
        for _ in range(400):
            await asyncio.sleep(0)
            if listener.done():
                break
        # wait until idle seen or listener died
        for _ in range(2000):
            if listener.done() or b'"idle"' in bytes(iow.buf[i0:]):
                break
            await asyncio.sleep(0.001)
        for _ in range(20):
            await asyncio.sleep(0)
        outs = []
        for stream, buf in (("shell", bytes(sw.buf[s0:])), ("iopub", bytes(iow.buf[i0:]))):
            # decode with an independent frame reader
            msgs = split_msgs(buf)
            for m in msgs:
                outs.append(decode_out(m, stream, None))
        results.append({"req": idx, "outs": outs, "count_after": k.execution_count, "dead": listener.done()})
        if listener.done():
            dead = True
            break
    listener.cancel()
    hk.cancel()
    for t in (listener, hk):
        try:
            await t
        except BaseException:
            pass
    logging.disable(logging.CRITICAL)
    return results


async def impl_interleave(p):
    """two shell connections to one kernel: A's cell awaits a gate while B's requests are served"""
    import interp_env
    from custom_components.pyscript.jupyter_kernel import Kernel, ZmqSocket
    interp_env.setup_stub(asyncio.get_running_loop())
    g, a = interp_env.new_ctx("jupyter_1")
    cfg = {"key": KEY.decode(), "signature_scheme": "hmac-sha256", "no_connect_timeout": 3000}
    k = Kernel(cfg, a, g, "jupyter_1")
    a.add_logger_handler(k.console)
    a.get_logger().propagate = False
    logging.getLogger("custom_components.pyscript.jupyter_kernel").propagate = False
    logging.getLogger("custom_components.pyscript.jupyter_kernel").setLevel(logging.CRITICAL)
    hk = asyncio.ensure_future(k.housekeep_run())
    gate = asyncio.Event()
    g.global_sym_table["wait_gate"] = gate.wait
    iow = FakeWriter()
    k.iopub_socket.add(ZmqSocket(asyncio.StreamReader(), iow, "PUB"))
    greeting = b"\xff" + b"\x00" * 8 + b"\x7f" + b"\x03" + b"\x00" * 53
    rbody = b"\x05READY\x0bSocket-Type\x00\x00\x00\x06DEALER"
    ready = bytes([4, len(rbody)]) + rbody
    conns = {}
    for name in ("A", "B"):
        rd, wr = asyncio.StreamReader(), FakeWriter()
        rd.feed_data(greeting + ready)
        conns[name] = (rd, wr, asyncio.ensure_future(k.shell_listen(rd, wr)))
    for _ in range(10):
        await asyncio.sleep(0)
    hs = {n: len(conns[n][1].buf) for n in conns}

    def wire_of(msg_id, mtype, code, nid, tag):
        header = {"msg_id": msg_id, "msg_type": mtype, "session": "s", "username": "u", "version": "5.3"}
        content = {"code": code, "cursor_pos": len(code), "store_history": True, "silent": False}
        frames = [json.dumps(header).encode(), b"{}", b"{}", json.dumps(content).encode()]
        return [f"{tag}{j}".encode() for j in range(nid)] + [b"<IDS|MSG>", sign(KEY, frames)] + frames

    async def settle(n=60):
        for _ in range(n):
            await asyncio.sleep(0)
        await asyncio.sleep(0.002)
        for _ in range(n):
            await asyncio.sleep(0)

    reqs = [{"id": "ma", "conn": "A", "mtype": "execute_request", "code": p["a_cell"]}]
    conns["A"][0].feed_data(py_encode(wire_of("ma", "execute_request", p["a_cell"], p["a_idents"], "ia")))
    await settle()
    for i, b in enumerate(p["b"]):
        if i == p["release_after"]:
            gate.set()
            await settle()
        code = CELLS[b["cell"]][0]
        reqs.append({"id": f"mb{i}", "conn": "B", "mtype": b["mtype"], "code": code})
        conns["B"][0].feed_data(py_encode(wire_of(f"mb{i}", b["mtype"], code, b["idents"], "ib")))
        await settle()
    gate.set()
    await settle(200)
    outs = []
    for name in conns:
        for m in split_msgs(bytes(conns[name][1].buf[hs[name]:])):
            outs.append(decode_out(m, "shell" + name, None))
    for m in split_msgs(bytes(iow.buf)):
        outs.append(decode_out(m, "iopub", None))
    for t in [c[2] for c in conns.values()] + [hk]:
        t.cancel()
        try:
            await t
        except BaseException:  # pylint: disable=broad-except
            pass
    return reqs, outs


def interleave_verdict(c):
    reqs, outs = c.payload["_reqs"], c.payload["_outs"]
    ids = {r["id"] for r in reqs}
    problems = []
    for o in outs:
        if o["type"] != "stream" and o["parent"] not in ids:
            problems.append(f"{o['stream']} {o['type']} carries parent {o['parent']!r}, which is no request of this run")
    for r in reqs:
        mine = [o for o in outs if o["parent"] == r["id"]]
        reply_t = r["mtype"].replace("_request", "_reply")
        own = [o for o in mine if o["stream"] == "shell" + r["conn"]]
        other = [o for o in mine if o["stream"].startswith("shell") and o["stream"] != "shell" + r["conn"]]
        if [o["type"] for o in own] != [reply_t]:
            problems.append(f"request {r['id']} ({r['mtype']}) on connection {r['conn']}: replies with it as parent on its own "
                            f"connection: {[o['type'] for o in own]}, expected exactly [{reply_t}]")
        if other:
            problems.append(f"request {r['id']}: a reply with it as parent went to the other connection")
        st = [o["content"]["execution_state"] for o in mine if o["stream"] == "iopub" and o["type"] == "status"]
        if st != ["busy", "idle"]:
            problems.append(f"request {r['id']} ({r['mtype']}): status broadcasts with it as parent: {st}, expected busy, idle")
        if r["mtype"] == "execute_request":
            n_in = sum(1 for o in mine if o["stream"] == "iopub" and o["type"] == "execute_input")
            if n_in != 1:
                problems.append(f"request {r['id']}: {n_in} execute_input broadcasts with it as parent")
    return "; ".join(problems[:3]) if problems else None


def split_msgs(buf):
    """independent parser of the bytes a socket wrote -> list of multipart messages"""
    msgs, cur, i = [], [], 0
    while i < len(buf):
        flag = buf[i]
        if flag & 2:
            ln = int.from_bytes(buf[i + 1:i + 9], "big")
            i += 9
        else:
            ln = buf[i + 1]
            i += 2
        body = buf[i:i + ln]
        i += ln
        if flag & 4:
            continue
        cur.append(bytes(body))
        if not flag & 1:
            msgs.append(cur)
            cur = []
    return msgs


def canon_shell(reqs, results):
    """render impl results in the driver's output format; also the order the streams interleave is per-stream"""
    out = []
    for r in results:
        req = reqs[r["req"]]
        if r["dead"] and not r["outs"]:
            out.append("rejected")
            break
        # driver order: busy, (execute_input, [execute_result]), reply, [error], idle -- iopub and shell are separate
        # byte streams, so only per-stream order is observable; render in the model's canonical interleaving
        iop = [o for o in r["outs"] if o["stream"] == "iopub" and o["type"] != "stream"]
        shl = [o for o in r["outs"] if o["stream"] == "shell"]
        seq = []

        def ren(o):
            t = o["type"]
            c = o["content"]
            if t == "status":
                t = "status:" + c["execution_state"]
            if t == "execute_reply":
                t = "execute_reply:" + c["status"]
            cnt = c.get("execution_count", "-") if isinstance(c, dict) else "-"
            pay = "-"
            if t == "execute_result":
                pay = "3"
            if t in ("execute_reply:error", "error"):
                pay = "2"
            par = o["parent"][1:] if o["parent"] else "-"
            ids = "(" + " ".join(hx(i) for i in o["idents"]) + ")"
            return f"({o['stream']} {ids} {t} {par} {cnt} {pay})"
        # canonical interleaving: iopub up to (not incl.) 'error'/'status:idle', then shell, then rest of iopub
        pre = []
        post = []
        for o in iop:
            t = o["type"]
            if t == "error" or (t == "status" and o["content"]["execution_state"] == "idle"):
                post.append(o)
            elif post:
                post.append(o)
            else:
                pre.append(o)
        seq = [ren(o) for o in pre] + [ren(o) for o in shl] + [ren(o) for o in post]
        out.append("(" + " ".join(seq) + f" count={r['count_after']})")
        if r["dead"]:
            out.append("rejected-after-output")
            break
    return " ".join(out)


def shell_line(reqs):
    items = []
    for i, q in enumerate(reqs):
        kind = CELLS[q["cell"]][1]
        res = ["v", 3] if kind == "v" else (["e", 2] if kind == "e" else "none")
        items.append([q["corrupt"] is None, q["mtype"], q["store"], q["cell"], res,
                      [hx(f"id{j}".encode()) for j in range(q["idents"])], i])
    return "C19 " + sx(["shell", items])


# ------------------------------------------------------------------ round 4: running the implementation
def unhx(s):
    return b"" if s == "-" else bytes.fromhex(s)


def hxl(parts):
    return "(" + " ".join(hx(p) for p in parts) + ")"


def code_bytes(code):
    return code.encode("utf-8", "surrogatepass")


def json_ok(f):
    try:
        json.loads(f.decode("utf-8"))
        return True
    except Exception:  # pylint: disable=broad-except
        return False


def parse_outcome(actx, code):
    """what AstEval.parse does with the code, as the model's ParseOutcome s-expression"""
    try:
        actx.parse(code)
        return "ok"
    except Exception as exc:  # pylint: disable=broad-except
        eof = "EOF while" in str(exc) or "expected an indented block" in str(exc)
        if not hasattr(exc, "lineno"):
            ln = "na"
        elif exc.lineno is None:
            ln = "none"
        else:
            ln = exc.lineno if exc.lineno >= 0 else "none"
        return ["exc", isinstance(exc, SyntaxError), eof, ln]


async def impl_handshake(ty, chunks):
    from custom_components.pyscript.jupyter_kernel import ZmqSocket
    reader = asyncio.StreamReader()
    w = FakeWriter()
    sock = ZmqSocket(reader, w, ty)
    feeder = asyncio.ensure_future(feed_chunks(reader, chunks))
    try:
        await sock.handshake()
        st = "ok"
    except EOFError:
        st = "eof"
    except Exception:  # pylint: disable=broad-except
        st = "bad"
    await feeder
    if st == "ok":
        return f"ok {hx(bytes(w.buf))} {hx(bytes(reader._buffer))}"
    return f"{st} {hx(bytes(w.buf))}"


def new_kernel(name):
    import interp_env
    from custom_components.pyscript.jupyter_kernel import Kernel
    interp_env.setup_stub(asyncio.get_running_loop())
    g, a = interp_env.new_ctx(name)
    cfg = {"key": KEY.decode(), "signature_scheme": "hmac-sha256", "no_connect_timeout": 3000}
    k = Kernel(cfg, a, g, name)
    a.add_logger_handler(k.console)
    a.get_logger().propagate = False
    jl = logging.getLogger("custom_components.pyscript.jupyter_kernel")
    jl.propagate = False
    jl.setLevel(logging.DEBUG if os.environ.get("VERIF_DEBUG") else logging.CRITICAL)
    return k, g, a


def impl_deserialize(wire):
    k, _g, _a = new_kernel("jupyter_d")
    seen = []
    orig = k.msg_sign

    def spy(lst):
        seen.append(list(lst))
        return orig(lst)
    k.msg_sign = spy
    try:
        ids, _msg = k.deserialize_wire_msg(list(wire))
    except IndexError:
        return "err index"
    except UnicodeDecodeError:
        return "err json"
    except json.JSONDecodeError:
        return "err json"
    except ValueError as e:
        if "not in list" in str(e):
            return "err nodelim"
        if "Signatures do not match" in str(e):
            return "err sig"
        return "err ValueError"
    except Exception as e:  # pylint: disable=broad-except
        return f"err {type(e).__name__}"
    return f"ok {hxl(ids)} {hxl(seen[-1] if seen else [])}"


class CaptureSock:
    def __init__(self):
        self.msgs = []

    async def send_multipart(self, parts):
        self.msgs.append([bytes(p) for p in parts])


class FakeServer:
    def __init__(self):
        self.closed = 0

    def close(self):
        self.closed += 1


class Session:
    """one real Kernel with in-memory connections on every channel and the real housekeeping task"""

    def __init__(self, name):
        import custom_components.pyscript.jupyter_kernel as jk
        self.jk = jk
        self.k, self.g, self.a = new_kernel(name)
        k = self.k
        self.servers = [FakeServer() for _ in range(5)]
        (k.heartbeat_server, k.control_server, k.stdin_server, k.shell_server, k.iopub_server) = self.servers
        self.deleted = []
        self._orig_delete = jk.GlobalContextMgr.delete
        jk.GlobalContextMgr.delete = lambda name: self.deleted.append(name)
        self.hk = asyncio.ensure_future(k.housekeep_run())
        k.tasks["housekeep"] = {self.hk}
        self.iow = FakeWriter()
        k.iopub_socket.add(jk.ZmqSocket(asyncio.StreamReader(), self.iow, "PUB"))
        self.conns = {}

    async def connect(self, name, listen, greeting=GREETING_OK + READY_DEALER):
        rd, wr = asyncio.StreamReader(), FakeWriter()
        if greeting:
            rd.feed_data(greeting)
        task = asyncio.ensure_future(listen(rd, wr))
        self.conns[name] = (rd, wr, task)
        for _ in range(12):
            await asyncio.sleep(0)
        return len(wr.buf)

    def up(self):
        return self.k.iopub_server is not None

    async def settle(self, done, spins=3000):
        for i in range(spins):
            await asyncio.sleep(0 if i < 200 else 0.001)
            if i >= 8 and done():
                break
        for _ in range(30):
            await asyncio.sleep(0)

    async def close(self):
        tasks = [c[2] for c in self.conns.values()] + [self.hk]
        for ts in (self.k.tasks.values() if isinstance(self.k.tasks, dict) else []):
            tasks += list(ts)
        for t in tasks:
            t.cancel()
        for t in tasks:
            try:
                await t
            except BaseException:  # pylint: disable=broad-except
                pass
        self.jk.GlobalContextMgr.delete = self._orig_delete
        try:
            self.a.remove_logger_handler(self.k.console)
        except Exception:  # pylint: disable=broad-except
            pass


def ev_wire(ev, k, code):
    """the real multipart message of a session event (same shapes as Drv.sev?)"""
    header = {"msg_id": f"m{k}", "msg_type": ev["mtype"], "session": "s", "username": "u", "version": "5.3"}
    content = {"code": code, "cursor_pos": len(code), "store_history": ev["store"], "silent": False}
    frames = [json.dumps(header).encode(), b"{}", b"{}", json.dumps(content).encode()]
    idents = [f"id{j}".encode() for j in range(ev["idents"])]
    kind = ev["kind"]
    if kind == "extra":
        frames = frames + [b"<IDS|MSG>", b"\x07"]
    if kind == "badjson":
        frames[1] = [b"\xff", b"{not json", b"", b"{'a': 1}"][ev["badvar"]]
    if kind == "short":
        frames = frames[:3]
    sig = sign(KEY, frames)
    if kind == "badsig":
        sig = [b"zz", b"", sig[:-1] + (b"0" if sig[-1:] != b"0" else b"1"), sign(b"other", frames)][ev["badvar"]]
    if kind == "nodelim":
        return idents + [sig] + frames
    if kind == "nosig":
        return idents + [b"<IDS|MSG>"]
    return idents + [b"<IDS|MSG>", sig] + frames


def ev_code(ev):
    return CELLS[ev["code"]][0] if isinstance(ev["code"], int) else ev["code"]


def render_outs(outs):
    """decoded real messages of one event in the model's canonical order and format"""
    iop = [o for o in outs if o["stream"] == "iopub" and o["type"] != "stream"]
    oth = [o for o in outs if o["stream"] != "iopub"]

    def ren(o):
        t, c = o["type"], o["content"] if isinstance(o["content"], dict) else {}
        sub = "-"
        if t == "status":
            sub = c.get("execution_state", "?")
        elif t == "execute_reply":
            sub = c.get("status", "?")
        elif t == "is_complete_reply":
            sub = c.get("status", "?")
            if sub == "incomplete":
                sub += f":{len(c.get('indent', ''))}"
        cnt = c.get("execution_count", "-")
        pay = "-"
        if t == "execute_result":
            pay = "3"
        if (t == "execute_reply" and sub == "error") or t == "error":
            pay = "2"
        par = o["parent"][1:] if o["parent"] else "-"
        return f"({o['stream']} {hxl(o['idents'])} {t} {sub} {par} {cnt} {pay})"
    pre, post = [], []
    for o in iop:
        t = o["type"]
        if post or t == "error" or (t == "status" and o["content"].get("execution_state") == "idle"):
            post.append(o)
        else:
            pre.append(o)
    return "[" + " ".join([ren(o) for o in pre] + [ren(o) for o in oth] + [ren(o) for o in post]) + "]"


async def impl_session(events):
    s = Session("jupyter_s")
    k = s.k
    listen = {"shell": k.shell_listen, "control": k.control_listen, "iopub": k.iopub_listen, "stdin": k.stdin_listen}
    for ch, fn in listen.items():
        await s.connect(ch, fn)
    for _ in range(20):
        await asyncio.sleep(0)
    out, details = [], []
    for idx, ev in enumerate(events):
        wire = ev_wire(ev, idx, ev_code(ev))
        rd = s.conns[ev["ch"]][0]
        marks = {n: len(s.conns[n][1].buf) for n in s.conns}
        i0 = len(s.iow.buf)
        was_up = s.up()
        rd.feed_data(py_encode(wire))
        good = ev["kind"] in ("ok", "extra")

        def done():
            if not s.up():
                return True
            if not was_up or ev["ch"] in ("iopub", "stdin"):
                return True
            if ev["ch"] == "shell" and good:
                return b'"idle"' in bytes(s.iow.buf[i0:]) or s.conns["shell"][2].done()
            if ev["ch"] == "control" and good and ev["mtype"] != "shutdown_request":
                return True
            return False
        await s.settle(done)
        outs = []
        for n in ("shell", "control", "stdin"):
            for m in split_msgs(bytes(s.conns[n][1].buf[marks[n]:])):
                outs.append(decode_out(m, n, None))
        for m in split_msgs(bytes(s.iow.buf[i0:])):
            outs.append(decode_out(m, "iopub", None))
        out.append(f"{render_outs(outs)} up={1 if s.up() else 0} n={len(s.deleted)} count={k.execution_count}")
        details.append({"ev": idx, "up": s.up(), "was_up": was_up, "n": len(s.deleted), "count": k.execution_count,
                        "outs": [{kk: (vv if kk != "idents" else [hx(i) for i in vv]) for kk, vv in o.items()} for o in outs]})
    await s.close()
    return " ".join(out), details


def sess_line(events, actx):
    items = []
    for k, ev in enumerate(events):
        code = ev_code(ev)
        kindc = CELLS[ev["code"]][1] if isinstance(ev["code"], int) else "none"
        res = ["v", 3] if kindc == "v" else (["e", 2] if kindc == "e" else "none")
        po = parse_outcome(actx, code) if ev["mtype"] == "is_complete_request" else "ok"
        info = [k, hx(ev["mtype"].encode()), ev["store"], k, res, hx(code_bytes(code)) if ev["mtype"] == "is_complete_request" else "-", po]
        items.append([ev["ch"], ev["kind"], [hx(f"id{j}".encode()) for j in range(ev["idents"])], info])
    return "C19 " + sx(["sess", "cur", items])


REPLIED = {"execute_request", "kernel_info_request", "complete_request", "is_complete_request", "comm_info_request", "history_request"}


def sess_verdict(c):
    """the property on the real behaviour, independent of the model"""
    evs, det = c.payload["events"], c.payload.get("_details", [])
    count, alive = 1, True
    for ev, d in zip(evs, det):
        outs = d["outs"]
        who = f"event {d['ev']} ({ev['ch']} {ev['mtype'] or 'empty-type'} {ev['kind']})"
        if not alive:
            if outs:
                return f"{who}: the session had ended, yet messages were sent"
            continue
        if d["n"] > 1:
            return f"{who}: the session was shut down {d['n']} times"
        good = ev["kind"] in ("ok", "extra")
        if ev["ch"] in ("iopub", "stdin"):
            if outs or not d["up"]:
                return f"{who}: traffic on a channel the kernel only reads produced output or ended the session"
            continue
        if not good:
            if outs:
                return f"{who}: a message that must be rejected was answered: {[o['type'] for o in outs]}"
            if d["count"] != count:
                return f"{who}: a rejected message changed the execution counter"
            alive = d["up"]
            continue
        for o in outs:
            if not o["signed"]:
                return f"{who}: emission {o['type']} not signed with the session key"
            if o["type"] != "stream" and o["parent"] != f"m{d['ev']}":
                return f"{who}: emission {o['type']} has parent {o['parent']}"
        want_ids = [hx(f"id{j}".encode()) for j in range(ev["idents"])]
        if ev["ch"] == "control":
            ctl = [o for o in outs if o["stream"] == "control"]
            if ev["mtype"] == "shutdown_request":
                if [o["type"] for o in ctl] != ["shutdown_reply"] or ctl[0]["idents"] != want_ids or len(outs) != 1:
                    return f"{who}: expected exactly one shutdown_reply on control addressed to the requester, got {[(o['stream'], o['type']) for o in outs]}"
                if d["up"] or d["n"] != 1:
                    return f"{who}: shutdown_request did not end the session exactly once (up={d['up']}, shutdowns={d['n']})"
                alive = False
            elif outs or not d["up"]:
                return f"{who}: unexpected output / session end"
            continue
        shell = [o for o in outs if o["stream"] == "shell"]
        iop = [o for o in outs if o["stream"] == "iopub"]
        if [o for o in outs if o["stream"] not in ("shell", "iopub")]:
            return f"{who}: output on a foreign channel"
        want = [ev["mtype"].replace("_request", "_reply")] if ev["mtype"] in REPLIED else []
        if [o["type"] for o in shell] != want:
            return f"{who}: replies on the requesting socket {[o['type'] for o in shell]}, expected {want}"
        if shell and shell[0]["idents"] != want_ids:
            return f"{who}: reply addressed to {shell[0]['idents']} instead of {want_ids}"
        st = [o["content"].get("execution_state") for o in iop if o["type"] == "status"]
        if st != ["busy", "idle"] or iop[0]["type"] != "status" or iop[-1]["type"] != "status":
            return f"{who}: status broadcasts {st} do not bracket the request with busy ... idle"
        if not d["up"]:
            return f"{who}: a valid request ended the session"
        if ev["mtype"] == "execute_request":
            if shell[0]["content"].get("execution_count") != count:
                return f"{who}: execute_reply count {shell[0]['content'].get('execution_count')} != {count}"
            if ev["store"]:
                count += 1
        if d["count"] != count:
            return f"{who}: counter {d['count']} != {count}"
    return None


async def impl_codes(codes):
    """is_complete_request and complete_request for each code on one real session; the session must answer all of them"""
    s = Session("jupyter_c")
    k = s.k
    await s.connect("shell", k.shell_listen)
    res = []
    for idx, code in enumerate(codes):
        row = []
        for mt in ("is_complete_request", "complete_request"):
            ev = {"mtype": mt, "store": True, "idents": 1, "kind": "ok", "badvar": 0}
            s0, i0 = len(s.conns["shell"][1].buf), len(s.iow.buf)
            if not s.up():
                row.append("dead")
                continue
            s.conns["shell"][0].feed_data(py_encode(ev_wire(ev, idx, code)))
            await s.settle(lambda: not s.up() or b'"idle"' in bytes(s.iow.buf[i0:]) or s.conns["shell"][2].done())
            reps = [decode_out(m, "shell", None) for m in split_msgs(bytes(s.conns["shell"][1].buf[s0:]))]
            sts = [decode_out(m, "iopub", None)["content"].get("execution_state") for m in split_msgs(bytes(s.iow.buf[i0:]))]
            if len(reps) != 1 or sts != ["busy", "idle"] or not s.up():
                row.append(f"noreply({len(reps)} replies, status {sts}, session {'up' if s.up() else 'down'})")
            elif mt == "is_complete_request":
                cc = reps[0]["content"]
                row.append(cc.get("status", "?") + (f":{len(cc.get('indent', ''))}" if cc.get("status") == "incomplete" else ""))
            else:
                cc = reps[0]["content"]
                row.append(f"root={cc.get('cursor_end', 0) - cc.get('cursor_start', 0)}")
        res.append(" ".join(row))
    await s.close()
    return res


async def impl_hk(events):
    s = Session("jupyter_h")
    k = s.k
    dummies = []
    for e in events:
        if not s.hk.done() and e != "external":
            if e == "stdout":
                await k.housekeep_q.put(["stdout", "text"])
            elif e == "handshake":
                q = asyncio.Queue(0)
                await k.housekeep_q.put(["handshake", q, 0])
            elif e == "register":
                t = asyncio.ensure_future(asyncio.sleep(100000))
                dummies.append(t)
                await k.housekeep_q.put(["register", "shell", t])
            elif e == "unregister":
                await k.housekeep_q.put(["unregister", "shell", dummies[-1] if dummies else None])
            elif e == "shutdown":
                await k.housekeep_q.put(["shutdown"])
        elif e == "external":
            await k.session_shutdown()
        else:
            k.housekeep_q.put_nowait(["shutdown"] if e == "shutdown" else ["register", "shell", None] if e == "register"
                                     else ["unregister", "shell", None] if e == "unregister" else ["handshake", asyncio.Queue(0), 0]
                                     if e == "handshake" else ["stdout", "text"])
        for _ in range(25):
            await asyncio.sleep(0)
    nstdout = len(split_msgs(bytes(s.iow.buf)))
    closed = [sv.closed for sv in s.servers]
    out = f"up={1 if s.up() else 0} n={len(s.deleted)} cnt={k.task_cnt} max={k.task_cnt_max} stdout={nstdout}"
    for t in dummies:
        t.cancel()
    await s.close()
    return out, closed


async def impl_heartbeat(chunks):
    s = Session("jupyter_b")
    hs = await s.connect("hb", s.k.heartbeat_listen)
    rd, wr, task = s.conns["hb"]
    await feed_chunks(rd, chunks, eof=True)
    for _ in range(50):
        await asyncio.sleep(0)
        if task.done():
            break
    echo = bytes(wr.buf[hs:])
    up = s.up()
    await s.close()
    return echo, up


# ------------------------------------------------------------------ one shell connection, bytes in -> bytes out
def conn_build(spec):
    """(byte stream, distinct messages [(frames0, frames3, info-sexp)]) for a connection spec"""
    import random
    rng = random.Random(spec["cutseed"])
    stream = unhx(spec["greeting"])
    if spec["gwhat"] == "short":
        return stream, []
    if spec["ready"]:
        stream += READY_DEALER
    infos = []
    import interp_env
    _g, actx = interp_env.new_ctx("jupyter_p")
    for k, m in enumerate(spec["msgs"]):
        code = CELLS[m["cell"]][0]
        ev = {"mtype": m["mtype"], "store": m["store"], "idents": m["idents"], "kind": "ok", "badvar": 0}
        wire = ev_wire(ev, k, code)
        d = wire.index(b"<IDS|MSG>")
        kindc = CELLS[m["cell"]][1] if m["mtype"] == "execute_request" else "none"
        res = ["v", 3] if kindc == "v" else (["e", 2] if kindc == "e" else "none")
        po = parse_outcome(actx, code) if m["mtype"] == "is_complete_request" else "ok"
        infos.append([[hx(wire[d + 2]), hx(wire[d + 5])],
                      [k, hx(m["mtype"].encode()), m["store"], k, res, hx(code_bytes(code)) if m["mtype"] == "is_complete_request" else "-", po]])
        enc = py_encode(wire)
        f = spec["fault"] if k == spec["fault_at"] else "none"
        if f == "truncate":
            stream += enc[:spec["pos"] % len(enc)]
            break
        if f == "oversize":
            stream += bytes([3]) + (1 << 40).to_bytes(8, "big") + enc
            break
        if f == "more-last":
            enc = py_encode(wire[:-1]) [:-0 or None]
            last = wire[-1]
            enc = py_encode(wire[:-1] + [b"dummy"])[: -(2 + 5)] + bytes([1, len(last)]) + last
        if f == "badjson":
            w2 = list(wire)
            w2[d + 3] = b"{bad"
            w2[d + 1] = sign(KEY, w2[d + 2:])
            enc = py_encode(w2)
        if f == "nonhexsig":
            w2 = list(wire)
            w2[d + 1] = b"zz" * 32
            enc = py_encode(w2)
        if f == "nodelim":
            enc = py_encode(wire[:d] + wire[d + 1:])
        if f == "short":
            enc = py_encode(wire[:-1])
        if f == "cmd-bad":
            enc = bytes([4, 0]) + enc
        if f == "cmd-mid":
            body = b"\x04PING\x03ttl\x00\x00\x00\x01x"
            enc = bytes([4, len(body)]) + body + enc
        if f == "flip-byte":
            bb = bytearray(enc)
            bb[spec["pos"] % len(bb)] ^= 1 << (spec["pos"] % 8)
            enc = bytes(bb)
        stream += enc
        if f == "replay":
            stream += enc
    return stream, infos


def conn_canon(written, items, end, count):
    io = [i for i in items if i.startswith("(iopub ")]
    sh = [i for i in items if i.startswith("(shell ")]
    ot = [i for i in items if not i.startswith("(iopub ") and not i.startswith("(shell ")]
    return f"{written} iopub={' '.join(io)} shell={' '.join(sh)} other={' '.join(ot)} end={end} count={count}"


async def impl_conn(spec):
    import random
    stream, infos = conn_build(spec)
    rng = random.Random(spec["cutseed"])
    cuts = sorted(set(rng.randrange(1, max(2, len(stream))) for _ in range(rng.randrange(0, 4)))) if len(stream) > 2 else []
    chunks = cut(stream, cuts)
    s = Session("jupyter_n")
    k = s.k
    await s.connect("B", k.shell_listen)
    rd, wr = asyncio.StreamReader(), FakeWriter()
    task = asyncio.ensure_future(k.shell_listen(rd, wr))
    s.conns["A"] = (rd, wr, task)
    for ch in chunks:
        if ch:
            rd.feed_data(ch)
        for _ in range(6):
            await asyncio.sleep(0)
    rd.feed_eof()
    await s.settle(lambda: task.done() and (not s.up() or k.housekeep_q.empty()), spins=4000)
    hs_len = 64 + 43
    buf = bytes(wr.buf)
    outs = [decode_out(m, "shell", None) for m in split_msgs(buf[hs_len:])] + \
           [decode_out(m, "iopub", None) for m in split_msgs(bytes(s.iow.buf))]
    items = []
    for o in outs:
        if o["type"] == "stream":
            continue
        r = render_outs([o])
        items.append(r[1:-1])
    up_after = s.up()
    b_ok = None
    if up_after:
        ev = {"mtype": "kernel_info_request", "store": True, "idents": 1, "kind": "ok", "badvar": 0}
        b0 = len(s.conns["B"][1].buf)
        i0 = len(s.iow.buf)
        s.conns["B"][0].feed_data(py_encode(ev_wire(ev, 77, "")))
        await s.settle(lambda: b'"idle"' in bytes(s.iow.buf[i0:]) or not s.up())
        b_ok = [decode_out(m, "shell", None)["type"] for m in split_msgs(bytes(s.conns["B"][1].buf[b0:]))] == ["kernel_info_reply"]
    end = "eof" if up_after else "down"
    res = conn_canon(hx(buf[:hs_len]), items, end, k.execution_count)
    await s.close()
    return res, chunks, infos, stream, b_ok, wr.closed


def conn_line(chunks, infos, stream):
    body = stream[64:]
    msgs = split_msgs(body) if len(stream) >= 64 else []
    oks, sigtab = set(), []
    for m in msgs:
        for f in m:
            if json_ok(f):
                oks.add(hx(f))
        if b"<IDS|MSG>" in m:
            d = m.index(b"<IDS|MSG>")
            fr = m[d + 2:]
            sigtab.append([[hx(f) for f in fr], hx(sign(KEY, fr))])
    return "C19 " + sx(["conn", "cur", "cur", [hx(c) for c in chunks], sorted(oks), sigtab, infos])


def run_impl(cases):
    loop = asyncio.new_event_loop()
    asyncio.set_event_loop(loop)
    try:
        for c in cases:
            loop.run_until_complete(_run_one(c))
    finally:
        loop.close()


async def _run_one(c):
    p = c.payload
    k = p["kind"]
    unhx = lambda s: b"" if s == "-" else bytes.fromhex(s)  # noqa: E731
    if k == "roundtrip":
        parts = [unhx(x) for x in p["parts"]]
        trailing = unhx(p["trailing"])
        c.spec = "ok (" + " ".join(p["parts"]) + ") " + p["trailing"]
        c.line = ["C19 " + sx(["enc", p["parts"]])]
        try:
            wire = await impl_send_multipart(parts)
        except Exception as e:  # an exception of the implementation is an outcome, not a harness error
            c.impl = f"ok raise:{type(e).__name__} | raise:{type(e).__name__}"
            return
        # choose a fragmentation deterministically from the payload
        import random
        rng = random.Random(len(wire) * 7919 + len(parts))
        frs = fragmentations(rng, len(wire) + len(trailing), "quick")
        if len(wire) + len(trailing) > 30:
            frs = frs[:2] + frs[-3:]
        outs = []
        for cuts in frs:
            outs.append(await impl_recv(cut(wire + trailing, cuts)))
        c.impl = "ok " + hx(wire) + " | " + " | ".join(sorted(set(outs)))
        c.payload["fragmentations"] = len(frs)
        # model lines: enc + recv (unfragmented and 1-byte chunks: fragment independence is a theorem)
        c.line = ["C19 " + sx(["enc", p["parts"]])] + \
                 ["C19 " + sx(["recv", [hx(x) for x in cut(wire + trailing, cuts)]]) for cuts in frs[:3]]
        c.spec = "ok (" + " ".join(p["parts"]) + ") " + p["trailing"]
    elif k == "single":
        m = unhx(p["msg"])
        c.spec = f"ok {p['msg']} -"
        c.line = ["C19 " + sx(["encs", p["msg"]])]
        try:
            wire = await impl_send(m)
        except Exception as e:
            c.impl = f"ok raise:{type(e).__name__} | raise:{type(e).__name__}"
            return
        r1 = await impl_recv([wire], single=True)
        r2 = await impl_recv([bytes([b]) for b in wire] if len(wire) < 3000 else [wire[:5], wire[5:]], single=True)
        c.impl = "ok " + hx(wire) + " | " + " | ".join(sorted({r1, r2}))
        c.line = ["C19 " + sx(["encs", p["msg"]]), "C19 " + sx(["recvs", [hx(wire)]])]
        c.spec = f"ok {p['msg']} -"
    elif k == "stream":
        chunks = [unhx(x) for x in p["chunks"]]
        c.impl = await impl_recv(chunks)
        c.line = ["C19 " + sx(["recv", p["chunks"]])]
        c.spec = None
    elif k == "shell":
        results = await impl_shell(p["reqs"])
        c.impl = canon_shell(p["reqs"], results)
        c.payload["_details"] = [{"req": r["req"], "dead": r["dead"], "count_after": r["count_after"],
                                 "outs": [{kk: (vv if kk != "idents" else [hx(i) for i in vv]) for kk, vv in o.items()}
                                          for o in r["outs"]]} for r in results]
        c.line = [shell_line(p["reqs"])]
        c.spec = None
    elif k == "concurrent-send":
        sent = [[unhx(x) for x in parts] for parts in p["senders"]]
        try:
            wire = await impl_concurrent_send(sent)
            got = split_msgs(wire)
            c.payload["_received"] = [[hx(x) for x in m] for m in got]
        except Exception as e:  # pylint: disable=broad-except
            c.payload["_received"] = f"raise:{type(e).__name__}"
        c.impl = None
        c.line = []
        c.spec = None
    elif k == "interleave":
        reqs, outs = await impl_interleave(p)
        c.payload["_reqs"] = reqs
        c.payload["_outs"] = [{kk: (vv if kk != "idents" else [hx(i) for i in vv]) for kk, vv in o.items() if kk != "content"}
                              | {"content": {"execution_state": o["content"].get("execution_state")} if isinstance(o["content"], dict) else {}}
                              for o in outs]
        c.impl = None
        c.line = []
        c.spec = None
    elif k == "hs":
        chunks = [unhx(x) for x in p["chunks"]]
        c.impl = await impl_handshake(p["type"], chunks)
        c.line = ["C19 " + sx(["hs", "cur", hx(p["type"].encode()), p["chunks"]])]
        c.spec = None
    elif k == "des":
        wire = [unhx(x) for x in p["wire"]]
        c.impl = impl_deserialize(wire)
        oks = sorted({hx(f) for f in wire if json_ok(f)})
        sigs = [hx(sign(KEY, wire[j:])) for j in range(len(wire) + 1)]
        c.line = ["C19 " + sx(["des", p["wire"], oks, sigs])]
        c.spec = None
    elif k == "ser":
        kk, _g, _a = new_kernel("jupyter_e")
        cap = CaptureSock()
        ids = [unhx(x) for x in p["idents"]]
        await kk.send(cap, p["mtype"], {"a": 1}, parent_header={"msg_id": "p"}, identities=list(ids))
        parts = cap.msgs[0]
        c.impl = "ok " + hxl(parts)
        c.payload["_parts"] = [hx(x) for x in parts]
        c.line = ["C19 " + sx(["ser", p["idents"], [hx(x) for x in parts[-4:]], hx(sign(KEY, parts[-4:]))])]
        c.spec = impl_deserialize(parts)
    elif k == "code":
        res = await impl_codes(p["codes"])
        c.impl = " | ".join(res)
        import interp_env
        _g, actx = interp_env.new_ctx("jupyter_p")
        c.line = []
        for code in p["codes"]:
            c.line.append("C19 " + sx(["isc", "cur", hx(code_bytes(code)), parse_outcome(actx, code)]))
            c.line.append("C19 " + sx(["croot", hx(code_bytes(code.lower())) if code.isascii() else "-"]))
        c.payload["_ascii"] = [code.isascii() for code in p["codes"]]
        c.spec = None
    elif k == "sess":
        c.impl, det = await impl_session(p["events"])
        c.payload["_details"] = det
        import interp_env
        _g, actx = interp_env.new_ctx("jupyter_p")
        c.line = [sess_line(p["events"], actx)]
        c.spec = None
    elif k == "hk":
        c.impl, closed = await impl_hk(p["events"])
        c.payload["_closed"] = closed
        c.line = ["C19 " + sx(["hk", p["events"]])]
        c.spec = None
    elif k == "conn":
        res, chunks, infos, stream, b_ok, closed = await impl_conn(p["spec"])
        c.impl = res
        c.payload["_b_ok"] = b_ok
        c.payload["_closed"] = closed
        c.line = [conn_line(chunks, infos, stream)]
        c.spec = None
    elif k == "hb":
        chunks = [unhx(x) for x in p["chunks"]]
        echo, up = await impl_heartbeat(chunks)
        c.impl = f"ok {hx(echo)} -" if echo else "err eof"
        c.payload["_up"] = up
        c.line = ["C19 " + sx(["hb", p["chunks"]])]
        c.spec = None


# the generic runner expects one line per case; C19 cases have several -> custom execute
def _drive_multi(cases):
    lines, owners = [], []
    for c in cases:
        for l in (c.line or []):
            lines.append(l)
            owners.append(c)
    outs = common.drive(lines)
    acc = {}
    for o, c in zip(outs, owners):
        acc.setdefault(id(c), []).append(o)
    for c in cases:
        o = acc.get(id(c), [])
        k = c.payload["kind"]
        if k in ("roundtrip", "single"):
            c.model = o[0] + " | " + " | ".join(sorted(set(o[1:]))) if o else None
        elif k == "conn":
            m = re.match(r"^(\S+) (.*) end=(\S+) count=(\d+)$", o[0]) if o else None
            if m:
                items = re.findall(r"\((?:shell|iopub|control|stdin|hb) \([^)]*\) [^)]*\)", m.group(2))
                end = "eof" if m.group(3) in ("eof",) else "down"
                c.model = conn_canon(m.group(1), items, end, m.group(4))
            else:
                c.model = o[0] if o else None
        elif k == "code":
            rows = []
            for i in range(0, len(o), 2):
                root = o[i + 1].split()[-1] if o[i + 1].startswith("ok") else "?"
                nroot = 0 if root == "-" else len(root) // 2
                rows.append(o[i] + " " + (f"root={nroot}" if c.payload["_ascii"][i // 2] else "root=*"))
            c.model = " | ".join(rows)
            if c.impl is not None:      # non-ASCII code: \w is outside the model, compare the is_complete part only
                c.impl = " | ".join(r if c.payload["_ascii"][j] else r.split()[0] + " root=*" for j, r in enumerate(c.impl.split(" | ")))
        else:
            c.model = o[0] if o else None


def verdict(c):
    """the property, checked directly on the implementation's behaviour"""
    k = c.payload["kind"]
    if k in ("roundtrip", "single"):
        got = c.impl.split(" | ")[1:]
        if got != [c.spec]:
            return f"round trip failed ({'long' if 'long' in c.tags else 'short'} frames): sent {c.spec[:80]!r}, received {str(got)[:80]!r}"
        return None
    if k == "shell":
        return shell_verdict(c)
    if k == "sess":
        return sess_verdict(c)
    if k == "hs":
        stream = b"".join(bytes.fromhex(x) for x in c.payload["chunks"] if x != "-")
        g = stream[:64]
        acc = c.impl.startswith("ok ")
        # (that a peer with an invalid greeting is accepted as well is C19_handshake_cex – recorded, not part of the property)
        if greeting_valid(g) and not acc:
            return "handshake refused a valid ZMTP 3.x NULL greeting"
        if acc and c.impl.split()[2] != hx(stream[64:]):
            return "handshake did not leave exactly the bytes after the greeting unread"
        return None
    if k == "des":
        wire = [bytes.fromhex(x) if x != "-" else b"" for x in c.payload["wire"]]
        d = wire.index(b"<IDS|MSG>") if b"<IDS|MSG>" in wire else None
        good = (d is not None and len(wire) >= d + 6 and all(json_ok(f) for f in wire[d + 2:d + 6])
                and sign(KEY, wire[d + 2:]) == wire[d + 1])
        if c.impl.startswith("ok") != good:
            return f"deserialize_wire_msg {'accepted' if not good else 'rejected'} a message that is {'not ' if not good else ''}well-formed and correctly signed"
        if good and c.impl != f"ok {hxl(wire[:d])} {hxl(wire[d + 2:])}":
            return "deserialize_wire_msg returned other identities / frames than were sent"
        return None
    if k == "ser":
        ids = [x for x in c.payload["idents"]]
        if "3c4944537c4d53473e" in ids:
            return None
        parts = c.payload.get("_parts", [])
        if not c.spec.startswith(f"ok ({' '.join(ids)}) ") or parts[:len(ids)] != ids:
            return "a message written by Kernel.send is not read back by deserialize_wire_msg with its identities"
        return None
    if k == "code":
        for code, r in zip(c.payload["codes"], c.impl.split(" | ")):
            if "noreply" in r or "dead" in r:
                return f"is_complete_request / complete_request for a {len(code)}-character code string: not exactly one reply in a busy/idle bracket with the session still alive ({r[:90]})"
        return None
    if k == "hk":
        f = dict(x.split("=") for x in c.impl.split())
        trig = any(e in ("shutdown", "external") for e in c.payload["events"])
        if int(f["n"]) > 1 or (int(f["n"]) == 1) != (f["up"] == "0"):
            return f"session_shutdown ran {f['n']} times, session up={f['up']}"
        if trig and f["up"] != "0":
            return "a shutdown message / outside call did not end the session"
        if f["up"] == "0" and any(x != 1 for x in c.payload.get("_closed", [])):
            return f"servers closed {c.payload.get('_closed')} times on shutdown"
        return None
    if k == "conn":
        if c.payload.get("_b_ok") is False:
            return "after a connection was served and closed, a second healthy shell connection of the same session is no longer answered"
        return None
    if k == "hb":
        stream = b"".join(bytes.fromhex(x) for x in c.payload["chunks"] if x != "-")
        msgs = split_msgs(stream)
        want = py_encode([b"", b"".join(msgs[0])]) if msgs else b""
        if c.impl != f"ok {hx(want)} -":
            return "heartbeat: the echo is not the ping's payload behind an empty delimiter frame"
        return None
    if k == "interleave":
        return interleave_verdict(c)
    if k == "concurrent-send":
        got = c.payload.get("_received")
        want = sorted(c.payload["senders"])
        if not isinstance(got, list) or sorted(got) != want:
            return (f"{len(want)} tasks sent one message each on one socket (drain suspends): the stream decodes to "
                    f"{str(got)[:120]}, expected the {len(want)} messages intact")
        return None
    return None


def shell_verdict(c):
    reqs = c.payload["reqs"]
    det = c.payload.get("_details", [])
    count = 1
    for r in det:
        q = reqs[r["req"]]
        outs = r["outs"]
        if q["corrupt"] is not None:
            if outs:
                return f"request {r['req']} with {q['corrupt']} was answered: {[o['type'] for o in outs]}"
            if r["count_after"] != count:
                return f"request {r['req']} with {q['corrupt']} changed the execution counter"
            return None
        shell = [o for o in outs if o["stream"] == "shell"]
        iop = [o for o in outs if o["stream"] == "iopub"]
        replied = q["mtype"] in ("execute_request", "kernel_info_request", "complete_request", "is_complete_request",
                                 "comm_info_request", "history_request")
        if len(shell) != (1 if replied else 0):
            return f"request {r['req']} ({q['mtype']}) got {len(shell)} replies"
        want_ids = [common_hex(f"id{j}".encode()) for j in range(q["idents"])]
        for o in outs:
            if not o["signed"]:
                return f"request {r['req']}: emission {o['type']} not signed with the session key"
            if o["parent"] != f"m{r['req']}":
                return f"request {r['req']}: emission {o['type']} has parent {o['parent']}"
        for o in shell:
            if o["idents"] != want_ids:
                return f"request {r['req']}: reply addressed to {o['idents']} instead of {want_ids}"
            if o["type"] != q["mtype"].replace("_request", "_reply"):
                return f"request {r['req']}: reply type {o['type']}"
        if not iop or iop[0]["type"] != "status" or iop[0]["content"]["execution_state"] != "busy":
            return f"request {r['req']}: iopub does not start with busy"
        if iop[-1]["type"] != "status" or iop[-1]["content"]["execution_state"] != "idle":
            return f"request {r['req']}: iopub does not end with idle"
        if q["mtype"] == "execute_request":
            kind = CELLS[q["cell"]][1]
            rep = shell[0]["content"]
            if rep.get("execution_count") != count:
                return f"request {r['req']}: execute_reply count {rep.get('execution_count')} != {count}"
            if (rep["status"] == "error") != (kind == "e"):
                return f"request {r['req']}: status {rep['status']} for cell kind {kind}"
            has_res = any(o["type"] == "execute_result" for o in iop)
            if has_res != (kind == "v"):
                return f"request {r['req']}: execute_result presence {has_res} for cell kind {kind}"
            want_val, want_out, want_exc = cell_expectation(CELLS[q["cell"]][0])
            got_out = "".join(o["content"].get("text", "") for o in iop if o["type"] == "stream" and o["content"].get("name") == "stdout")
            if got_out != want_out:
                return f"request {r['req']}: stdout of the cell is {got_out!r}, the cell prints {want_out!r}"
            st = [i for i, o in enumerate(iop) if o["type"] == "stream"]
            if st and st[-1] > len(iop) - 2:
                return f"request {r['req']}: stdout after idle"
            res = [o["content"].get("data", {}).get("text/plain") for o in iop if o["type"] == "execute_result"]
            if kind == "v" and res != [want_val]:
                return f"request {r['req']}: execute_result {res}, the cell's value is {want_val!r}"
            if kind == "e" and rep.get("ename") != want_exc:
                return f"request {r['req']}: execute_reply ename {rep.get('ename')!r}, the cell raises {want_exc}"
            inp = [o["content"] for o in iop if o["type"] == "execute_input"]
            if len(inp) != 1 or inp[0].get("code") != CELLS[q["cell"]][0] or inp[0].get("execution_count") != count:
                return f"request {r['req']}: execute_input broadcast {inp} does not show the cell / its count {count}"
            if q["store"]:
                count += 1
        if r["count_after"] != count:
            return f"request {r['req']}: counter {r['count_after']} != {count}"
    return None


def common_hex(b):
    return hx(b)


def extra_coverage(cases):
    hs = [c for c in cases if c.payload.get("kind") == "hs"]
    inv = [c for c in hs if c.payload["what"] not in ("valid", "short") and (c.impl or "").startswith("ok ")]
    ends = {}
    for c in cases:
        if c.payload.get("kind") == "conn" and c.impl:
            key = c.payload["spec"]["fault"] + "->" + c.impl.split(" end=")[-1].split()[0]
            ends[key] = ends.get(key, 0) + 1
    return {"invalid_greetings_accepted_by_handshake (C19_handshake_cex, recorded not judged)": len(inv),
            "connection_faults_to_outcome": ends}


def classify(c, reason):
    import re
    return c.payload["kind"] + ":" + re.sub(r"\d+", "N", re.sub(r"[0-9a-f]{6,}", "H", reason))[:60]


def replay_cases(obj):
    return [Case(obj["case"], None)]


# hook the multi-line driver into the generic runner
_orig_execute = common._execute


def _execute(mod, cases, br):
    if mod.PROP != PROP:
        return _orig_execute(mod, cases, br)
    run_impl(cases)
    if br.driver_ok and common.DRV.exists():
        _drive_multi(cases)
    else:
        for c in cases:
            c.model = "err driver-not-built"
    for c in cases:
        c.line = " ; ".join(c.line or [])
        if "_details" in c.payload and len(json.dumps(c.payload)) > 4000:
            pass


common._execute = _execute
