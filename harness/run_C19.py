"""C19 correspondence: real ZmqSocket / Kernel (in-memory streams) vs the Lean model."""
import asyncio
import hashlib
import hmac
import json
import logging
import os

import common
from common import Case, sx, parse_sx

PROP = "C19"
RULE = ("frame lists with lengths around 0/1/255/256/65535/65536 and random contents x fragmentations (all cut "
        "positions for short streams, random otherwise); malformed streams (random bytes, command frames, truncations); "
        "heartbeat send/recv; request sequences (execute/complete/is_complete/kernel_info/comm/unknown) with valid "
        "signatures, single-bit corruptions and wrong keys, pushed through the real shell_listen.  A case is non-trivial "
        "when it has at least one frame / request; distinct by payload.")
ASSUMPTIONS = [
    "asyncio.StreamReader.read(k) returns a non-empty prefix of the buffered bytes (modelled by readChunk)",
    "hmac/hashlib are a MAC: modelled as an uninterpreted function `sign` (C19_auth is decision logic over it)",
    "json encoding/decoding and uuid/date header fields are masked, not modelled",
]
TRUSTED = ["tools/extract.py (ZMTP constants from the AST of send_multipart/send/recv)",
           "harness/run_C19.py (in-memory streams, canonicalisation)",
           "modelled not verified: asyncio streams, hmac, json; the interpreter run of a cell is the parameter `run`"]

KEY = b"k3y-0123456789"


def hx(b):
    return b.hex() if b else "-"


# ------------------------------------------------------------------ generators
LENS = [0, 1, 2, 5, 254, 255, 256, 257, 300, 65535, 65536, 65537]


def rand_bytes(rng, n):
    if n > 2000:
        b = bytes([rng.randrange(256)]) * n
        return b
    return bytes(rng.randrange(256) for _ in range(n))


def fragmentations(rng, n, tier, exhaustive_limit=24):
    """cut-position sets for a stream of n bytes"""
    outs = [[]]  # unfragmented
    if n <= 1:
        return outs
    outs.append(list(range(1, n)) if n <= 4000 else [1, 2, 3, 9, 10, 11])  # 1-byte chunks
    if n <= exhaustive_limit:
        for c in range(1, n):
            outs.append([c])
        for c in range(1, n - 1):
            outs.append([c, c + 1])
    k = 6 if tier == "quick" else 30
    for _ in range(k):
        m = rng.randrange(1, min(8, n))
        outs.append(sorted(set(rng.randrange(1, n) for _ in range(m))))
    return outs


def cut(b, cuts):
    pts = [0] + list(cuts) + [len(b)]
    return [b[pts[i]:pts[i + 1]] for i in range(len(pts) - 1)]


def gen_cases(rng, tier, search):
    n_rand = 60 if tier == "quick" else 600
    if search:
        n_rand *= 5
    cases = []
    # --- frame lists: boundary lengths
    frame_lists = []
    for ln in LENS:
        frame_lists.append([rand_bytes(rng, ln)])
        frame_lists.append([rand_bytes(rng, ln), b""])
        frame_lists.append([b"", rand_bytes(rng, ln), b"x"])
    for _ in range(n_rand):
        k = rng.randrange(1, 6)
        frame_lists.append([rand_bytes(rng, rng.choice([0, 1, 2, 3, 7, 254, 255, 256, 257, 1000])) for _ in range(k)])
    for parts in frame_lists:
        trailing = rand_bytes(rng, rng.choice([0, 0, 1, 3]))
        cases.append(Case({"kind": "roundtrip", "parts": [hx(p) for p in parts], "trailing": hx(trailing)}, None,
                          tags=("roundtrip", "long" if any(len(p) > 255 for p in parts) else "short")))
    # --- heartbeat
    for ln in LENS[:9] + [rng.randrange(0, 600) for _ in range(n_rand // 4)]:
        cases.append(Case({"kind": "single", "msg": hx(rand_bytes(rng, ln))}, None, tags=("single",)))
    # --- malformed / arbitrary streams
    for _ in range(n_rand * 2):
        choice = rng.randrange(5)
        if choice == 0:
            b = rand_bytes(rng, rng.randrange(0, 12))
        elif choice == 1:   # valid message truncated
            parts = [rand_bytes(rng, rng.choice([0, 1, 3, 256])) for _ in range(rng.randrange(1, 4))]
            b = py_encode(parts)
            b = b[:rng.randrange(0, len(b))]
        elif choice == 2:   # command frame (possibly malformed) then a message
            body = rand_cmd_body(rng)
            b = bytes([4 + rng.choice([0, 1]), len(body)]) + body + py_encode([rand_bytes(rng, 3)])
        elif choice == 3:   # small flags / lengths soup
            b = bytes(rng.choice([0, 1, 2, 3, 4, 5, 6, 7, 0, 1]) if i % 3 == 0 else rng.randrange(0, 4)
                      for i in range(rng.randrange(1, 14)))
        else:               # valid message with a flipped flag byte
            parts = [rand_bytes(rng, rng.choice([0, 1, 2])) for _ in range(rng.randrange(1, 4))]
            bb = bytearray(py_encode(parts) + rand_bytes(rng, 2))
            bb[0] ^= rng.choice([1, 2, 4, 8, 3])
            b = bytes(bb)
        for cuts in fragmentations(rng, len(b), "quick", exhaustive_limit=0)[:3]:
            cases.append(Case({"kind": "stream", "chunks": [hx(c) for c in cut(b, cuts)]}, None, tags=("stream",)))
    # --- shell request sequences
    for _ in range(n_rand // 2):
        cases.append(Case({"kind": "shell", "reqs": gen_reqs(rng)}, None, tags=("shell",)))
    # directed: the execution counter after cells that fail / succeed with and without store_history, every run
    def rq(cell, store, mt="execute_request"):
        return {"mtype": mt, "cell": cell, "store": store, "idents": 1, "corrupt": None, "corrupt_pos": 0}
    err_cells = [i for i, c in enumerate(CELLS) if c[1] == "e"]
    val_cells = [i for i, c in enumerate(CELLS) if c[1] == "v"]
    for e in err_cells:
        for st in (False, True):
            cases.append(Case({"kind": "shell", "reqs": [rq(val_cells[0], True), rq(e, st), rq(val_cells[1], True),
                                                         rq(e, not st), rq(val_cells[2], False), rq(val_cells[0], True)]},
                              None, tags=("shell", "directed-counter")))
    for mt in ("kernel_info_request", "is_complete_request", "complete_request", "comm_info_request", "history_request"):
        cases.append(Case({"kind": "shell", "reqs": [rq(val_cells[0], True), rq(0, True, mt), rq(err_cells[0], False), rq(0, True, mt),
                                                     rq(val_cells[1], True)]}, None, tags=("shell", "directed-counter")))
    # --- several tasks sending on ONE socket whose writer suspends in drain(): each message must stay contiguous
    for _ in range(20 if tier == "quick" else 200):
        senders = []
        for _s in range(rng.randrange(2, 5)):
            senders.append([hx(rand_bytes(rng, rng.choice([0, 1, 3, 40, 300]))) for _ in range(rng.randrange(1, 5))])
        cases.append(Case({"kind": "concurrent-send", "senders": senders}, None, tags=("concurrent-send",)))
    # --- interleaved connections: a cell on connection A is still awaiting while connection B is served
    for _ in range(14 if tier == "quick" else 150):
        nb = rng.randrange(1, 4)
        cases.append(Case({"kind": "interleave",
                           "a_cell": rng.choice(["wait_gate()\n41 + 1", "wait_gate()", "y = wait_gate()\n'done'", "wait_gate()\n1/0"]),
                           "a_idents": rng.randrange(0, 3),
                           "b": [{"mtype": rng.choice(["kernel_info_request", "is_complete_request", "complete_request",
                                                       "execute_request", "comm_info_request"]),
                                  "cell": rng.choice([0, 1, 2, 4, 6]), "idents": rng.randrange(0, 3)} for _ in range(nb)],
                           "release_after": rng.randrange(0, nb + 1)}, None, tags=("interleave",)))
    for c in cases:
        c.line = None
    return cases


def rand_cmd_body(rng):
    name = b"READY"
    if rng.random() < 0.2:
        return b""
    body = bytes([len(name)]) + name
    for _ in range(rng.randrange(0, 3)):
        p = b"Socket-Type"
        v = rand_bytes(rng, rng.randrange(0, 5))
        body += bytes([len(p)]) + p + len(v).to_bytes(4, "big") + v
    if rng.random() < 0.3:
        body = body[:rng.randrange(1, len(body) + 1)]
    return body


def py_encode(parts):
    """independent reference encoder (ZMTP 3.0 framing as the spec column)"""
    out = b""
    for i, p in enumerate(parts):
        more = 1 if i < len(parts) - 1 else 0
        if len(p) <= 255:
            out += bytes([more, len(p)]) + p
        else:
            out += bytes([more | 2]) + len(p).to_bytes(8, "big") + p
    return out


CELLS = [("x = 1", "none"), ("1 + 2", "v"), ("1/0", "e"), ("x = 5\nx * 2", "v"), ("None", "none"),
         ("undefined_name_zz", "e"), ("'a' * 3", "v"), ("def f():\n    return 4\nf()", "v"), ("pass", "none"),
         ("raise ValueError('boom')", "e"), ("print('hello')", "none"), ("log.info('out')\n7", "v"),
         ("print('a')\nprint('b c')\n'r' + 's'", "v"), ("for i in range(3):\n    print(i)", "none"),
         ("print('é ü')\n[1, 'two', None]", "v"), ("print('before')\n1/0", "e"), ("{'k': (1, 2)}", "v"),
         ("print('')", "none"), ("''", "v"), ("0", "v")]
# (print takes exactly one argument in pyscript – documented: "print(str): same as log.debug(str); currently print doesn't
# support other arguments")


def cell_expectation(code):
    """what the cell produces according to CPython: (text/plain of the last expression or None, stdout text, exception class)"""
    import ast
    import contextlib
    import io
    if "log.info" in code:
        return ("7", "out\n", None)           # pyscript's log.info is forwarded to the console as a stdout line
    tree = ast.parse(code)
    last = tree.body[-1] if tree.body and isinstance(tree.body[-1], ast.Expr) else None
    body = tree.body[:-1] if last is not None else tree.body
    ns, out, val, exc = {}, io.StringIO(), None, None
    with contextlib.redirect_stdout(out):
        try:
            exec(compile(ast.Module(body=body, type_ignores=[]), "cell", "exec"), ns)  # pylint: disable=exec-used
            if last is not None:
                val = eval(compile(ast.Expression(body=last.value), "cell", "eval"), ns)  # pylint: disable=eval-used
        except Exception as e:  # pylint: disable=broad-except
            exc = type(e).__name__
    return (None if val is None else repr(val), out.getvalue(), exc)
MTYPES = ["execute_request", "execute_request", "execute_request", "kernel_info_request", "complete_request",
          "is_complete_request", "comm_info_request", "history_request", "comm_open", "comm_msg", "bogus_request"]


def gen_reqs(rng):
    reqs = []
    n = rng.randrange(1, 7)
    bad_at = rng.randrange(n) if rng.random() < 0.45 else None
    for i in range(n):
        mt = rng.choice(MTYPES)
        cell = rng.randrange(len(CELLS))
        corrupt = None
        if i == bad_at:
            corrupt = rng.choice(["bitflip-sig", "bitflip-frame", "wrong-key", "swap-frames", "empty-sig", "drop-frame"])
        reqs.append({"mtype": mt, "cell": cell, "store": rng.random() < 0.8, "idents": rng.randrange(0, 3),
                     "corrupt": corrupt, "corrupt_pos": rng.randrange(1 << 16)})
    return reqs


# ------------------------------------------------------------------ running the implementation
class FakeWriter:
    def __init__(self):
        self.buf = bytearray()
        self.closed = False

    def write(self, b):
        self.buf += bytes(b)

    async def drain(self):
        pass

    def close(self):
        self.closed = True


class YieldingWriter(FakeWriter):
    """a transport under back-pressure: drain() lets other tasks run"""
    async def drain(self):
        for _ in range(3):
            await asyncio.sleep(0)


async def impl_concurrent_send(senders):
    from custom_components.pyscript.jupyter_kernel import ZmqSocket
    w = YieldingWriter()
    sock = ZmqSocket(None, w, "PUB")
    await asyncio.gather(*[sock.send_multipart(parts) for parts in senders])
    return bytes(w.buf)


async def feed_chunks(reader, chunks, eof=True):
    for c in chunks:
        if c:
            reader.feed_data(c)
        for _ in range(4):
            await asyncio.sleep(0)
    if eof:
        reader.feed_eof()


async def impl_recv(chunks, single=False):
    from custom_components.pyscript.jupyter_kernel import ZmqSocket
    reader = asyncio.StreamReader()
    sock = ZmqSocket(reader, FakeWriter(), "ROUTER")
    feeder = asyncio.ensure_future(feed_chunks(reader, chunks))
    try:
        res = await (sock.recv() if single else sock.recv_multipart())
    except EOFError:
        await feeder
        return "err eof"
    except (IndexError, Exception) as e:  # struct.error, IndexError from the command parser
        feeder.cancel()
        return "err badcommand" if type(e).__name__ in ("IndexError", "error") else f"err {type(e).__name__}"
    await feeder
    rest = bytes(reader._buffer)
    if single:
        return f"ok {hx(res)} {hx(rest)}"
    return "ok (" + " ".join(hx(p) for p in res) + ") " + hx(rest)


async def impl_send_multipart(parts):
    from custom_components.pyscript.jupyter_kernel import ZmqSocket
    w = FakeWriter()
    await ZmqSocket(None, w, "ROUTER").send_multipart(parts)
    return bytes(w.buf)


async def impl_send(msg):
    from custom_components.pyscript.jupyter_kernel import ZmqSocket
    w = FakeWriter()
    await ZmqSocket(None, w, "REP").send(msg)
    return bytes(w.buf)


def sign(key, frames):
    h = hmac.new(key, digestmod=hashlib.sha256)
    for f in frames:
        h.update(f)
    return h.hexdigest().encode()


def build_wire(req, idx):
    header = {"msg_id": f"m{idx}", "msg_type": req["mtype"], "session": "s", "username": "u", "version": "5.3"}
    code = CELLS[req["cell"]][0]
    content = {"code": code, "cursor_pos": len(code), "store_history": req["store"], "silent": False}
    frames = [json.dumps(header).encode(), b"{}", b"{}", json.dumps(content).encode()]
    sig = sign(KEY, frames)
    idents = [f"id{j}".encode() for j in range(req["idents"])]
    c = req["corrupt"]
    pos = req["corrupt_pos"]
    if c == "bitflip-sig":
        s = bytearray(sig)
        i = pos % len(s)
        s[i] = ord("0") if s[i] != ord("0") else ord("1")
        sig = bytes(s)
    elif c == "bitflip-frame":
        # flip one character inside the code string / header so that the JSON still parses
        fi = 3 if pos % 2 else 0
        txt = frames[fi].decode()
        j = txt.index("store_history") if fi == 3 else txt.index("session")
        frames[fi] = (txt[:j] + ("S" if txt[j] != "S" else "T") + txt[j + 1:]).encode()
    elif c == "wrong-key":
        sig = sign(b"other-key", frames)
    elif c == "swap-frames":
        frames[1], frames[2] = b"{} ", b"{}"
    elif c == "empty-sig":
        sig = b""
    elif c == "drop-frame":
        sig = sign(KEY, frames[:3])
    return idents + [b"<IDS|MSG>", sig] + frames, idents, header


def decode_out(parts, stream, header_ids):
    i = parts.index(b"<IDS|MSG>")
    idents = parts[:i]
    sig = parts[i + 1]
    frames = parts[i + 2:]
    hdr = json.loads(frames[0])
    parent = json.loads(frames[1])
    content = json.loads(frames[3])
    ok_sig = sign(KEY, frames) == sig
    return {"stream": stream, "idents": idents, "type": hdr["msg_type"], "parent": parent.get("msg_id"),
            "content": content, "signed": ok_sig, "nframes": len(frames)}


async def impl_shell(reqs):
    """push the requests through the real shell_listen; returns (canonical string, details)"""
    import interp_env
    from custom_components.pyscript.jupyter_kernel import Kernel, ZmqSocket
    interp_env.setup_stub(asyncio.get_running_loop())
    g, a = interp_env.new_ctx("jupyter_0")
    cfg = {"key": KEY.decode(), "signature_scheme": "hmac-sha256", "no_connect_timeout": 3000}
    k = Kernel(cfg, a, g, "jupyter_0")
    a.add_logger_handler(k.console)
    logging.disable(logging.NOTSET)
    a.get_logger().setLevel(logging.DEBUG)
    a.get_logger().propagate = False
    logging.getLogger("custom_components.pyscript.jupyter_kernel").propagate = False
    logging.getLogger("custom_components.pyscript.jupyter_kernel").setLevel(
        logging.DEBUG if os.environ.get("VERIF_DEBUG") else logging.CRITICAL)
    hk = asyncio.ensure_future(k.housekeep_run())
    # iopub subscriber
    iow = FakeWriter()
    k.iopub_socket.add(ZmqSocket(asyncio.StreamReader(), iow, "PUB"))
    sreader = asyncio.StreamReader()
    sw = FakeWriter()
    greeting = b"\xff" + b"\x00" * 8 + b"\x7f" + b"\x03" + b"\x00" * 53
    rbody = b"\x05READY\x0bSocket-Type\x00\x00\x00\x06DEALER"
    ready = bytes([4, len(rbody)]) + rbody
    sreader.feed_data(greeting + ready)
    listener = asyncio.ensure_future(k.shell_listen(sreader, sw))
    for _ in range(10):
        await asyncio.sleep(0)
    hs_len = len(sw.buf)   # handshake bytes written by the kernel
    executed_before = 0
    results = []
    dead = False
    side = []
    for idx, req in enumerate(reqs):
        wire, idents, header = build_wire(req, idx)
        g.global_sym_table.pop("__marker__", None)
        s0, i0 = len(sw.buf), len(iow.buf)
        sreader.feed_data(py_encode(wire))
        for _ in range(400):
            await asyncio.sleep(0)
            if listener.done():
                break
        # wait until idle seen or listener died
        for _ in range(2000):
            if listener.done() or b'"idle"' in bytes(iow.buf[i0:]):
                break
            await asyncio.sleep(0.001)
        for _ in range(20):
            await asyncio.sleep(0)
        outs = []
        for stream, buf in (("shell", bytes(sw.buf[s0:])), ("iopub", bytes(iow.buf[i0:]))):
            # decode with an independent frame reader
            msgs = split_msgs(buf)
            for m in msgs:
                outs.append(decode_out(m, stream, None))
        results.append({"req": idx, "outs": outs, "count_after": k.execution_count, "dead": listener.done()})
        if listener.done():
            dead = True
            break
    listener.cancel()
    hk.cancel()
    for t in (listener, hk):
        try:
            await t
        except BaseException:
            pass
    logging.disable(logging.CRITICAL)
    return results


async def impl_interleave(p):
    """two shell connections to one kernel: A's cell awaits a gate while B's requests are served"""
    import interp_env
    from custom_components.pyscript.jupyter_kernel import Kernel, ZmqSocket
    interp_env.setup_stub(asyncio.get_running_loop())
    g, a = interp_env.new_ctx("jupyter_1")
    cfg = {"key": KEY.decode(), "signature_scheme": "hmac-sha256", "no_connect_timeout": 3000}
    k = Kernel(cfg, a, g, "jupyter_1")
    a.add_logger_handler(k.console)
    a.get_logger().propagate = False
    logging.getLogger("custom_components.pyscript.jupyter_kernel").propagate = False
    logging.getLogger("custom_components.pyscript.jupyter_kernel").setLevel(logging.CRITICAL)
    hk = asyncio.ensure_future(k.housekeep_run())
    gate = asyncio.Event()
    g.global_sym_table["wait_gate"] = gate.wait
    iow = FakeWriter()
    k.iopub_socket.add(ZmqSocket(asyncio.StreamReader(), iow, "PUB"))
    greeting = b"\xff" + b"\x00" * 8 + b"\x7f" + b"\x03" + b"\x00" * 53
    rbody = b"\x05READY\x0bSocket-Type\x00\x00\x00\x06DEALER"
    ready = bytes([4, len(rbody)]) + rbody
    conns = {}
    for name in ("A", "B"):
        rd, wr = asyncio.StreamReader(), FakeWriter()
        rd.feed_data(greeting + ready)
        conns[name] = (rd, wr, asyncio.ensure_future(k.shell_listen(rd, wr)))
    for _ in range(10):
        await asyncio.sleep(0)
    hs = {n: len(conns[n][1].buf) for n in conns}

    def wire_of(msg_id, mtype, code, nid, tag):
        header = {"msg_id": msg_id, "msg_type": mtype, "session": "s", "username": "u", "version": "5.3"}
        content = {"code": code, "cursor_pos": len(code), "store_history": True, "silent": False}
        frames = [json.dumps(header).encode(), b"{}", b"{}", json.dumps(content).encode()]
        return [f"{tag}{j}".encode() for j in range(nid)] + [b"<IDS|MSG>", sign(KEY, frames)] + frames

    async def settle(n=60):
        for _ in range(n):
            await asyncio.sleep(0)
        await asyncio.sleep(0.002)
        for _ in range(n):
            await asyncio.sleep(0)

    reqs = [{"id": "ma", "conn": "A", "mtype": "execute_request", "code": p["a_cell"]}]
    conns["A"][0].feed_data(py_encode(wire_of("ma", "execute_request", p["a_cell"], p["a_idents"], "ia")))
    await settle()
    for i, b in enumerate(p["b"]):
        if i == p["release_after"]:
            gate.set()
            await settle()
        code = CELLS[b["cell"]][0]
        reqs.append({"id": f"mb{i}", "conn": "B", "mtype": b["mtype"], "code": code})
        conns["B"][0].feed_data(py_encode(wire_of(f"mb{i}", b["mtype"], code, b["idents"], "ib")))
        await settle()
    gate.set()
    await settle(200)
    outs = []
    for name in conns:
        for m in split_msgs(bytes(conns[name][1].buf[hs[name]:])):
            outs.append(decode_out(m, "shell" + name, None))
    for m in split_msgs(bytes(iow.buf)):
        outs.append(decode_out(m, "iopub", None))
    for t in [c[2] for c in conns.values()] + [hk]:
        t.cancel()
        try:
            await t
        except BaseException:  # pylint: disable=broad-except
            pass
    return reqs, outs


def interleave_verdict(c):
    reqs, outs = c.payload["_reqs"], c.payload["_outs"]
    ids = {r["id"] for r in reqs}
    problems = []
    for o in outs:
        if o["type"] != "stream" and o["parent"] not in ids:
            problems.append(f"{o['stream']} {o['type']} carries parent {o['parent']!r}, which is no request of this run")
    for r in reqs:
        mine = [o for o in outs if o["parent"] == r["id"]]
        reply_t = r["mtype"].replace("_request", "_reply")
        own = [o for o in mine if o["stream"] == "shell" + r["conn"]]
        other = [o for o in mine if o["stream"].startswith("shell") and o["stream"] != "shell" + r["conn"]]
        if [o["type"] for o in own] != [reply_t]:
            problems.append(f"request {r['id']} ({r['mtype']}) on connection {r['conn']}: replies with it as parent on its own "
                            f"connection: {[o['type'] for o in own]}, expected exactly [{reply_t}]")
        if other:
            problems.append(f"request {r['id']}: a reply with it as parent went to the other connection")
        st = [o["content"]["execution_state"] for o in mine if o["stream"] == "iopub" and o["type"] == "status"]
        if st != ["busy", "idle"]:
            problems.append(f"request {r['id']} ({r['mtype']}): status broadcasts with it as parent: {st}, expected busy, idle")
        if r["mtype"] == "execute_request":
            n_in = sum(1 for o in mine if o["stream"] == "iopub" and o["type"] == "execute_input")
            if n_in != 1:
                problems.append(f"request {r['id']}: {n_in} execute_input broadcasts with it as parent")
    return "; ".join(problems[:3]) if problems else None


def split_msgs(buf):
    """independent parser of the bytes a socket wrote -> list of multipart messages"""
    msgs, cur, i = [], [], 0
    while i < len(buf):
        flag = buf[i]
        if flag & 2:
            ln = int.from_bytes(buf[i + 1:i + 9], "big")
            i += 9
        else:
            ln = buf[i + 1]
            i += 2
        body = buf[i:i + ln]
        i += ln
        if flag & 4:
            continue
        cur.append(bytes(body))
        if not flag & 1:
            msgs.append(cur)
            cur = []
    return msgs


def canon_shell(reqs, results):
    """render impl results in the driver's output format; also the order the streams interleave is per-stream"""
    out = []
    for r in results:
        req = reqs[r["req"]]
        if r["dead"] and not r["outs"]:
            out.append("rejected")
            break
        # driver order: busy, (execute_input, [execute_result]), reply, [error], idle -- iopub and shell are separate
        # byte streams, so only per-stream order is observable; render in the model's canonical interleaving
        iop = [o for o in r["outs"] if o["stream"] == "iopub" and o["type"] != "stream"]
        shl = [o for o in r["outs"] if o["stream"] == "shell"]
        seq = []

        def ren(o):
            t = o["type"]
            c = o["content"]
            if t == "status":
                t = "status:" + c["execution_state"]
            if t == "execute_reply":
                t = "execute_reply:" + c["status"]
            cnt = c.get("execution_count", "-") if isinstance(c, dict) else "-"
            pay = "-"
            if t == "execute_result":
                pay = "3"
            if t in ("execute_reply:error", "error"):
                pay = "2"
            par = o["parent"][1:] if o["parent"] else "-"
            ids = "(" + " ".join(hx(i) for i in o["idents"]) + ")"
            return f"({o['stream']} {ids} {t} {par} {cnt} {pay})"
        # canonical interleaving: iopub up to (not incl.) 'error'/'status:idle', then shell, then rest of iopub
        pre = []
        post = []
        for o in iop:
            t = o["type"]
            if t == "error" or (t == "status" and o["content"]["execution_state"] == "idle"):
                post.append(o)
            elif post:
                post.append(o)
            else:
                pre.append(o)
        seq = [ren(o) for o in pre] + [ren(o) for o in shl] + [ren(o) for o in post]
        out.append("(" + " ".join(seq) + f" count={r['count_after']})")
        if r["dead"]:
            out.append("rejected-after-output")
            break
    return " ".join(out)


def shell_line(reqs):
    items = []
    for i, q in enumerate(reqs):
        kind = CELLS[q["cell"]][1]
        res = ["v", 3] if kind == "v" else (["e", 2] if kind == "e" else "none")
        items.append([q["corrupt"] is None, q["mtype"], q["store"], q["cell"], res,
                      [hx(f"id{j}".encode()) for j in range(q["idents"])], i])
    return "C19 " + sx(["shell", items])


def run_impl(cases):
    loop = asyncio.new_event_loop()
    asyncio.set_event_loop(loop)
    try:
        for c in cases:
            loop.run_until_complete(_run_one(c))
    finally:
        loop.close()


async def _run_one(c):
    p = c.payload
    k = p["kind"]
    unhx = lambda s: b"" if s == "-" else bytes.fromhex(s)  # noqa: E731
    if k == "roundtrip":
        parts = [unhx(x) for x in p["parts"]]
        trailing = unhx(p["trailing"])
        c.spec = "ok (" + " ".join(p["parts"]) + ") " + p["trailing"]
        c.line = ["C19 " + sx(["enc", p["parts"]])]
        try:
            wire = await impl_send_multipart(parts)
        except Exception as e:  # an exception of the implementation is an outcome, not a harness error
            c.impl = f"ok raise:{type(e).__name__} | raise:{type(e).__name__}"
            return
        # choose a fragmentation deterministically from the payload
        import random
        rng = random.Random(len(wire) * 7919 + len(parts))
        frs = fragmentations(rng, len(wire) + len(trailing), "quick")
        if len(wire) + len(trailing) > 30:
            frs = frs[:2] + frs[-3:]
        outs = []
        for cuts in frs:
            outs.append(await impl_recv(cut(wire + trailing, cuts)))
        c.impl = "ok " + hx(wire) + " | " + " | ".join(sorted(set(outs)))
        c.payload["fragmentations"] = len(frs)
        # model lines: enc + recv (unfragmented and 1-byte chunks: fragment independence is a theorem)
        c.line = ["C19 " + sx(["enc", p["parts"]])] + \
                 ["C19 " + sx(["recv", [hx(x) for x in cut(wire + trailing, cuts)]]) for cuts in frs[:3]]
        c.spec = "ok (" + " ".join(p["parts"]) + ") " + p["trailing"]
    elif k == "single":
        m = unhx(p["msg"])
        c.spec = f"ok {p['msg']} -"
        c.line = ["C19 " + sx(["encs", p["msg"]])]
        try:
            wire = await impl_send(m)
        except Exception as e:
            c.impl = f"ok raise:{type(e).__name__} | raise:{type(e).__name__}"
            return
        r1 = await impl_recv([wire], single=True)
        r2 = await impl_recv([bytes([b]) for b in wire] if len(wire) < 3000 else [wire[:5], wire[5:]], single=True)
        c.impl = "ok " + hx(wire) + " | " + " | ".join(sorted({r1, r2}))
        c.line = ["C19 " + sx(["encs", p["msg"]]), "C19 " + sx(["recvs", [hx(wire)]])]
        c.spec = f"ok {p['msg']} -"
    elif k == "stream":
        chunks = [unhx(x) for x in p["chunks"]]
        c.impl = await impl_recv(chunks)
        c.line = ["C19 " + sx(["recv", p["chunks"]])]
        c.spec = None
    elif k == "shell":
        results = await impl_shell(p["reqs"])
        c.impl = canon_shell(p["reqs"], results)
        c.payload["_details"] = [{"req": r["req"], "dead": r["dead"], "count_after": r["count_after"],
                                 "outs": [{kk: (vv if kk != "idents" else [hx(i) for i in vv]) for kk, vv in o.items()}
                                          for o in r["outs"]]} for r in results]
        c.line = [shell_line(p["reqs"])]
        c.spec = None
    elif k == "concurrent-send":
        sent = [[unhx(x) for x in parts] for parts in p["senders"]]
        try:
            wire = await impl_concurrent_send(sent)
            got = split_msgs(wire)
            c.payload["_received"] = [[hx(x) for x in m] for m in got]
        except Exception as e:  # pylint: disable=broad-except
            c.payload["_received"] = f"raise:{type(e).__name__}"
        c.impl = None
        c.line = []
        c.spec = None
    elif k == "interleave":
        reqs, outs = await impl_interleave(p)
        c.payload["_reqs"] = reqs
        c.payload["_outs"] = [{kk: (vv if kk != "idents" else [hx(i) for i in vv]) for kk, vv in o.items() if kk != "content"}
                              | {"content": {"execution_state": o["content"].get("execution_state")} if isinstance(o["content"], dict) else {}}
                              for o in outs]
        c.impl = None
        c.line = []
        c.spec = None


# the generic runner expects one line per case; C19 cases have several -> custom execute
def _drive_multi(cases):
    lines, owners = [], []
    for c in cases:
        for l in (c.line or []):
            lines.append(l)
            owners.append(c)
    outs = common.drive(lines)
    acc = {}
    for o, c in zip(outs, owners):
        acc.setdefault(id(c), []).append(o)
    for c in cases:
        o = acc.get(id(c), [])
        k = c.payload["kind"]
        if k in ("roundtrip", "single"):
            c.model = o[0] + " | " + " | ".join(sorted(set(o[1:]))) if o else None
        else:
            c.model = o[0] if o else None


def verdict(c):
    """the property, checked directly on the implementation's behaviour"""
    k = c.payload["kind"]
    if k in ("roundtrip", "single"):
        got = c.impl.split(" | ")[1:]
        if got != [c.spec]:
            return f"round trip failed ({'long' if 'long' in c.tags else 'short'} frames): sent {c.spec[:80]!r}, received {str(got)[:80]!r}"
        return None
    if k == "shell":
        return shell_verdict(c)
    if k == "interleave":
        return interleave_verdict(c)
    if k == "concurrent-send":
        got = c.payload.get("_received")
        want = sorted(c.payload["senders"])
        if not isinstance(got, list) or sorted(got) != want:
            return (f"{len(want)} tasks sent one message each on one socket (drain suspends): the stream decodes to "
                    f"{str(got)[:120]}, expected the {len(want)} messages intact")
        return None
    return None


def shell_verdict(c):
    reqs = c.payload["reqs"]
    det = c.payload.get("_details", [])
    count = 1
    for r in det:
        q = reqs[r["req"]]
        outs = r["outs"]
        if q["corrupt"] is not None:
            if outs:
                return f"request {r['req']} with {q['corrupt']} was answered: {[o['type'] for o in outs]}"
            if r["count_after"] != count:
                return f"request {r['req']} with {q['corrupt']} changed the execution counter"
            return None
        shell = [o for o in outs if o["stream"] == "shell"]
        iop = [o for o in outs if o["stream"] == "iopub"]
        replied = q["mtype"] in ("execute_request", "kernel_info_request", "complete_request", "is_complete_request",
                                 "comm_info_request", "history_request")
        if len(shell) != (1 if replied else 0):
            return f"request {r['req']} ({q['mtype']}) got {len(shell)} replies"
        want_ids = [common_hex(f"id{j}".encode()) for j in range(q["idents"])]
        for o in outs:
            if not o["signed"]:
                return f"request {r['req']}: emission {o['type']} not signed with the session key"
            if o["parent"] != f"m{r['req']}":
                return f"request {r['req']}: emission {o['type']} has parent {o['parent']}"
        for o in shell:
            if o["idents"] != want_ids:
                return f"request {r['req']}: reply addressed to {o['idents']} instead of {want_ids}"
            if o["type"] != q["mtype"].replace("_request", "_reply"):
                return f"request {r['req']}: reply type {o['type']}"
        if not iop or iop[0]["type"] != "status" or iop[0]["content"]["execution_state"] != "busy":
            return f"request {r['req']}: iopub does not start with busy"
        if iop[-1]["type"] != "status" or iop[-1]["content"]["execution_state"] != "idle":
            return f"request {r['req']}: iopub does not end with idle"
        if q["mtype"] == "execute_request":
            kind = CELLS[q["cell"]][1]
            rep = shell[0]["content"]
            if rep.get("execution_count") != count:
                return f"request {r['req']}: execute_reply count {rep.get('execution_count')} != {count}"
            if (rep["status"] == "error") != (kind == "e"):
                return f"request {r['req']}: status {rep['status']} for cell kind {kind}"
            has_res = any(o["type"] == "execute_result" for o in iop)
            if has_res != (kind == "v"):
                return f"request {r['req']}: execute_result presence {has_res} for cell kind {kind}"
            want_val, want_out, want_exc = cell_expectation(CELLS[q["cell"]][0])
            got_out = "".join(o["content"].get("text", "") for o in iop if o["type"] == "stream" and o["content"].get("name") == "stdout")
            if got_out != want_out:
                return f"request {r['req']}: stdout of the cell is {got_out!r}, the cell prints {want_out!r}"
            st = [i for i, o in enumerate(iop) if o["type"] == "stream"]
            if st and st[-1] > len(iop) - 2:
                return f"request {r['req']}: stdout after idle"
            res = [o["content"].get("data", {}).get("text/plain") for o in iop if o["type"] == "execute_result"]
            if kind == "v" and res != [want_val]:
                return f"request {r['req']}: execute_result {res}, the cell's value is {want_val!r}"
            if kind == "e" and rep.get("ename") != want_exc:
                return f"request {r['req']}: execute_reply ename {rep.get('ename')!r}, the cell raises {want_exc}"
            inp = [o["content"] for o in iop if o["type"] == "execute_input"]
            if len(inp) != 1 or inp[0].get("code") != CELLS[q["cell"]][0] or inp[0].get("execution_count") != count:
                return f"request {r['req']}: execute_input broadcast {inp} does not show the cell / its count {count}"
            if q["store"]:
                count += 1
        if r["count_after"] != count:
            return f"request {r['req']}: counter {r['count_after']} != {count}"
    return None


def common_hex(b):
    return hx(b)


def classify(c, reason):
    import re
    return c.payload["kind"] + ":" + re.sub(r"\d+", "N", re.sub(r"[0-9a-f]{6,}", "H", reason))[:60]


def replay_cases(obj):
    return [Case(obj["case"], None)]


# hook the multi-line driver into the generic runner
_orig_execute = common._execute


def _execute(mod, cases, br):
    if mod.PROP != PROP:
        return _orig_execute(mod, cases, br)
    run_impl(cases)
    if br.driver_ok and common.DRV.exists():
        _drive_multi(cases)
    else:
        for c in cases:
            c.model = "err driver-not-built"
    for c in cases:
        c.line = " ; ".join(c.line or [])
        if "_details" in c.payload and len(json.dumps(c.payload)) > 4000:
            pass


common._execute = _execute
