"""C14 correspondence + property oracle: run_coro / create_task / done-callbacks / task.cancel on a real Home
Assistant instance (virtual clock), small task graphs x a fault plan that raises or cancels at every suspension point.

Observers of every run:
* API-level trace (wrappers around Function.create_task / task_done_callback_ctx / run_coro and the coroutine it
  awaits / store_hass_context / task_add_done_callback / task.remove_done_callback / task.cancel / task_unique /
  the reaper queue's get / AstEval.call_func for the done-callback invocations inside the finally) = the observed
  linearisation the Lean model replays, token by token, plus the class-level registries at every quiescent point;
* script-level markers (`rec(...)` before/after every step, in every callback) for the independence check.
"""
import asyncio
import json

import common
from common import Case, sx

PROP = "C14"
RULE = ("scenario = <=2 root runs (event trigger or service call, launched at grid instants) + task.create children, "
        "<=4 plan tasks (+ the controller task that injects cancels), plans of sleep / create / add_done_callback / "
        "remove_done_callback / wait / cancel (self or other) / task.unique / task.sleep(0) (a pure hand-over: every task "
        "created before it must have started when it returns) / raise; callbacks of 4 kinds (return, raise, "
        "sleep-then-return, register-another-callback-on-own-task).  Fault plan: the dry run, plus for every statically "
        "enumerated suspension point (every sleep/wait step, every sleeping callback) one run that raises right after "
        "it and one run in which a controller task calls task.cancel(target) while the target is suspended there (time "
        "taken from a dry run).  Every (scenario, fault) runs under legacy_decorators True and False.  Directed "
        "scenarios cover the DESIGN section-6 shapes (#19 first callback raises, #24 callback on a service task, cancel "
        "inside a callback, callback that resizes the dict, cancel before the first segment, cancellation queued behind "
        "another task's sleeping done-callback - all fixed in /repo and now expected to behave).  A second family runs OVERLAPPING runs of one function - calls of one @service "
        "(blocking, return_response), occurrences of one trigger, task.create of one function - each run carrying its "
        "own arguments in local variables across a sleep and reporting / returning them afterwards; nested, non-nested "
        "(the first sleeper wakes while the second still sleeps) and sequential timings.  Distinct by payload.")
ASSUMPTIONS = [
    "asyncio is cooperative: code between two awaits is atomic; Task.cancel() is delivered at the task's next resumption",
    "asyncio.Queue is FIFO (reaper queue); asyncio.wait returns when its tasks are done",
    "dict iteration raises RuntimeError when the dict was resized (CPython), and keeps insertion order",
    "task.executor is a thread hand-off: only its value / exception round trip is exercised (not modelled)",
]
TRUSTED = ["harness/run_C14.py (script generator, API-level trace wrappers, canonicalisation, verdict)",
           "harness/ha_env.py + vclock.py (real Home Assistant instance on a virtual clock)",
           "modelled not verified: asyncio scheduling/cancellation, Home Assistant event bus and service registry"]

GRID = 0.010
_SIDE = {}


# ------------------------------------------------------------------ scenario -> script
def gen_script(p, fault):
    fl = None
    if fault and fault[0] == "raise":
        fl = list(fault[:4]) if fault[1] == "step" else list(fault[:3])
    src = f"""
PLANS = {dict(enumerate(p['plans']))!r}
CBS = {({int(k): v for k, v in p['cbs'].items()})!r}
FAULT = {fl!r}
GRID = {GRID!r}
TASKS = {{}}

def do_cb(cbid, arg, extra):
    rec('cb', cbid, arg + 100 * extra, task.current_task())
    spec = CBS[cbid]
    if spec[0] == 'slow':
        rec('cbs', cbid, task.current_task())
        task.sleep(spec[1] * GRID)
        if FAULT == ['raise', 'cb', cbid]:
            raise ValueError('fault')
        rec('cbs-after', cbid)
    elif spec[0] == 'raise':
        raise ValueError('cb')
    elif spec[0] == 'mut':
        task.add_done_callback(task.current_task(), CBF[spec[1]], 99)
    elif spec[0] == 'uniq':
        task.unique(spec[1])
    elif spec[0] == 'cancel':
        if spec[1] in TASKS:
            try:
                task.cancel(TASKS[spec[1]])
            except TypeError:
                rec('cb-typeerror', cbid)

def cb1(arg, extra=0):
    do_cb(1, arg, extra)

def cb2(arg, extra=0):
    do_cb(2, arg, extra)

def cb3(arg, extra=0):
    do_cb(3, arg, extra)

def cb4(arg, extra=0):
    do_cb(4, arg, extra)

CBF = {{1: cb1, 2: cb2, 3: cb3, 4: cb4}}

def runner(i):
    TASKS[i] = task.current_task()
    rec('start', i, task.current_task())
    j = 0
    for st in PLANS[i]:
        rec('b', i, j)
        k = st[0]
        if k == 'sleep':
            task.sleep(st[1] * GRID)
            if FAULT == ['raise', 'step', i, j]:
                raise ValueError('fault')
        elif k == 'create':
            TASKS[st[1]] = task.create(runner, st[1])
        elif k == 'addcb':
            if st[1] in TASKS:
                try:
                    task.add_done_callback(TASKS[st[1]], CBF[st[2]], st[3])
                except KeyError:
                    rec('keyerror', i, j)
        elif k == 'rmcb':
            if st[1] in TASKS:
                try:
                    task.remove_done_callback(TASKS[st[1]], CBF[st[2]])
                except KeyError:
                    rec('keyerror', i, j)
        elif k == 'wait':
            if st[1] in TASKS:
                task.wait({{TASKS[st[1]]}})
                if FAULT == ['raise', 'step', i, j]:
                    raise ValueError('fault')
        elif k == 'cancel':
            if st[1] == i:
                task.cancel()
            elif st[1] in TASKS:
                try:
                    task.cancel(TASKS[st[1]])
                except TypeError:
                    rec('typeerror', i, j)
        elif k == 'uniq':
            task.unique(st[1])
        elif k == 'addcbk':
            if st[1] in TASKS:
                try:
                    task.add_done_callback(TASKS[st[1]], CBF[st[2]], st[3], extra=st[4])
                except KeyError:
                    rec('keyerror', i, j)
        elif k == 'cancelme':
            task.cancel(task.current_task())
        elif k == 'waitempty':
            try:
                task.wait(set())
            except ValueError:
                rec('valueerror', i, j)
        elif k == 'wait0':
            if st[1] in TASKS:
                task.wait({{TASKS[st[1]]}}, timeout=0)
        elif k == 'fin':
            try:
                task.sleep(st[1] * GRID)
                if FAULT == ['raise', 'step', i, j]:
                    raise ValueError('fault')
            finally:
                rec('fb', i, j)
                task.sleep(st[2] * GRID)
                rec('fa', i, j)
        elif k == 'yield':
            task.sleep(0)
            if FAULT == ['raise', 'step', i, j]:
                raise ValueError('fault')
        elif k == 'raise':
            raise ValueError('boom')
        rec('a', i, j)
        j += 1
    rec('end', i)
    return 100 + i

@event_trigger('go')
def launch(i=None):
    return runner(i)

@service
def svc(i=None):
    return runner(i)

@service(supports_response="optional")
def work(tag=None, delay=None):
    mine = tag
    keep = delay
    rec('w-in', 'svc', tag, delay)
    task.sleep(delay * GRID)
    rec('w-out', 'svc', tag, delay, mine, keep)
    return {{"tag": tag, "mine": mine, "delay": delay, "keep": keep}}

@event_trigger('tw')
def twork(tag=None, delay=None):
    mine = tag
    keep = delay
    rec('w-in', 'trig', tag, delay)
    task.sleep(delay * GRID)
    rec('w-out', 'trig', tag, delay, mine, keep)

def cwork(tag, delay):
    mine = tag
    keep = delay
    rec('w-in', 'create', tag, delay)
    task.sleep(delay * GRID)
    rec('w-out', 'create', tag, delay, mine, keep)
    return [tag, mine, delay, keep]

@event_trigger('spawn')
def spawn(tag=None, delay=None):
    t = task.create(cwork, tag, delay)
    task.wait({{t}})
    rec('c-res', tag, t.result())

@event_trigger('ctl')
def ctl(target=None):
    rec('ctl', target)
    try:
        task.cancel(TASKS[target])
    except TypeError:
        rec('ctl-typeerror', target)
    except KeyError:
        rec('ctl-keyerror', target)
"""
    return {"a.py": src}


def horizon(p):
    tot = sum(st[1] for pl in p["plans"] for st in pl if st[0] == "sleep")
    tot += sum(st[1] + st[2] for pl in p["plans"] for st in pl if st[0] == "fin")
    tot += sum(v[1] for v in p["cbs"].values() if v[0] == "slow") * 2
    calls = p.get("calls") or []
    return max([l[0] for l in p["launch"]] + [c[0] + c[3] for c in calls] + [0]) + tot + 4


# ------------------------------------------------------------------ one run on the real code
_UHOOK = {"trace": None, "installed": False}


def _install_unique_hook():
    """Wrap Function.task_unique_factory once per process, BEFORE pyscript is set up, so that every function table -
    also the one of the file-level context that done-callbacks run with - gets the traced task.unique.  The wrapper
    calls the real closure; it only records begin / end of the call while a trace is active."""
    if _UHOOK["installed"]:
        return
    from custom_components.pyscript.function import Function
    orig_factory = Function.task_unique_factory.__func__

    def factory(cls, ctx):
        inner = orig_factory(cls, ctx)

        async def task_unique(name, kill_me=False):
            tr = _UHOOK["trace"]
            if tr is None:
                return await inner(name, kill_me=kill_me)
            t = asyncio.current_task()
            tr.append(("ub", t, f"{ctx.get_global_ctx_name()}.{name}", bool(kill_me)))
            r = await inner(name, kill_me=kill_me)
            tr.append(("ua", t))
            return r
        return task_unique
    Function.task_unique_factory = classmethod(factory)
    _UHOOK["installed"] = True


def run_one(p, dry=None):
    from ha_env import run_ha
    _install_unique_hook()
    fault = p.get("fault")
    try:
        when = None
        if fault and fault[0] == "cancel":
            if dry is None:
                dry = run_ha(gen_script(p, None), bool(p["legacy"]), lambda env: _body(env, p, None, None))
            when = _fault_time(dry["records"], fault)
            if when is None:
                return {"impl": "fault-point-not-reached", "line": None, "records": [], "skipped": True}
        r = run_ha(gen_script(p, fault), bool(p["legacy"]), lambda env: _body(env, p, fault, when))
        return r
    except Exception as e:  # harness-level failure of this case
        return {"impl": f"harness-exception:{type(e).__name__}:{e}", "line": None, "records": []}


def _fault_time(records, fault):
    """(virtual time, plan index of the target) at which the target is suspended at the fault point in the dry run"""
    if fault[1] == "step":
        i, j = fault[2], fault[3]
        tb = ta = None
        for r in records:
            if r[1] == "b" and r[2] == i and r[3] == j:
                tb = r[0]
            if r[1] == "a" and r[2] == i and r[3] == j:
                ta = r[0]
        if tb is None or (ta is not None and ta < tb + GRID * 0.9):
            return None
        return (round(tb + GRID / 2, 4), i)
    if fault[1] == "fin":
        for r in records:
            if r[1] == "fb" and r[2] == fault[2] and r[3] == fault[3]:
                return (round(r[0] + GRID / 2, 4), fault[2])
        return None
    cbid = fault[2]
    for r in records:
        if r[1] == "cbs" and r[2] == cbid:
            return (round(r[0] + GRID / 2, 4), r[3])
    return None


async def _body(env, p, fault, when):
    from custom_components.pyscript.function import Function
    from custom_components.pyscript.eval import AstEval

    loop = env.loop
    trace = []
    responses = []
    phase = {}
    depth = {}
    udepth = [0]
    saved = {}

    def cur():
        return asyncio.current_task()

    def argv(args, kwargs):
        """one number for (args, kwargs) of a done-callback: positional arg + 100 * keyword `extra`"""
        return (args[0] if args else 0) + 100 * ((kwargs or {}).get("extra", 0) or 0)

    def cbid(func):
        try:
            name = func.get_name()
        except Exception:  # pylint: disable=broad-except
            name = getattr(func, "__name__", "")
        return int(name[2:]) if name.startswith("cb") and name[2:].isdigit() else 0

    q = Function.task_reaper_q
    orig_get = q.get

    waiting = [None]

    async def get():
        # the reaper asks for its next command: it is done with the previous one.  If that one was for a task that had
        # not started yet (since /repo ca978a8 the reaper waits for its first statement), the cancel is delivered now.
        if waiting[0] is not None:
            trace.append(("rp", waiting[0]))
            waiting[0] = None
        cmd = await orig_get()
        if cmd and cmd[0] == "cancel":
            if cmd[1] not in phase and not cmd[1].done() and any(e[0] == "cr" and e[1] is cmd[1] for e in trace):
                trace.append(("rw", cmd[1]))
                waiting[0] = cmd[1]
            else:
                trace.append(("rp", cmd[1]))
        return cmd
    q.get = get
    q.put_nowait(["nop"])
    await env.settle(0)

    # --- create_task / task_done_callback_ctx / run_coro ---------------------------------------
    orig_create = Function.create_task.__func__
    saved["create_task"] = Function.__dict__["create_task"]

    def create_task(cls, coro, ast_ctx=None):
        t = orig_create(cls, coro, ast_ctx=ast_ctx)
        trace.append(("cr", t, ast_ctx is not None))

        def on_done(_t):
            # a task that ends without run_coro ever having started was cancelled before its first segment
            if t not in phase:
                ent = Function.task2cb.get(t)
                lost = [(cbid(c), argv(info[1], info[2])) for c, info in ent["cb"].items()] if ent else []
                trace.append(("nx", t, lost))
        t.add_done_callback(on_done)
        return t
    Function.create_task = classmethod(create_task)

    orig_ctx = Function.task_done_callback_ctx.__func__
    saved["task_done_callback_ctx"] = Function.__dict__["task_done_callback_ctx"]

    def task_done_callback_ctx(cls, task, ast_ctx):
        if cur() is not task:
            trace.append(("pre", task))
        return orig_ctx(cls, task, ast_ctx)
    Function.task_done_callback_ctx = classmethod(task_done_callback_ctx)

    orig_run_coro = Function.run_coro.__func__
    saved["run_coro"] = Function.__dict__["run_coro"]

    def val(r):
        return r if isinstance(r, int) and not isinstance(r, bool) else 0

    async def run_coro(cls, coro, ast_ctx=None):
        t = cur()
        trace.append(("st", t))
        phase[t] = "run"

        async def body():
            try:
                r = await coro
            except asyncio.CancelledError:
                trace.append(("eb", t, "can", 0))
                phase[t] = "fin"
                raise
            except Exception:
                trace.append(("eb", t, "exc", 0))
                phase[t] = "fin"
                raise
            trace.append(("eb", t, "ok", val(r)))
            phase[t] = "fin"
            return r
        res = "?"
        try:
            r = await orig_run_coro(cls, body(), ast_ctx)
            res = f"v{val(r)}"
            return r
        except asyncio.CancelledError:
            res = "can"
            raise
        except BaseException:
            res = "err"
            raise
        finally:
            phase[t] = "done"
            trace.append(("cl", t, res))
    Function.run_coro = classmethod(run_coro)

    orig_store = Function.store_hass_context.__func__
    saved["store_hass_context"] = Function.__dict__["store_hass_context"]

    def store_hass_context(cls, hass_context):
        trace.append(("sc", cur()))
        return orig_store(cls, hass_context)
    Function.store_hass_context = classmethod(store_hass_context)

    # --- callbacks API ---------------------------------------------------------------------------
    orig_add = Function.task_add_done_callback.__func__
    saved["task_add_done_callback"] = Function.__dict__["task_add_done_callback"]

    def task_add_done_callback(cls, task, ast_ctx, callback, *args, **kwargs):
        try:
            r = orig_add(cls, task, ast_ctx, callback, *args, **kwargs)
        except KeyError:
            trace.append(("ac", cur(), task, cbid(callback), argv(args, kwargs), "KeyError", task.done()))
            raise
        trace.append(("ac", cur(), task, cbid(callback), argv(args, kwargs), "ok", task.done()))
        return r
    Function.task_add_done_callback = classmethod(task_add_done_callback)

    saved["fn_remove"] = Function.functions["task.remove_done_callback"]
    orig_remove = saved["fn_remove"]

    def remove_done_callback(task, callback):
        try:
            r = orig_remove(task, callback)
        except KeyError:
            trace.append(("rc", cur(), task, cbid(callback), "KeyError", task.done()))
            raise
        trace.append(("rc", cur(), task, cbid(callback), "ok", task.done()))
        return r
    Function.functions["task.remove_done_callback"] = remove_done_callback

    saved["fn_cancel"] = Function.functions["task.cancel"]
    orig_cancel = saved["fn_cancel"]

    async def user_task_cancel(task=None):
        t = cur()
        trace.append(("cnb", t, task, task.done() if task is not None else False))
        try:
            r = await orig_cancel(task)
        except TypeError:
            trace.append(("cne", t))
            raise
        trace.append(("cna", t))
        return r
    Function.functions["task.cancel"] = user_task_cancel

    _UHOOK["trace"] = trace          # task.unique is traced through the hook installed before pyscript was set up

    # --- done-callback invocations inside run_coro's finally -------------------------------------
    orig_call_func = AstEval.call_func
    saved["call_func"] = orig_call_func

    async def call_func(self, func, func_name, *args, **kwargs):
        t = cur()
        if phase.get(t) == "fin" and not depth.get(t):
            depth[t] = 1
            trace.append(("cbb", t, cbid(func), argv(args, kwargs)))
            try:
                r = await orig_call_func(self, func, func_name, *args, **kwargs)
            except asyncio.CancelledError:
                trace.append(("cbe", t, "can"))
                raise
            except Exception:
                trace.append(("cbe", t, "raises"))
                raise
            finally:
                depth[t] = 0
            trace.append(("cbe", t, "ok"))
            return r
        return await orig_call_func(self, func, func_name, *args, **kwargs)
    AstEval.call_func = call_func

    try:
        base = loop.time()

        def fire(kind, i):
            if kind == "trig":
                env.hass.bus.async_fire("go", {"i": i})
            else:
                loop.create_task(env.hass.services.async_call("pyscript", "svc", {"i": i}, blocking=False))

        for inst, kind, i in p["launch"]:
            loop.call_at(base + inst * GRID, fire, kind, i)

        async def svc_call(tag, delay):
            try:
                r = await env.hass.services.async_call("pyscript", "work", {"tag": tag, "delay": delay},
                                                       blocking=True, return_response=True)
            except Exception as e:  # pylint: disable=broad-except
                r = f"exc:{type(e).__name__}"
            responses.append([tag, r])

        def call(how, tag, delay):
            if how == "svc":
                loop.create_task(svc_call(tag, delay))
            elif how == "trig":
                env.hass.bus.async_fire("tw", {"tag": tag, "delay": delay})
            else:
                env.hass.bus.async_fire("spawn", {"tag": tag, "delay": delay})

        for inst, how, tag, delay in p.get("calls") or []:
            loop.call_at(base + inst * GRID, call, how, tag, delay)
        if when is not None:
            loop.call_at(base + when[0] - (base - loop.T0), lambda: env.hass.bus.async_fire("ctl", {"target": when[1]}))

        def snapshot():
            known = [e[1] for e in trace if e[0] == "cr"]
            snap = {"status": {t: ("d" if t.done() else "r") for t in known},
                    "ours": set(Function.our_tasks),
                    "cb": {t: [(cbid(c), argv(info[1], info[2])) for c, info in v["cb"].items()]
                           for t, v in Function.task2cb.items()},
                    "ctx": set(Function.task2context),
                    # keys are (ctx_name, name) tuples since /repo ef1f444; the trace / the model use "ctx.name"
                    "t2n": {t: sorted((f"{k[0]}.{k[1]}" if isinstance(k, tuple) else str(k)) for k in ns)
                            for t, ns in Function.unique_task2name.items()},
                    "queue": [c[1] for c in list(q._queue) if c and c[0] == "cancel"]}
            trace.append(("snap", snap))

        for k in range(horizon(p)):
            await loop.settle_until(base - loop.T0 + k * GRID + GRID / 4)
            snapshot()
    finally:
        Function.create_task = saved["create_task"]
        Function.task_done_callback_ctx = saved["task_done_callback_ctx"]
        Function.run_coro = saved["run_coro"]
        Function.store_hass_context = saved["store_hass_context"]
        Function.task_add_done_callback = saved["task_add_done_callback"]
        Function.functions["task.remove_done_callback"] = saved["fn_remove"]
        Function.functions["task.cancel"] = saved["fn_cancel"]
        _UHOOK["trace"] = None
        AstEval.call_func = saved["call_func"]
    out = _canon(p, trace, env.records)
    out["resp"] = responses
    return out


def _canon(p, trace, records):
    num = {}

    def n(t):
        return num.get(t, 99)
    order = []
    ops, toks = [], []
    ran = {}
    info = {"cbe_can": [], "cbe_raises": [], "withctx": {}, "keyerr_live": [], "typeerr_live": [], "stillborn": []}
    i = 0
    last_status = {}
    while i < len(trace):
        e = trace[i]
        k = e[0]
        if k == "cr":
            num[e[1]] = len(num)
            order.append(e[1])
            pre = i + 1 < len(trace) and trace[i + 1][0] == "pre" and trace[i + 1][1] is e[1]
            info["withctx"][n(e[1])] = bool(e[2])
            ops.append(["cr", n(e[1]), e[2], pre])
            toks.append("c")
            if pre:
                i += 1
        elif k == "pre":
            toks.append("pre!")           # task_done_callback_ctx from outside, not right after create_task
        elif k == "st":
            ops.append(["st", n(e[1])])
            toks.append("s")
        elif k == "nx":
            ops.append(["nx", n(e[1])])
            toks.append("s:dead:lost=(" + " ".join(f"{c}:{a}" for c, a in e[2]) + ")")
            info["stillborn"].append(n(e[1]))
        elif k == "sc":
            ops.append(["sc", n(e[1])])
            toks.append("h")
        elif k == "ac":
            ops.append(["ac", n(e[1]), n(e[2]), e[3], e[4]])
            toks.append("a:" + e[5])
            if e[5] == "KeyError" and e[2] in num and not e[6]:
                info["keyerr_live"].append(n(e[2]))
        elif k == "rc":
            ops.append(["rc", n(e[1]), n(e[2]), e[3]])
            toks.append("m:" + e[4])
            if e[4] == "KeyError" and e[2] in num and not e[5]:
                info["keyerr_live"].append(n(e[2]))
        elif k == "cnb":
            nxt = trace[i + 1] if i + 1 < len(trace) else None
            tgt = "self" if e[2] is None else n(e[2])
            ops.append(["cn", n(e[1]), tgt])
            if nxt and nxt[0] == "cna" and nxt[1] is e[1]:
                toks.append("k:ok")
                i += 1
            elif nxt and nxt[0] == "cne" and nxt[1] is e[1]:
                toks.append("k:TypeError")
                if e[2] is not None and e[2] in num and not e[3]:
                    info["typeerr_live"].append(n(e[2]))
                i += 1
            else:
                toks.append("k:park")
        elif k in ("cna", "cne"):
            toks.append(k + "!")
        elif k == "ub":
            done = i + 1 < len(trace) and trace[i + 1][0] == "ua" and trace[i + 1][1] is e[1]
            ops.append(["u", n(e[1]), e[2], e[3]])
            toks.append("u:ok" if done else "u:park")
            if done:
                i += 1
        elif k == "ua":
            toks.append("ua!")
        elif k == "rw":
            ops.append(["rw", n(e[1])])
            toks.append("r:wait")
        elif k == "rp":
            ops.append(["rp", n(e[1])])
            toks.append("r:ok")
        elif k == "eb":
            ops.append(["eb", n(e[1]), e[2], e[3]])
            toks.append("e:ok")
        elif k == "cbb":
            ops.append(["cbb", n(e[1])])
            toks.append(f"b:{e[2]}:{e[3]}")
            ran.setdefault(e[1], []).append(f"{e[2]}:{e[3]}")
        elif k == "cbe":
            ops.append(["cbe", n(e[1]), e[2]])
            toks.append("f:ok")
            if e[2] == "can":
                info["cbe_can"].append(n(e[1]))
            if e[2] == "raises":
                info["cbe_raises"].append(n(e[1]))
        elif k == "cl":
            ops.append(["cl", n(e[1])])
            toks.append(f"x:{e[2]}:ran=(" + " ".join(ran.get(e[1], [])) + ")")
        elif k == "snap":
            s = e[1]
            ops.append(["snap"])
            st = "".join(s["status"].get(t, "?") for t in order)
            ours = "(" + " ".join(str(n(t)) for t in order if t in s["ours"]) + ")"
            cbs = " ".join(f"{n(t)}=(" + " ".join(f"{c}:{a}" for c, a in s["cb"][t]) + ")" for t in order if t in s["cb"])
            ctx = "(" + " ".join(str(n(t)) for t in order if t in s["ctx"]) + ")"
            t2n = " ".join(f"{n(t)}=" + "{" + ",".join(s["t2n"][t]) + "}" for t in order if t in s["t2n"])
            qs = "(" + " ".join(str(n(t)) for t in s["queue"]) + ")"
            toks.append(f"[{st} | ours={ours} | cb={cbs} | ctx={ctx} | t2n={t2n} | q={qs}]")
        i += 1
    line = "C14 " + sx(["run"] + ops)
    # script-level log: per plan index, the (time, marker) sequence
    log = []
    for r in records:
        tag = r[1]
        if tag == "start":
            log.append([r[0], "start", r[2]])
        elif tag in ("b", "a", "keyerror", "typeerror"):
            log.append([r[0], tag, r[2], r[3]])
        elif tag == "end":
            log.append([r[0], "end", r[2]])
        elif tag == "cb":
            log.append([r[0], "cb", r[2], r[3]])
    wlog = [[r[0]] + [x if isinstance(x, (int, float, str, list, dict, type(None))) else str(type(x).__name__)
                      for x in r[1:]] for r in records if r[1] in ("w-in", "w-out", "c-res")]
    # records with task -> plan index for the fault-time lookup
    start_of = {}
    for r in records:
        if r[1] == "start":
            start_of[r[3]] = r[2]
    rec2 = []
    for r in records:
        if r[1] == "cbs":
            rec2.append((r[0], "cbs", r[2], start_of.get(r[3], -1)))
        elif r[1] in ("b", "a", "fb"):
            rec2.append((r[0], r[1], r[2], r[3]))
    return {"impl": "ok " + " ".join(toks), "line": line, "log": log, "records": rec2, "info": info, "wlog": wlog}


# ------------------------------------------------------------------ verdict: the property on the recorded run
def _tok_split(s):
    """tokens of a column; snapshot tokens `[ ... ]` contain spaces"""
    out, cur, depth = [], [], 0
    for w in (s or "").split(" "):
        cur.append(w)
        depth += w.count("[") + w.count("(") - w.count("]") - w.count(")")
        if depth <= 0:
            out.append(" ".join(cur))
            cur, depth = [], 0
    if cur:
        out.append(" ".join(cur))
    return out


def _related(p, target):
    """plan indices whose behaviour may legitimately depend on the fault target: its connected component in the
    undirected 'references' graph (create / wait / cancel / add- / remove-callback), plus every task.unique user"""
    n = len(p["plans"])
    adj = {i: set() for i in range(n)}
    for i, pl in enumerate(p["plans"]):
        for st in pl:
            if st[0] in ("create", "wait", "wait0", "cancel", "addcb", "addcbk", "rmcb") and isinstance(st[1], int) \
                    and 0 <= st[1] < n:
                adj[i].add(st[1])
                adj[st[1]].add(i)
    rel, todo = set(), [target]
    while todo:
        x = todo.pop()
        if x in rel or x not in adj:
            continue
        rel.add(x)
        todo += list(adj[x])
    uniq = {i for i, pl in enumerate(p["plans"]) if any(st[0] == "uniq" for st in pl)}
    used = {st[2] for pl in p["plans"] for st in pl if st[0] in ("addcb", "addcbk")}
    for cid, spec in p["cbs"].items():
        if int(cid) in used and spec[0] in ("uniq", "cancel"):
            return set(range(n))          # a callback that claims a name / cancels a task couples everything
    if uniq & rel:
        for u in uniq:
            todo.append(u)
        while todo:
            x = todo.pop()
            if x in rel:
                continue
            rel.add(x)
            todo += list(adj[x])
    return rel


def handover_problem(p, log):
    """task.sleep(0) is a hand-over: a task created (task.create returned) before the sleep began has run its first
    segment - it has written its 'start' marker - when the sleep returns (asyncio runs ready tasks first in, first out)"""
    pending, waiting = set(), {}
    for e in log:
        tag = e[1]
        if tag == "start":
            pending.discard(e[2])
        elif tag in ("b", "a"):
            i, j = e[2], e[3]
            st = p["plans"][i][j]
            if tag == "a" and st[0] == "create":
                pending.add(st[1])
            elif tag == "b" and st[0] == "yield":
                waiting[i] = set(pending)
            elif tag == "a" and st[0] == "yield":
                late = waiting.pop(i, set()) & pending
                if late:
                    return f"yield-did-not-hand-over task={i} step={j} not-started={sorted(late)}"
    return None


def overlap_problem(p, wlog, resp):
    """every run of the overlapping family reports exactly its own arguments / locals, at its own time, and returns them"""
    calls = p.get("calls") or []
    if not calls:
        return None
    ins = [e for e in wlog if e[1] == "w-in"]
    outs = [e for e in wlog if e[1] == "w-out"]
    if len(ins) != len(calls) or len(outs) != len(calls):
        return f"overlapping-runs-mixed-up {len(ins)} runs entered, {len(outs)} reported, {len(calls)} launched"
    for inst, how, tag, delay in calls:
        a = [e for e in ins if e[2:] == [how, tag, delay]]
        b = [e for e in outs if e[3] == tag]
        if len(a) != 1 or len(b) != 1:
            return f"overlapping-runs-mixed-up run tag={tag}: entered {len(a)}x, reported {len(b)}x"
        if b[0][2:] != [how, tag, delay, tag, delay]:
            return f"overlapping-runs-mixed-up run tag={tag} reported {b[0][2:]}"
        if abs((b[0][0] - a[0][0]) - delay * GRID) > 0.0015:
            return f"overlapping-runs-mixed-up run tag={tag} woke after {round(b[0][0] - a[0][0], 4)}s, slept {delay * GRID}s"
        if how == "svc":
            got = [x[1] for x in resp if x[0] == tag]
            if got != [{"tag": tag, "mine": tag, "delay": delay, "keep": delay}]:
                return f"overlapping-runs-mixed-up service call tag={tag} returned {got}"
        if how == "create":
            got = [e[3] for e in wlog if e[1] == "c-res" and e[2] == tag]
            if got != [[tag, tag, delay, delay]]:
                return f"overlapping-runs-mixed-up task.create run tag={tag} returned {got}"
    return None


def verdict(c):
    r = _SIDE.get(_key(c.payload))
    if r is None or r.get("skipped"):
        return None
    if r["line"] is None:
        return "harness " + c.impl
    info = r["info"]
    it, sp = _tok_split(c.impl), _tok_split(c.spec)
    if it and it[0] == "ok":
        it = it[1:]
    problems = []
    # (1) done-callbacks exactly once + result, per finished task: impl token vs the spec's
    if c.spec is not None and len(it) == len(sp):
        for a, b in zip(it, sp):
            if a.startswith("s:dead") and a != b:
                problems.append(f"callbacks-never-run impl={a.split('lost=')[1]}")
            if a.startswith("x:") and a != b:
                ra, rb = a.split(":ran=")[1], b.split(":ran=")[1]
                if ra != rb:
                    problems.append(f"callbacks impl={ra} spec={rb}")
                else:
                    problems.append(f"result impl={a.split(':')[1]} spec={b.split(':')[1]}")
    # (2) no finished task in any registry, at every quiescent point
    for a in it:
        if a.startswith("["):
            parts = a[1:-1].split(" | ")
            st = parts[0]
            listed = set()
            for part in parts[1:5]:
                body = part.split("=", 1)[1]
                if part.startswith("ours") or part.startswith("ctx"):
                    listed |= {int(x) for x in body.strip("()").split()}
                else:
                    listed |= {int(x.split("=")[0]) for x in body.split(" ") if "=" in x and x.split("=")[0].isdigit()}
            for t in sorted(listed):
                if t < len(st) and st[t] == "d":
                    problems.append(f"registry-leak task={t}")
                    break
    # (3) API calls that fail on a task that has not finished
    if info["keyerr_live"]:
        problems.append("add-remove-callback-keyerror-on-unfinished-task")
    if info["typeerr_live"]:
        problems.append("cancel-typeerror-on-unfinished-task")
    # (4) independence: tasks unrelated to the fault target behave exactly as in the dry run
    dry = r.get("dry_log")
    fault = c.payload.get("fault")
    if dry is not None and fault:
        target = r.get("fault_target")
        rel = _related(c.payload, target) if target is not None else set(range(len(c.payload["plans"])))
        for i in range(len(c.payload["plans"])):
            if i in rel:
                continue
            a = [e for e in r["log"] if e[1] != "cb" and e[2] == i]
            b = [e for e in dry if e[1] != "cb" and e[2] == i]
            if a != b:
                problems.append(f"independence task={i} differs from the dry run")
                break
    ho = handover_problem(c.payload, r["log"])
    if ho:
        problems.insert(0, "independence:" + ho)
    ov = overlap_problem(c.payload, r.get("wlog", []), r.get("resp", []))
    if ov:
        problems.insert(0, "independence:" + ov)
    if not problems:
        return None
    if ho or ov:
        return "; ".join(problems)
    # order: root causes first
    if info.get("stillborn"):
        return "cancelled-before-first-segment:never-cleaned " + "; ".join(problems)
    if info["cbe_can"]:
        return "finally-aborted:cancel-inside-callback " + "; ".join(problems)
    if any(t.startswith("b:abort") for t in _tok_split(c.model)) or any(":err:" in t or t.startswith("x:err") for t in it):
        return "finally-aborted:callback-dict-resized " + "; ".join(problems)
    for pr in problems:
        if pr.startswith("callbacks") and info["cbe_raises"]:
            return "callbacks-skipped:after-a-callback-raised " + "; ".join(problems)
    if info["keyerr_live"]:
        ctxless = [t for t in info["keyerr_live"] if not info["withctx"].get(t, True)]
        return ("callback-keyerror:task-created-without-ctx " if ctxless else "callback-keyerror:other ") + "; ".join(problems)
    if info["typeerr_live"]:
        return "cancel-typeerror:task-not-started " + "; ".join(problems)
    if problems[0].startswith("independence") and any(
            t.startswith("[") and not t.rstrip("]").endswith("q=()") for t in it):
        # a cancel command was still queued at a quiescent point: the reaper was blocked in `await cmd[1]`
        return "independence:cancel-queued-behind-busy-reaper " + "; ".join(problems)
    return "other:" + problems[0].split(" ")[0] + " " + "; ".join(problems)


def classify(c, reason):
    return reason.split(" ")[0]


# ------------------------------------------------------------------ generators
CB_KINDS = {"ok": ["ok"], "raise": ["raise"], "slow": ["slow", 2], "mut": ["mut", 4], "uniq": ["uniq", "n"],
            "cancel": ["cancel", 0]}


def faults_of(p):
    fs = [None]
    for i, pl in enumerate(p["plans"]):
        for j, st in enumerate(pl):
            if st[0] in ("sleep", "wait"):
                fs.append(["raise", "step", i, j])
                fs.append(["cancel", "step", i, j])
            elif st[0] == "yield":
                fs.append(["raise", "step", i, j])      # zero-length suspension: no instant at which to cancel
            elif st[0] == "fin":
                fs.append(["raise", "step", i, j])      # raise inside the try: the finally block still sleeps
                fs.append(["cancel", "step", i, j])     # cancel inside the try
                fs.append(["cancel", "fin", i, j])      # cancel inside the finally block
    used = {st[2] for pl in p["plans"] for st in pl if st[0] in ("addcb", "addcbk")}
    for cid, spec in p["cbs"].items():
        if spec[0] == "slow" and int(cid) in used:
            fs.append(["raise", "cb", int(cid)])
            fs.append(["cancel", "cb", int(cid)])
    return fs


def mk(p, tags):
    c = Case(p, None, tags=tags)
    return c


def expand(scn, tags):
    out = []
    for f in faults_of(scn):
        for leg in (True, False):
            p = dict(scn, fault=f, legacy=leg)
            ft = "dry" if f is None else f[0]
            out.append(mk(p, tags + (ft, "legacy" if leg else "new")))
    return out


def directed():
    cbs = {"1": ["raise"], "2": ["ok"], "3": ["slow", 2], "4": ["ok"]}
    S = []
    # #19: first of two/three callbacks raises
    S.append({"plans": [[["create", 1], ["addcb", 1, 1, 7], ["addcb", 1, 2, 8], ["addcb", 1, 4, 9], ["wait", 1]],
                        [["sleep", 1]]], "cbs": cbs, "launch": [[0, "trig", 0]]})
    # replace / remove / order
    S.append({"plans": [[["create", 1], ["addcb", 1, 2, 1], ["addcb", 1, 4, 2], ["addcb", 1, 2, 3], ["rmcb", 1, 4],
                         ["addcb", 1, 4, 5], ["wait", 1]], [["sleep", 2]]], "cbs": cbs, "launch": [[0, "trig", 0]]})
    # slow callback (cancel inside it comes from the fault plan), then another callback
    S.append({"plans": [[["create", 1], ["addcb", 1, 3, 1], ["addcb", 1, 2, 2], ["sleep", 6]],
                        [["uniq", "n"], ["sleep", 1]]], "cbs": cbs, "launch": [[0, "trig", 0]]})
    # callback that registers another callback on its own task
    S.append({"plans": [[["create", 1], ["addcb", 1, 1, 1], ["wait", 1]], [["sleep", 1]]],
              "cbs": {"1": ["mut", 4], "2": ["ok"], "3": ["ok"], "4": ["ok"]}, "launch": [[0, "trig", 0]]})
    S.append({"plans": [[["create", 1], ["addcb", 1, 2, 1], ["addcb", 1, 1, 2], ["addcb", 1, 3, 3], ["wait", 1]],
                        [["sleep", 1]]],
              "cbs": {"1": ["mut", 4], "2": ["ok"], "3": ["ok"], "4": ["ok"]}, "launch": [[0, "trig", 0]]})
    # #24: callback on the own task: service run vs trigger run
    S.append({"plans": [[["addcb", 0, 2, 1], ["sleep", 1]], [["addcb", 1, 2, 1], ["sleep", 1]]], "cbs": cbs,
              "launch": [[0, "svc", 0], [0, "trig", 1]]})
    # cancel before the child's first segment / after it
    S.append({"plans": [[["create", 1], ["cancel", 1], ["sleep", 2]], [["sleep", 3]]], "cbs": cbs,
              "launch": [[0, "trig", 0]]})
    S.append({"plans": [[["create", 1], ["addcb", 1, 2, 1], ["sleep", 1], ["cancel", 1], ["sleep", 2]], [["sleep", 3]]],
              "cbs": cbs, "launch": [[0, "trig", 0]]})
    # self cancel with callbacks and a unique name
    S.append({"plans": [[["addcb", 0, 2, 1], ["addcb", 0, 4, 2], ["uniq", "n"], ["cancel", 0]]], "cbs": cbs,
              "launch": [[0, "trig", 0]]})
    # two independent runs, one raises / sleeps long
    S.append({"plans": [[["sleep", 2], ["raise"]], [["sleep", 1], ["sleep", 2]]], "cbs": cbs,
              "launch": [[0, "trig", 0], [0, "svc", 1]]})
    # task.unique displaces a run that has callbacks
    S.append({"plans": [[["uniq", "n"], ["addcb", 0, 2, 1], ["addcb", 0, 3, 2], ["sleep", 4]], [["uniq", "n"], ["sleep", 2]]],
              "cbs": cbs, "launch": [[0, "trig", 0], [1, "trig", 1]]})
    # an unrelated task's cancellation must not wait for another task's sleeping done-callback (reaper, ex C14-F6):
    # the fault plan cancels task 2 at its first sleep; task 3 cancels itself, task 0 waits for task 3
    S.append({"plans": [[["create", 3], ["wait", 3]],
                        [["create", 2], ["addcb", 2, 2, 8], ["rmcb", 2, 4], ["cancel", 1], ["sleep", 2]],
                        [["sleep", 2], ["sleep", 1]], [["rmcb", 3, 2], ["cancel", 3], ["cancel", 3]]],
              "cbs": {"1": ["slow", 2], "2": ["slow", 2], "3": ["slow", 2], "4": ["ok"]},
              "launch": [[1, "trig", 0], [0, "trig", 1]]})
    # task.sleep(0): the creator hands over to the task it has just created; two loopers take turns
    S.append({"plans": [[["create", 1], ["yield"], ["yield"], ["addcb", 1, 2, 1], ["sleep", 1]], [["yield"], ["sleep", 1]]],
              "cbs": cbs, "launch": [[0, "trig", 0]]})
    S.append({"plans": [[["create", 1], ["create", 2], ["yield"], ["wait", 1]], [["yield"], ["yield"], ["yield"]],
                        [["yield"], ["yield"], ["yield"]]], "cbs": cbs, "launch": [[0, "svc", 0]]})
    S.append({"plans": [[["create", 1], ["yield"], ["cancel", 1], ["sleep", 1]], [["sleep", 2]]],
              "cbs": cbs, "launch": [[0, "trig", 0]]})
    # ---- boundary values
    # task.cancel(): of the current task passed explicitly (no parking: it runs on to its next suspension), of a task
    # that has finished (TypeError), twice of the same other task, of oneself twice
    S.append({"plans": [[["create", 1], ["cancelme"], ["addcb", 0, 2, 1], ["sleep", 1], ["sleep", 1]], [["sleep", 3]]],
              "cbs": cbs, "launch": [[0, "trig", 0]]})
    S.append({"plans": [[["create", 1], ["wait", 1], ["cancel", 1], ["cancel", 1], ["sleep", 1]], [["yield"]]],
              "cbs": cbs, "launch": [[0, "svc", 0]]})
    S.append({"plans": [[["create", 1], ["yield"], ["cancel", 1], ["cancel", 1], ["wait", 1], ["sleep", 1]],
                        [["addcb", 1, 2, 5], ["sleep", 3]]], "cbs": cbs, "launch": [[0, "trig", 0]]})
    # a cancel that the (already busy) reaper delivers before the new task's first segment (C14-F7)
    S.append({"plans": [[["cancelme"], ["create", 1], ["addcb", 1, 2, 7], ["cancel", 1], ["sleep", 1]], [["sleep", 2]]],
              "cbs": cbs, "launch": [[0, "trig", 0]]})
    # task.wait(): on an empty set (ValueError), with timeout=0 on a running and on a finished task, on a finished task
    S.append({"plans": [[["create", 1], ["waitempty"], ["wait0", 1], ["sleep", 2], ["wait0", 1], ["wait", 1]],
                        [["sleep", 1]]], "cbs": cbs, "launch": [[0, "trig", 0]]})
    # done-callbacks with keyword arguments; the same callback registered again with other args / kwargs; a callback
    # that claims a unique name; a callback that cancels another task
    S.append({"plans": [[["create", 1], ["addcbk", 1, 2, 1, 3], ["addcb", 1, 4, 2], ["addcbk", 1, 2, 4, 0],
                         ["addcbk", 1, 4, 2, 7], ["rmcb", 1, 3], ["wait", 1]], [["sleep", 1]]],
              "cbs": cbs, "launch": [[0, "svc", 0]]})
    S.append({"plans": [[["create", 1], ["create", 2], ["addcb", 1, 1, 1], ["addcb", 1, 2, 2], ["sleep", 4]],
                        [["uniq", "n"], ["sleep", 1]], [["uniq", "n"], ["sleep", 3]]],
              "cbs": {"1": ["uniq", "n"], "2": ["cancel", 2], "3": ["ok"], "4": ["ok"]}, "launch": [[0, "trig", 0]]})
    # an exception as the very first statement of a run, for every entry point; a burst of runs of one trigger
    S.append({"plans": [[["raise"]], [["raise"]], [["create", 3], ["addcb", 3, 2, 1], ["wait", 3]], [["raise"]]],
              "cbs": cbs, "launch": [[0, "trig", 0], [0, "svc", 1], [0, "trig", 2]]})
    S.append({"plans": [[["sleep", 1]], [["yield"], ["sleep", 1]], [["sleep", 2]], [["yield"]]],
              "cbs": cbs, "launch": [[0, "trig", 0], [0, "trig", 1], [0, "trig", 2], [0, "trig", 3]]})
    # try/finally around a sleep, the finally block sleeps too: raise / cancel inside the try, cancel inside the finally
    S.append({"plans": [[["create", 1], ["addcb", 1, 2, 1], ["sleep", 5]], [["uniq", "n"], ["fin", 1, 2], ["sleep", 1]]],
              "cbs": cbs, "launch": [[0, "trig", 0]]})
    S.append({"plans": [[["addcb", 0, 2, 1], ["fin", 2, 1]], [["fin", 1, 1], ["sleep", 1]]],
              "cbs": cbs, "launch": [[0, "svc", 0], [0, "trig", 1]]})
    return S


def overlap_scenarios(rng, n):
    """overlapping runs of ONE function; calls = [instant, how, tag, delay]"""
    cbs = {"1": ["ok"], "2": ["ok"], "3": ["ok"], "4": ["ok"]}
    out = []
    for how in ("svc", "trig", "create"):
        # non-nested overlap (first sleeper wakes while the second still sleeps), nested, sequential, same instant
        for shape in ([[0, 2], [1, 4]], [[0, 4], [1, 1]], [[0, 1], [2, 1]], [[0, 2], [0, 3]],
                      [[0, 3], [1, 3], [2, 3]]):
            out.append({"plans": [], "cbs": cbs, "launch": [],
                        "calls": [[inst, how, 11 + k, d] for k, (inst, d) in enumerate(shape)]})
    for _ in range(n):
        k = rng.randrange(2, 5)
        same = rng.choice(["svc", "svc", "trig", "create", None])
        calls = [[rng.randrange(0, 3), same or rng.choice(["svc", "trig", "create"]), 21 + j, rng.randrange(1, 5)]
                 for j in range(k)]
        out.append({"plans": [], "cbs": cbs, "launch": [], "calls": calls})
    return out


def random_scenario(rng):
    nroot = rng.choice([1, 1, 2])
    ntask = rng.randrange(nroot, 5)
    plans = [[] for _ in range(ntask)]
    parent_of = {}
    # children are created by an earlier task
    for child in range(nroot, ntask):
        parent_of[child] = rng.randrange(0, child)
    for i in range(ntask):
        kids = [c for c, pa in parent_of.items() if pa == i]
        steps = []
        for c in kids:
            steps.append(["create", c])
            if rng.random() < 0.3:
                steps.append(["yield"])
            for _ in range(rng.randrange(0, 3)):
                steps.append(["addcb", c, rng.randrange(1, 5), rng.randrange(1, 9)])
            if rng.random() < 0.3:
                steps.append(["rmcb", c, rng.randrange(1, 5)])
        for _ in range(rng.randrange(1, 4)):
            r = rng.random()
            if r < 0.12:
                steps.append(["yield"])
            elif r < 0.45:
                steps.append(["sleep", rng.randrange(1, 3)])
            elif r < 0.6:
                steps.append(["addcb", rng.randrange(ntask), rng.randrange(1, 5), rng.randrange(1, 9)])
            elif r < 0.7 and kids:
                steps.append(["wait", rng.choice(kids)])
            elif r < 0.8:
                steps.append(["cancel", rng.randrange(ntask)])
            elif r < 0.84:
                steps.append(rng.choice([["cancelme"], ["waitempty"], ["wait0", rng.randrange(ntask)],
                                         ["fin", 1, 1], ["addcbk", rng.randrange(ntask), rng.randrange(1, 5),
                                                         rng.randrange(1, 9), rng.randrange(0, 3)]]))
            elif r < 0.9:
                steps.append(["uniq", rng.choice(["n", "m"])])
            else:
                steps.append(["rmcb", rng.randrange(ntask), rng.randrange(1, 5)])
        if rng.random() < 0.15:
            steps.append(["raise"])
        plans[i] = steps
    kinds = ["ok", "ok", "raise", "slow", "mut", "uniq", "cancel"]
    cbs = {}
    for cid in range(1, 5):
        k = rng.choice(kinds if cid < 4 else ["ok", "raise", "slow"])
        cbs[str(cid)] = list(CB_KINDS[k])
        if k == "cancel":
            cbs[str(cid)][1] = rng.randrange(ntask)
    launch = [[rng.randrange(0, 2), rng.choice(["trig", "trig", "svc"]), i] for i in range(nroot)]
    return {"plans": plans, "cbs": cbs, "launch": launch}


def gen_cases(rng, tier, search):
    n = 8 if tier == "quick" else 250
    if search:
        n *= 2
    cases = []
    for s in directed():
        cases += expand(s, ("directed",))
    for _ in range(n):
        cases += expand(random_scenario(rng), ("random",))
    for s in overlap_scenarios(rng, 3 if tier == "quick" else 120):
        cases += expand(s, ("overlap",))
    return cases


# ------------------------------------------------------------------ module API
def _key(p):
    return json.dumps(p, sort_keys=True)


def _run_with_dry(p):
    if not p.get("fault"):
        return run_one(p)
    d = run_one(dict(p, fault=None))
    r = run_one(p, d if d.get("line") else None)
    if r.get("line"):
        r["dry_log"] = d.get("log")
        f = p["fault"]
        if f[1] == "step":
            r["fault_target"] = f[2]
        else:
            tgt = None
            for rec in d.get("records", []):
                if rec[1] == "cbs" and rec[2] == f[2]:
                    tgt = rec[3]
                    break
            r["fault_target"] = tgt
    return r


def run_impl(cases):
    res = common.pmap(_run_with_dry, [c.payload for c in cases])
    for c, r in zip(cases, res):
        c.impl = r["impl"]
        c.line = r["line"]
        c.nontrivial = not r.get("skipped")
        _SIDE[_key(c.payload)] = r


def split(outline):
    if " ## " in outline:
        m, s = outline.split(" ## ", 1)
        return m, s
    return outline, None


def replay_cases(obj):
    return [mk(obj["case"], ("replay",))]


def extra_coverage(cases):
    faults, steps, toks, cbk = {}, {}, {}, {}
    for c in cases:
        f = c.payload.get("fault")
        k = "dry" if not f else f"{f[0]}-{f[1]}"
        faults[k] = faults.get(k, 0) + 1
        for pl in c.payload["plans"]:
            for st in pl:
                steps[st[0]] = steps.get(st[0], 0) + 1
        for v in c.payload["cbs"].values():
            cbk[v[0]] = cbk.get(v[0], 0) + 1
        for t in _tok_split(c.impl or ""):
            if ":" in t and not t.startswith("[") and not t.startswith("x:") and not t.startswith("b:"):
                toks[t] = toks.get(t, 0) + 1
            elif t.startswith("x:"):
                kk = "x:" + t.split(":")[1]
                toks[kk] = toks.get(kk, 0) + 1
    ov = {}
    for c in cases:
        for call in c.payload.get("calls") or []:
            ov[call[1]] = ov.get(call[1], 0) + 1
    return {"overlapping_runs_by_kind": ov, "fault_kinds": faults, "plan_steps": steps, "callback_kinds": cbk, "observed_step_outcomes": toks,
            "fault_points_not_reached": sum(1 for c in cases if (c.impl or "").startswith("fault-point-not"))}
