"""C08 – event, MQTT and webhook triggers deliver each message exactly once: correspondence + property oracle.

One scenario = a generated script (≤ 4 trigger decorators on 1–3 functions: shared / distinct keys, with / without
filter expression and kwargs, stacked decorators, event + MQTT + webhook mixed) and ≤ 20 occurrences fired
back-to-back or separated by virtual-clock pauses while earlier runs sleep; runs emit events (which cascade into
other triggers), state changes and service calls.  Every scenario runs under BOTH subsystems (two cases).

Observed on the real code: the bus (all events with context id / parent id), the injected MQTT / webhook messages,
every run (function, decorator tag, rank, keyword dictionary, virtual start time), the subscription tables.
* tie: the observed occurrence sequence + emissions are replayed by the Lean machine (`verifdrv`), whose rendering of
  tables, log, runs per decorator (order, kwargs, context parent) and emissions must equal the implementation's;
* property (verdict): an independent Python oracle (CPython evaluates the filter source, python dict semantics for
  the keywords) demands per decorator: runs = qualifying occurrences, in order, exactly once, started at the virtual
  instant of their occurrence, context parent = occurrence context, emissions carry the run's context / exact data.
"""
import datetime
import json
import re
from unittest.mock import patch

import common
from common import Case, sx

PROP = "C08"
RULE = ("scenario = (functions with 1-3 stacked event/mqtt/webhook decorators, <= 4 in total, keys shared or distinct, "
        "optional filter expression from a comparison/and/or/not grammar over ALL documented keyword variables of the "
        "trigger kind (event: data keys, event_type, trigger_type, context; mqtt: topic, payload, payload_obj whole and "
        "subscripted, qos, retain; webhook: webhook_id, payload whole and subscripted), optional kwargs overriding data; "
        "occurrences are aimed at the filters of the scenario so that both qualifying and non-qualifying ones occur; plus "
        "fixed directed scenarios with one filter per variable) x (<= 20 "
        "occurrences with generated payloads incl. keys overriding trigger_type/context, JSON / non-JSON MQTT payloads, "
        "JSON / form webhooks with repeated fields, unmatched keys) x (back-to-back or virtual pauses; runs sleeping "
        "0/0.5/2 s; runs emitting events/state/service with none/explicit/junk context, cascading); each under "
        "legacy_decorators True and False.  distinct = distinct payload JSON; non-trivial = at least one run started")
ASSUMPTIONS = [
    "asyncio runs ready callbacks FIFO and asyncio.Queue is FIFO (the model's queues are FIFO lists)",
    "Home Assistant's bus hands an event to the listeners of its type in firing order (real bus used)",
    "mqtt.async_subscribe / the HTTP view are outside: MQTT messages are handed to the handlers pyscript passed to a "
    "recording mqtt.async_subscribe via hass.async_run_hass_job; webhooks through webhook.async_handle_webhook with a "
    "MockRequest (the real webhook registry of Home Assistant is used)",
    "filter expressions do not suspend and do not mutate their variables",
    "json.loads / request.json() / request.post() results are parameters of the model",
    "no keyword (event data key, decorator kwargs key) equals a parameter name of pyscript's own call chain - the model "
    "has no such failure; findings C08-F2 / C08-F3 are demonstrated by oracle-only witness cases",
]
TRUSTED = ["harness/run_C08.py (scenario generator, observation, canonicaliser, Python oracle)",
           "harness/ha_env.py + vclock.py (Home Assistant test instance on a virtual clock)",
           "Drv/C08.lean concrete filter evaluator FExpr (the theorems quantify over arbitrary filter functions)"]

KINDS = {"e": "event", "m": "mqtt", "w": "webhook"}
HOLD = 0.45     # state_hold of the extra @state_trigger of "hold" functions (virtual seconds)
OPSYM = {"eq": "==", "ne": "!=", "lt": "<", "le": "<=", "gt": ">", "ge": ">="}


# --------------------------------------------------------------------------- values / filters
def val_sx(v):
    if v is None:
        return "none"
    if isinstance(v, bool):
        return ["b", 1 if v else 0]
    if isinstance(v, int):
        return ["i", v]
    if isinstance(v, str):
        return ["s", v]
    if isinstance(v, dict):
        return ["d"] + [[k, val_sx(x)] for k, x in v.items()]
    if isinstance(v, list):
        return ["l"] + [val_sx(x) for x in v]
    raise TypeError(f"unsupported value {v!r}")


def dict_sx(items):
    """items: list of [k, v] or dict"""
    if isinstance(items, dict):
        items = list(items.items())
    return [[k, val_sx(v)] for k, v in items]


def lit_src(v):
    return repr(v)


def filt_src(f):
    t = f[0]
    if t == "cmp":
        _, op, key, sub, lit = f
        lhs = key if sub == "-" else f"{key}[{sub!r}]"
        return f"{lhs} {OPSYM[op]} {lit_src(lit)}"
    if t == "and":
        return f"({filt_src(f[1])}) and ({filt_src(f[2])})"
    if t == "or":
        return f"({filt_src(f[1])}) or ({filt_src(f[2])})"
    if t == "not":
        return f"not ({filt_src(f[1])})"
    if t == "name":
        return f[1] if len(f) == 2 else f"{f[1]}[{f[2]!r}]"
    return "True"


def filt_sx(f):
    if f is None:
        return "none"
    t = f[0]
    if t == "cmp":
        return ["cmp", f[1], f[2], f[3], val_sx(f[4])]
    if t in ("and", "or"):
        return [t, filt_sx(f[1]), filt_sx(f[2])]
    if t == "not":
        return ["not", filt_sx(f[1])]
    if t == "name":
        return ["name"] + list(f[1:])
    return ["true"]


# --------------------------------------------------------------------------- generator
EV_TYPES = ["e0", "e1", "e2"]
OUT_TYPES = ["o0", "o1"]
TOPICS = ["t/a", "t/+", "u"]
HOOKS = ["h0", "h1", "h2", "h3"]
DATA_KEYS = ["x", "y", "n"]


def gen_val(rng):
    r = rng.random()
    if r < 0.6:
        return rng.choice([0, 1, 2, 3, 4, 5, 7, -1])
    if r < 0.9:
        return rng.choice(["a", "b", "on", "", "a b"])
    return None


# the documented keyword variables of each trigger kind (docs/reference.rst): every one of them can appear in a filter
FILTER_VARS = {
    "e": ["x", "y", "n", "event_type", "trigger_type", "context"],
    "m": ["topic", "payload", "payload_obj", "payload_obj[]", "qos", "retain", "trigger_type"],
    "w": ["webhook_id", "payload", "payload[]", "trigger_type"],
}


def gen_atom(rng, kind, var=None):
    """one comparison / truthiness test over one documented variable of the trigger kind"""
    var = var or rng.choice(FILTER_VARS[kind])
    ops = list(OPSYM)
    if kind == "e":
        if var == "context":
            return ["name", "context"]
        if var == "event_type":
            return ["cmp", rng.choice(["eq", "ne"]), "event_type", "-", rng.choice(EV_TYPES + OUT_TYPES)]
        if var == "trigger_type":
            return ["cmp", rng.choice(["eq", "ne"]), "trigger_type", "-", rng.choice(["event", "zzz"])]
        if rng.random() < 0.4:
            return ["name", var]
        return ["cmp", rng.choice(ops), var, "-", rng.choice([0, 1, 3, "a", "on"])]
    if kind == "m":
        if var == "topic":
            return ["cmp", rng.choice(["eq", "ne"]), "topic", "-", rng.choice(["t/a", "t/b", "u"])]
        name = rng.random() < 0.4
        if var == "payload":
            if name:
                return ["name", "payload"]
            return ["cmp", rng.choice(["eq", "ne"]), "payload", "-", rng.choice(["on", "5", '{"a": 1}'])]
        if var == "payload_obj":
            if name:
                return ["name", "payload_obj"]
            return ["cmp", rng.choice(ops), "payload_obj", "-", rng.choice([1, 5, "s"])]
        if var == "payload_obj[]":
            if name:
                return ["name", "payload_obj", rng.choice(["a", "state"])]
            return ["cmp", rng.choice(["eq", "ne", "gt", "le"]), "payload_obj", rng.choice(["a", "state"]), rng.choice([1, 2, "on"])]
        if var == "qos":
            if name:
                return ["name", "qos"]
            return ["cmp", rng.choice(["eq", "ne", "gt", "lt", "ge"]), "qos", "-", rng.choice([0, 1])]
        if var == "retain":
            return ["name", "retain"] if rng.random() < 0.5 else ["cmp", "eq", "retain", "-", rng.choice([0, 1])]
        return ["cmp", rng.choice(["eq", "ne"]), "trigger_type", "-", "mqtt"]
    if var == "webhook_id":
        return ["cmp", rng.choice(["eq", "ne"]), "webhook_id", "-", rng.choice(HOOKS)]
    if var == "payload":
        return ["name", "payload"]
    if var == "payload[]":
        if rng.random() < 0.4:
            return ["name", "payload", rng.choice(["a", "b", "k"])]
        return ["cmp", rng.choice(ops), "payload", rng.choice(["a", "b", "k"]), rng.choice([1, "1", "2", "v"])]
    return ["cmp", rng.choice(["eq", "ne"]), "trigger_type", "-", "webhook"]


def gen_filter(rng, kind, depth=0):
    r = rng.random()
    if depth < 2 and r < 0.25:
        return [rng.choice(["and", "or"]), gen_filter(rng, kind, depth + 1), gen_filter(rng, kind, depth + 1)]
    if depth < 2 and r < 0.31:
        return ["not", gen_filter(rng, kind, depth + 1)]
    if r < 0.34:
        return ["true"]
    return gen_atom(rng, kind)


def filt_atoms(f):
    if f is None:
        return []
    if f[0] in ("and", "or"):
        return filt_atoms(f[1]) + filt_atoms(f[2])
    if f[0] == "not":
        return filt_atoms(f[1])
    if f[0] in ("cmp", "name"):
        return [f]
    return []


def filt_vars(f):
    """the documented variables a filter refers to ('payload_obj[]' = subscripted)"""
    out = set()
    for a in filt_atoms(f):
        if a[0] == "name":
            out.add(a[1] if len(a) == 2 else a[1] + "[]")
        else:
            out.add(a[2] if a[3] == "-" else a[2] + "[]")
    return out


def sat_value(rng, atom):
    """a value that makes the atom true (mostly) - used to aim occurrences at the filters of the scenario"""
    if atom[0] == "name":
        # truthiness of a value: truthy and falsy objects that are not booleans
        return rng.choice([1, 3, "x", 0, None, ""])
    _, op, _key, _sub, lit = atom
    if isinstance(lit, int):
        return {"eq": lit, "ne": lit + 1, "gt": lit + 1, "ge": lit, "lt": lit - 1, "le": lit}[op]
    return {"eq": lit, "ne": lit + "x", "gt": lit + "z", "ge": lit, "lt": "", "le": lit}[op]


def aimed_assign(rng, d):
    """variable -> value suggested by the decorator's filter (first atom of each variable wins)"""
    out = {}
    for a in filt_atoms(d["filt"]):
        if a[0] == "name":
            key = a[1] if len(a) == 2 else (a[1], a[2])
        else:
            key = a[2] if a[3] == "-" else (a[2], a[3])
        if key not in out:
            out[key] = sat_value(rng, a)
    return out


def gen_occurrence(rng, d, aim):
    """an occurrence for the key of decorator d; with `aim` its values follow the filter of d"""
    asg = aimed_assign(rng, d) if aim else {}
    if d["kind"] == "m":
        sub = d["key"]
        topic = sub
        if sub == "t/+":
            topic = asg.get("topic") if asg.get("topic") in ("t/a", "t/b") else rng.choice(["t/a", "t/b"])
        subs_ = {k[1]: v for k, v in asg.items() if isinstance(k, tuple) and k[0] == "payload_obj"}
        if subs_:
            payload = json.dumps(subs_)
        elif "payload_obj" in asg:
            payload = json.dumps(asg["payload_obj"])
        elif isinstance(asg.get("payload"), str):
            payload = asg["payload"]
        else:
            payload = rng.choice(["on", "5", '{"a": 1, "b": "q"}', '{"a": 2}', '{"state": "on"}', '"s"', "not json {", "",
                                  "null", "7", "[1, 2]", "[]", '{"a": {"b": 1}}', '{"a": [1, {"c": null}]}', "true", "-3",
                                  " 5 ", "{", "\u00e9t\u00e9 \u2603"])
        qos = asg.get("qos", rng.choice([0, 0, 1, 2]))
        qos = min(2, max(0, qos if isinstance(qos, int) else 0))
        retain = bool(asg["retain"]) if "retain" in asg else rng.random() < 0.3
        return ["m", sub, topic, payload, qos, retain]
    if d["kind"] == "w":
        subs_ = {k[1]: v for k, v in asg.items() if isinstance(k, tuple) and k[0] == "payload"}
        if subs_ and all(isinstance(v, str) and v and "=" not in v and "&" not in v for v in subs_.values()) and rng.random() < 0.5:
            return ["w", d["key"], False, None, [[k, v] for k, v in subs_.items()] + ([[next(iter(subs_)), "zz"]] if rng.random() < 0.3 else [])]
        if subs_:
            return ["w", d["key"], True, subs_, []]
        if "payload" in asg:
            return ["w", d["key"], True, {"a": 1} if asg["payload"] else {}, []]
        if rng.random() < 0.5:
            return ["w", d["key"], True, rng.choice([{"a": 1, "k": "v"}, {"b": "2"}, {}, 5, {"a": 2, "b": 1}, [1, {"a": 2}],
                                                      {"a": {"b": 1}}, "s", None, {"k": [1, 2]}]), []]
        return ["w", d["key"], False, None,
                [[rng.choice(["a", "b", "k"]), rng.choice(["1", "2", "v"])] for _ in range(rng.randint(0, 4))]]
    data = []
    for k in DATA_KEYS:
        if k in asg:
            data.append([k, asg[k]])
        elif rng.random() < 0.5:
            data.append([k, gen_val(rng)])
    if rng.random() < 0.06:
        data.append(["trigger_type", "zzz"])
    if rng.random() < 0.05:
        data.append(["context", 7])
    if rng.random() < 0.06:
        data.append(["event_type", "fake"])
    if rng.random() < 0.06:
        data.append([rng.choice(["class", "lambda", "None_", "data", "kwargs"]), rng.choice([1, "k"])])
    return ["e", d["key"], data]


def keys_present(funcs, kind):
    return sorted({d["key"] for f in funcs for d in f["decs"] if d["kind"] == kind})


# keys that are prefixes of each other, upper case, unicode, blanks, empty topic segments, wildcards in every position
EXOTIC = {"e": {"e1": "e0x", "e2": "\u00c9v\u00e9n t/\u00fc", "e0": "e0"},
          "m": {"t/a": "t//a", "t/+": "+/a/#", "u": "#"},
          "w": {"h0": "h", "h1": "h1", "h2": "h\u00f6 2", "h3": "H1"}}


def exotic_keys(sc):
    sc = json.loads(json.dumps(sc))
    for f in sc["funcs"]:
        for d in f["decs"]:
            d["key"] = EXOTIC[d["kind"]].get(d["key"], d["key"])
    for op in sc["ops"]:
        if op[0] == "e":
            op[1] = EXOTIC["e"].get(op[1], op[1])
        elif op[0] == "m":
            if op[2] == op[1]:
                op[2] = EXOTIC["m"].get(op[2], op[2])
            op[1] = EXOTIC["m"].get(op[1], op[1])
        elif op[0] in ("w", "wbad"):
            op[1] = EXOTIC["w"].get(op[1], op[1])
    return sc


def event_types_of(p):
    ts = set(OUT_TYPES) | set(EV_TYPES)
    for f in p["funcs"]:
        for d in f["decs"]:
            if d["kind"] == "e":
                ts.add(d["key"])
    for op in p["ops"]:
        if op[0] == "e":
            ts.add(op[1])
    return ts


def hook_methods(p):
    """webhook id -> allowed request methods (HA: the registration's; pyscript's default is POST, PUT)"""
    out = {}
    for f in p["funcs"]:
        for d in f["decs"]:
            if d["kind"] == "w" and d["key"] not in out:
                out[d["key"]] = set(d.get("methods") or ["POST", "PUT"])
    return out


def gen_scenario(rng, tier, search):
    nf = rng.choice([1, 1, 2, 2, 3, 3, 4])
    total = rng.choice([1, 2, 3, 3, 4, 4])
    total = max(total, nf)
    sizes = [1] * nf
    for _ in range(total - nf):
        sizes[rng.randrange(nf)] += 1
    shared_hook = rng.random() < 0.12
    used_hooks = []
    # the last function listens to emitted types and never emits events itself (no cascade loops)
    funcs = []
    tag = 0
    for fi, size in enumerate(sizes):
        sink = fi == nf - 1 and nf > 1 and rng.random() < 0.7
        decs = []
        for _ in range(size):
            r = rng.random()
            kind = "e" if r < 0.62 else ("m" if r < 0.82 else "w")
            if kind == "e":
                key = rng.choice(OUT_TYPES if sink and rng.random() < 0.7 else EV_TYPES[:2] if rng.random() < 0.7 else EV_TYPES)
            elif kind == "m":
                key = rng.choice(TOPICS)
            else:
                if shared_hook and used_hooks and rng.random() < 0.8:
                    key = rng.choice(used_hooks)
                else:
                    free = [h for h in HOOKS if h not in used_hooks]
                    key = free[0]
                used_hooks.append(key)
            filt = gen_filter(rng, kind) if rng.random() < 0.5 else None
            kwargs = []
            if size > 1 or rng.random() < 0.5:
                kwargs.append(["_d", tag])
            if kwargs and rng.random() < 0.35:
                kwargs.append([rng.choice(["x", "extra", "trigger_type", "payload"]), rng.choice([99, "kw"])])
            dec = {"kind": kind, "key": key, "filt": filt, "kwargs": kwargs}
            # boundary values of the decorator arguments
            if not kwargs and rng.random() < 0.25:
                dec["kwargs_empty"] = True                      # kwargs={}
            if kwargs and rng.random() < 0.2:
                kwargs.append([rng.choice(["extra", "x", "event_type", "context"]), None])   # None values / reserved names
            if filt is not None and rng.random() < 0.2:
                dec["multiline"] = True
            if kind == "m" and rng.random() < 0.35:
                dec["encoding"] = rng.choice(["utf-8", "latin-1", "utf-16"])
            if kind == "w" and not shared_hook and rng.random() < 0.5:
                dec["methods"] = rng.choice([["GET"], ["HEAD", "POST"], ["PUT"], ["GET", "HEAD", "POST", "PUT"], ["POST"]])
            if kind == "w" and rng.random() < 0.4:
                dec["local_only"] = rng.random() < 0.5
            decs.append(dec)
            tag += 1
        emits = []
        if not sink:
            for j in range(rng.choice([0, 0, 1, 1, 2, 3])):
                ek = rng.choice(["event", "event", "event", "state", "service"])
                em = {"ek": ek, "when": rng.choice(["pre", "post"]), "mode": "none", "kw": []}
                if ek == "event":
                    em["name"] = rng.choice(OUT_TYPES)
                    em["mode"] = rng.choice(["none", "none", "occ", "junk"])
                    if rng.random() < 0.7:
                        em["kw"] = [[rng.choice(DATA_KEYS), gen_val(rng)]]
                emits.append(em)
        funcs.append({"name": f"f{fi}", "decs": decs, "sleep": rng.choice([0, 0, 0.5, 2]), "emits": emits})
    nops = rng.randint(1, 20 if (tier == "thorough" or search) else 12)
    all_decs = [d for f in funcs for d in f["decs"]]
    ops = []
    burst = rng.random() < 0.4
    for _ in range(nops):
        r = rng.random()
        if r < 0.08:
            # an occurrence nobody listens to
            ops.append(rng.choice([["e", "e2", [["x", 1]]], ["m", "zz", "zz", "on", 0, False], ["w", "nohook", True, {}, []]]))
        else:
            d = rng.choice(all_decs)
            ops.append(gen_occurrence(rng, d, aim=d["filt"] is not None and rng.random() < 0.65))
        if not burst and rng.random() < 0.5:
            ops.append(["settle", rng.choice([0, 0, 0.3, 1, 3])])
    for op in ops:
        if op[0] == "w" and rng.random() < 0.45:
            op.append(rng.choice(["POST", "PUT", "GET", "HEAD", "post", "DELETE"]))      # request method
            op.append(rng.choice([None, "q=1&a=9"]))                                     # query string (ignored)
    if keys_present(funcs, "w") and rng.random() < 0.2:
        ops.insert(rng.randrange(len(ops) + 1), ["wbad", rng.choice(keys_present(funcs, "w"))])   # JSON type, empty body
    if rng.random() < 0.22:
        # one function also carries a held @state_trigger (no time trigger): its trigger task alternates between
        # timed waits (hold running) and untimed ones; 2-4 occurrences aimed at it follow each hold expiry at once
        f = rng.choice(funcs)
        f["hold"] = True
        for d in f["decs"]:
            if tag_of(d) is None:
                d["kwargs"].insert(0, ["_d", 100 + f["decs"].index(d)])
                d.pop("kwargs_empty", None)
        for _ in range(rng.choice([1, 1, 2])):
            at = rng.randrange(len(ops) + 1)
            blk = [["hold", f["name"]]]
            for _ in range(rng.randint(2, 4)):
                d = rng.choice(f["decs"])
                blk.append(gen_occurrence(rng, d, aim=d["filt"] is not None and rng.random() < 0.8))
            ops[at:at] = blk
    takes = [rng.randrange(0, 6) for _ in range(8)]
    sc = {"funcs": funcs, "ops": ops, "takes": takes}
    if rng.random() < 0.15:
        sc = exotic_keys(sc)
    return sc


def _dfunc(name, decs):
    return {"name": name, "decs": decs, "sleep": 0, "emits": []}


def _ddec(kind, key, filt, tag):
    return {"kind": kind, "key": key, "filt": filt, "kwargs": [["_d", tag]]}


# every documented keyword variable of every trigger kind used by a filter, with occurrences that qualify and
# occurrences that do not (JSON and non-JSON MQTT payloads, JSON and form webhooks); run under both subsystems
DIRECTED = [
    {"funcs": [_dfunc("f0", [_ddec("m", "t/+", ["and", ["cmp", "eq", "payload_obj", "state", "on"], ["cmp", "eq", "qos", "-", 1]], 0),
                             _ddec("m", "t/+", ["cmp", "gt", "payload_obj", "-", 3], 1)]),
               _dfunc("f1", [_ddec("m", "t/+", ["cmp", "eq", "topic", "-", "t/b"], 2),
                             _ddec("m", "u", ["or", ["cmp", "eq", "payload", "-", "on"], ["name", "retain"]], 3)])],
     "ops": [["m", "t/+", "t/a", '{"state": "on"}', 1, False], ["m", "t/+", "t/b", '{"state": "off"}', 1, False],
             ["m", "t/+", "t/a", '{"state": "on"}', 0, True], ["m", "t/+", "t/b", "5", 2, False],
             ["m", "t/+", "t/a", "not json", 1, False], ["m", "t/+", "t/a", "2", 0, False],
             ["m", "u", "u", "on", 0, False], ["m", "u", "u", "off", 0, True], ["m", "u", "u", "off", 0, False]],
     "takes": [0]},
    {"funcs": [_dfunc("f0", [_ddec("m", "u", ["cmp", "ge", "qos", "-", 1], 0),
                             _ddec("m", "u", ["cmp", "eq", "trigger_type", "-", "mqtt"], 1)]),
               _dfunc("f1", [_ddec("w", "h0", ["cmp", "eq", "payload", "a", "1"], 2)]),
               _dfunc("f2", [_ddec("w", "h1", ["and", ["cmp", "eq", "webhook_id", "-", "h1"], ["cmp", "gt", "payload", "k", 1]], 3)])],
     "ops": [["m", "u", "u", "x", 0, False], ["m", "u", "u", "x", 1, False], ["m", "u", "u", '{"a": 1}', 2, True],
             ["w", "h0", False, None, [["a", "1"], ["a", "2"]]], ["w", "h0", False, None, [["a", "2"]]],
             ["w", "h0", True, {"a": "1"}, []], ["w", "h0", True, {"a": 1}, []],
             ["w", "h1", True, {"k": 2}, []], ["w", "h1", True, {"k": 1}, []], ["w", "h1", True, {}, []]],
     "takes": [0]},
    {"funcs": [_dfunc("f0", [_ddec("e", "e0", ["cmp", "gt", "x", "-", 3], 0),
                             _ddec("e", "e0", ["cmp", "eq", "event_type", "-", "e0"], 1)]),
               _dfunc("f1", [_ddec("e", "e0", ["cmp", "eq", "trigger_type", "-", "event"], 2),
                             _ddec("e", "e1", ["and", ["name", "context"], ["cmp", "ne", "y", "-", "a"]], 3)])],
     "ops": [["e", "e0", [["x", 5]]], ["e", "e0", [["x", 1]]], ["e", "e0", []], ["e", "e0", [["x", 4], ["trigger_type", "zzz"]]],
             ["e", "e1", [["y", "a"]]], ["e", "e1", [["y", "b"]]], ["e", "e1", [["x", 1]]]],
     "takes": [0]},
    # the filter's value is an object, not a bool: 0 / None / '' / {} must reject, 3 / 'x' / {...} must accept
    {"funcs": [_dfunc("f0", [_ddec("e", "e0", ["name", "x"], 0),
                             _ddec("e", "e0", ["and", ["name", "y"], ["name", "n"]], 1)]),
               _dfunc("f1", [_ddec("m", "u", ["name", "payload_obj"], 2),
                             _ddec("m", "u", ["or", ["name", "qos"], ["name", "payload_obj", "a"]], 3)])],
     "ops": [["e", "e0", [["x", 0], ["y", "a"], ["n", 0]]], ["e", "e0", [["x", None], ["y", ""], ["n", 1]]],
             ["e", "e0", [["x", ""], ["y", "a"], ["n", None]]], ["e", "e0", [["x", 3], ["y", "a"], ["n", 2]]],
             ["e", "e0", [["x", "x"], ["y", 1], ["n", ""]]],
             ["m", "u", "u", "0", 0, False], ["m", "u", "u", "null", 0, False], ["m", "u", "u", '""', 0, False],
             ["m", "u", "u", "{}", 0, False], ["m", "u", "u", '{"a": 0}', 0, False], ["m", "u", "u", '{"a": "x"}', 0, False],
             ["m", "u", "u", "5", 1, False], ["m", "u", "u", '{"a": null}', 0, True]],
     "takes": [0]},
    {"funcs": [_dfunc("f0", [_ddec("w", "h0", ["name", "payload"], 0)]),
               _dfunc("f1", [_ddec("w", "h1", ["name", "payload", "a"], 1)]),
               _dfunc("f2", [_ddec("m", "t/+", ["name", "payload"], 2)])],
     "ops": [["w", "h0", True, {}, []], ["w", "h0", True, {"a": 0}, []], ["w", "h0", False, None, []],
             ["w", "h0", False, None, [["a", "1"]]],
             ["w", "h1", True, {"a": 0}, []], ["w", "h1", True, {"a": None}, []], ["w", "h1", True, {"a": ""}, []],
             ["w", "h1", True, {"a": "x"}, []], ["w", "h1", True, {"a": 3}, []], ["w", "h1", True, {"b": 1}, []],
             ["m", "t/+", "t/a", "", 0, False], ["m", "t/+", "t/b", "on", 0, False]],
     "takes": [0]},
]


DIRECTED += [
    # four functions on one key, a burst of six messages: the third and later ones must all arrive, in order
    {"funcs": [_dfunc(f"f{i}", [_ddec("e", "e0", None if i % 2 else ["cmp", "ne", "x", "-", 2], i)]) for i in range(4)],
     "ops": [["e", "e0", [["x", i]]] for i in range(6)], "takes": [0]},
    # keys: prefixes of each other, upper case, unicode, blanks, empty segments, wildcards
    exotic_keys({"funcs": [_dfunc("f0", [_ddec("e", "e0", None, 0), _ddec("e", "e1", None, 1), _ddec("e", "e2", None, 2)]),
                           _dfunc("f1", [_ddec("m", "t/a", None, 3), _ddec("m", "t/+", ["cmp", "eq", "topic", "-", "+/a/#"], 4),
                                         _ddec("m", "u", None, 5)]),
                           _dfunc("f2", [_ddec("w", "h0", None, 6)]), _dfunc("f3", [_ddec("w", "h3", None, 7)])],
                 "ops": [["e", "e0", []], ["e", "e1", []], ["e", "e2", [["x", "\u00fc"]]], ["e", "E0", []], ["e", "e0x0", []],
                         ["m", "t/a", "t/a", "1", 0, False], ["m", "t/+", "t/+", "[1]", 0, False], ["m", "u", "u", "", 0, False],
                         ["w", "h0", True, {"a": 1}, []], ["w", "h3", True, {"a": 2}, []], ["w", "h1", True, {}, []]],
                 "takes": [0]}),
    # decorator argument boundaries: kwargs={}, None values, reserved names, encodings, methods, local_only, multi-line filter
    {"funcs": [_dfunc("f0", [dict(_ddec("e", "e0", ["cmp", "gt", "x", "-", 1], 0), multiline=True,
                                   kwargs=[["_d", 0], ["event_type", None], ["context", "kw"]]),
                             dict(_ddec("m", "u", None, 1), encoding="latin-1")]),
               _dfunc("f1", [{"kind": "e", "key": "e0", "filt": None, "kwargs": [], "kwargs_empty": True}]),
               _dfunc("f2", [dict(_ddec("w", "h0", None, 2), methods=["GET", "HEAD"], local_only=False)]),
               _dfunc("f3", [dict(_ddec("w", "h1", None, 3), local_only=True)])],
     "ops": [["e", "e0", [["x", 5], ["event_type", "fake"], ["class", 1]]], ["e", "e0", [["x", 0]]],
             ["m", "u", "u", "\u00e9", 1, True],
             ["w", "h0", True, {"a": 1}, [], "GET", "q=1"], ["w", "h0", True, {"a": 2}, [], "POST", None],
             ["w", "h0", False, None, [["a", "1"]], "HEAD", None], ["w", "h0", True, {"a": 3}, [], "get", None],
             ["w", "h1", True, {"a": 4}, [], "PUT", "a=9"], ["w", "h1", True, {"a": 5}, [], "GET", None],
             ["wbad", "h1"], ["w", "h1", False, None, [], "POST", None]],
     "takes": [0]},
]


DIRECTED += [
    # a held state trigger next to an event and an mqtt trigger in ONE trigger task (legacy), no time trigger: after each
    # hold expiry three messages back-to-back must all arrive, at once and in order (seeded change C08_7)
    {"funcs": [dict(_dfunc("f0", [_ddec("e", "e0", None, 0), _ddec("m", "u", None, 1)]), hold=True),
               _dfunc("f1", [_ddec("e", "e0", ["cmp", "ne", "x", "-", 2], 2)])],
     "ops": [["hold", "f0"], ["e", "e0", [["x", 1]]], ["e", "e0", [["x", 2]]], ["m", "u", "u", "on", 0, False],
             ["e", "e0", [["x", 3]]], ["settle", 1], ["hold", "f0"], ["m", "u", "u", "off", 0, False], ["e", "e0", [["x", 4]]],
             ["settle", 0.3], ["e", "e0", [["x", 5]]]],
     "takes": [0]},
]


# keyword names that collide with parameters of pyscript's own call chain
INTERNAL_A = {"self", "func", "func_name", "ast_ctx"}                                      # AstEval.call_func / EvalFunc.call
INTERNAL_B = {"func", "ast_ctx", "task_unique", "task_unique_func", "hass_context"}        # legacy do_func_call
ORACLE_ONLY = [
    {"funcs": [_dfunc("f0", [_ddec("e", "e0", None, 0)])],
     "ops": [["e", "e0", [["x", 1]]], ["e", "e0", [["self", 1]]], ["settle", 0.5], ["e", "e0", [["x", 2]]]], "takes": [0],
     "oracle_only": True},
    {"funcs": [_dfunc("f0", [_ddec("e", "e0", None, 0)])],
     "ops": [["e", "e0", [["x", 1]]], ["e", "e0", [["func", 1]]], ["settle", 0.5], ["e", "e0", [["x", 2]]],
             ["e", "e0", [["x", 3]]]], "takes": [0], "oracle_only": True},
]


def gen_cases(rng, tier, search):
    n = {"quick": 130, "thorough": 2000}[tier]
    if search:
        n = {"quick": 400, "thorough": 3000}[tier]
    cases = []
    if not search:
        # the witness of C08_new_cex_shared_webhook (finding C08-F1), replayed on the real code by every run
        w = {"funcs": [{"name": "f0", "decs": [{"kind": "w", "key": "h0", "filt": None, "kwargs": []}], "sleep": 0, "emits": []},
                       {"name": "f1", "decs": [{"kind": "e", "key": "e0", "filt": None, "kwargs": [["_d", 1]]},
                                               {"kind": "w", "key": "h0", "filt": None, "kwargs": [["_d", 2]]}],
                        "sleep": 0, "emits": []}],
             "ops": [["e", "e0", [["x", 1]]], ["w", "h0", True, {"a": 1}, []]], "takes": [0]}
        for legacy in (True, False):
            p = json.loads(json.dumps(w))
            p["legacy"] = legacy
            cases.append(Case(p, None, tags=("legacy" if legacy else "new", "witness")))
    if not search:
        for sc in ORACLE_ONLY:
            for legacy in (True, False):
                p = json.loads(json.dumps(sc))
                p["legacy"] = legacy
                cases.append(Case(p, None, tags=("legacy" if legacy else "new", "witness", "oracle-only")))
        for sc in DIRECTED:
            for legacy in (True, False):
                p = json.loads(json.dumps(sc))
                p["legacy"] = legacy
                cases.append(Case(p, None, tags=("legacy" if legacy else "new", "directed")))
    for i in range(n):
        sc = gen_scenario(rng, tier, search)
        for legacy in (True, False):
            p = dict(sc)
            p["legacy"] = legacy
            cases.append(Case(p, None, tags=("legacy" if legacy else "new",)))
    return cases


def replay_cases(obj):
    return [Case(obj["case"], None, tags=("legacy" if obj["case"].get("legacy") else "new",))]


# --------------------------------------------------------------------------- script generation
def dec_src(d):
    name = {"e": "event_trigger", "m": "mqtt_trigger", "w": "webhook_trigger"}[d["kind"]]
    args = [repr(d["key"])]
    if d["filt"] is not None:
        src = filt_src(d["filt"])
        if d.get("multiline"):
            src = "(\n  " + src + "\n)"            # a filter text that spans several lines
        args.append(repr(src))
    if d["kwargs"] or d.get("kwargs_empty"):
        args.append("kwargs={" + ", ".join(f"{k!r}: {v!r}" for k, v in d["kwargs"]) + "}")
    if d.get("encoding") is not None:
        args.append(f"encoding={d['encoding']!r}")
    if d.get("methods") is not None:
        args.append(f"methods={list(d['methods'])!r}")
    if d.get("local_only") is not None:
        args.append(f"local_only={d['local_only']!r}")
    return f"@{name}({', '.join(args)})"


def emit_src(fname, j, em):
    base = f"src={fname!r}, sd=d, sk=k, j={j}"
    if em["ek"] == "state":
        return [f"state.set('pyscript.out_{fname}', str(d) + ':' + str(k) + ':{j}')"]
    if em["ek"] == "service":
        return [f"pyscript.svcrec({base})"]
    extra = "".join(f", {k}={v!r}" for k, v in em["kw"])
    call = f"event.fire({em['name']!r}, {base}{extra}"
    if em["mode"] == "junk":
        return [call + ", context=7)"]
    if em["mode"] == "occ":
        return ["if 'context' in kw:", "    " + call + ", context=kw['context'])", "else:", "    " + call + ")"]
    return [call + ")"]


def script_src(funcs):
    out = ["seq = {}", "", "@service", "def svcrec(**kw):", "    pass", ""]
    for f in funcs:
        if f.get("hold"):
            out.append(f"@state_trigger(\"pyscript.hv_{f['name']} == '1'\", state_hold={HOLD})")
        for d in f["decs"]:
            out.append(dec_src(d))
        out.append(f"def {f['name']}(**kw):")
        body = []
        if f.get("hold"):
            body += ["if kw.get('trigger_type') == 'state':", f"    rec('hrun', {f['name']!r})", "    return"]
        body += ["d = kw.get('_d')", f"k = seq.get(({f['name']!r}, d), 0)", f"seq[({f['name']!r}, d)] = k + 1",
                f"rec('run', {f['name']!r}, d, k, kw)"]
        for j, em in enumerate(f["emits"]):
            if em["when"] == "pre":
                body += emit_src(f["name"], j, em)
        if f["sleep"]:
            body.append(f"task.sleep({f['sleep']})")
        for j, em in enumerate(f["emits"]):
            if em["when"] == "post":
                body += emit_src(f["name"], j, em)
        body.append(f"rec('end', {f['name']!r}, d, k)")
        out += ["    " + l for l in body]
        out.append("")
    return "\n".join(out)


# --------------------------------------------------------------------------- running the implementation
def json_val(payload):
    try:
        v = json.loads(payload)
    except ValueError:
        return False, None
    return True, v


def run_scenario(p):
    """returns the observation dict (or {'crash': ...})"""
    from ha_env import run_ha
    subs = []          # (topic, handler) recorded from mqtt.async_subscribe
    started_order = []

    encs = []

    async def fake_subscribe(hass, topic, handler, encoding="utf-8", qos=0):
        ent = (topic, handler)
        subs.append(ent)
        encs.append([topic, encoding])

        def rm():
            if ent in subs:
                subs.remove(ent)
        return rm

    async def body(env):
        from homeassistant.components import webhook
        from homeassistant.components.mqtt import ReceiveMessage
        from homeassistant.const import MATCH_ALL
        from homeassistant.core import HassJob, callback
        from homeassistant.util.aiohttp import MockRequest
        from custom_components.pyscript.event import Event
        from custom_components.pyscript.global_ctx import GlobalContextMgr
        from custom_components.pyscript.mqtt import Mqtt
        from custom_components.pyscript.webhook import Webhook
        hass = env.hass
        seq = []
        types = event_types_of(p)
        allowed = hook_methods(p)

        @callback
        def lis(ev):
            t = ev.event_type
            if t in types:
                seq.append(("ev", env.now(), t, dict(ev.data), ev.context.id, ev.context.parent_id))
            elif t == "state_changed" and ev.data.get("entity_id", "").startswith("pyscript.out_"):
                ns = ev.data.get("new_state")
                seq.append(("st", env.now(), ev.data["entity_id"], ns.state if ns else None, ev.context.id,
                            ev.context.parent_id))
            elif t == "call_service" and ev.data.get("service") == "svcrec":
                seq.append(("svc", env.now(), dict(ev.data.get("service_data") or {}), ev.context.id, ev.context.parent_id))
            elif t == "pyscript_running":
                seq.append(("running", env.now(), ev.data.get("name"), ev.data.get("func_args"), ev.context.id,
                            ev.context.parent_id))

        hass.bus.async_listen(MATCH_ALL, lis)
        obs = {}
        # ---- tables after start-up
        g = GlobalContextMgr.get("file.a")
        if p["legacy"]:
            units = []
            for f in p["funcs"]:
                fv = g.global_sym_table.get(f["name"])
                for t in (getattr(fv.func, "trigger", None) or []):
                    units.append([t.event_trigger[0] if t.event_trigger else "-",
                                  t.mqtt_trigger[0] if t.mqtt_trigger else "-",
                                  t.webhook_trigger[0] if t.webhook_trigger else "-"])
            obs["units"] = units
            obs["tab"] = {"e": {k: len(v) for k, v in Event.notify.items()},
                          "m": {k: len(v) for k, v in Mqtt.notify.items()},
                          "w": {k: len(v) for k, v in Webhook.notify.items()}}
            obs["listeners"] = {k: v for k, v in hass.bus.async_listeners().items() if k in types}
            obs["subs"] = sorted(t for t, _ in subs)
            obs["hooks"] = sorted(hass.data.get("webhook", {}).keys())
        else:
            lst = hass.bus.async_listeners()
            mq = {}
            for t, _ in subs:
                mq[t] = mq.get(t, 0) + 1
            # decorators listening per webhook id (one Home Assistant registration per id, shared); a tree
            # without the shared table has exactly one decorator per registered id
            shared = hass.data.get("pyscript.webhook_trigger")
            obs["tab"] = {"e": {k: lst.get(k, 0) for k in types}, "m": mq,
                          "w": {k: (len(shared.get(k, [])) if shared is not None else 1)
                                for k in hass.data.get("webhook", {}).keys()}}
            obs["start_order"] = list(started_order)
            live = {}
            for dm in g.dms:
                live[dm.func_name] = dm.status.value
            obs["dm_status"] = live
        obs["encodings"] = [list(e) for e in encs]
        obs["hooks_cfg"] = {k: [v.get("local_only"), sorted(v.get("allowed_methods") or [])]
                            for k, v in hass.data.get("webhook", {}).items()}
        # ---- the occurrences
        for f in p["funcs"]:
            if f.get("hold"):
                await env.set_state(f"pyscript.hv_{f['name']}", "0")
        for op in p["ops"]:
            if op[0] == "hold":
                # the function's held state trigger turns true and its hold expires (a wait that ends by time-out);
                # the following occurrences arrive right after that
                hass.states.async_set(f"pyscript.hv_{op[1]}", "0")
                await env.settle(0)
                hass.states.async_set(f"pyscript.hv_{op[1]}", "1")
                await env.settle(HOLD + 0.35)
            elif op[0] == "e":
                hass.bus.async_fire(op[1], dict(op[2]))
            elif op[0] == "m":
                _, sub, topic, payload, qos, retain = op
                seq.append(("m", env.now(), sub, topic, payload, qos, retain))
                msg = ReceiveMessage(topic, payload, qos, retain, sub, datetime.datetime.now())
                for t, h in list(subs):
                    if t == sub:
                        hass.async_run_hass_job(HassJob(h), msg)
            elif op[0] == "w":
                _, wid, is_json, jbody, form = op[:5]
                method = op[5] if len(op) > 5 else "POST"
                query = op[6] if len(op) > 6 else None
                # Home Assistant hands the request over only for an allowed method of a registered id
                if wid not in allowed or method in allowed[wid]:
                    seq.append(("w", env.now(), wid, is_json, jbody, form))
                if is_json:
                    req = MockRequest(json.dumps(jbody).encode(), "test", method=method,
                                      headers={"Content-Type": "application/json"}, query_string=query)
                else:
                    req = MockRequest("&".join(f"{k}={v}" for k, v in form).encode(), "test", method=method,
                                      headers={"Content-Type": "application/x-www-form-urlencoded"}, query_string=query)
                hass.async_create_task(webhook.async_handle_webhook(hass, wid, req))
            elif op[0] == "wbad":
                # JSON content type with an empty body: the payload cannot be built, nothing is handed to a function
                req = MockRequest(b"", "test", method="POST", headers={"Content-Type": "application/json"})
                hass.async_create_task(webhook.async_handle_webhook(hass, op[1], req))
            elif op[0] == "settle":
                await env.settle(op[1])
        await env.settle(12)
        obs["seq"] = seq
        obs["records"] = list(env.records)
        obs["errors"] = [m[2][-300:] for m in env.log if m[1] == "ERROR" and "start failed" in m[2]]
        return obs

    def wrap_start(orig):
        async def start(self):
            started_order.append(self.func_name)
            return await orig(self)
        return start

    from custom_components.pyscript.decorator import FunctionDecoratorManager
    orig = FunctionDecoratorManager.start
    try:
        with patch("homeassistant.components.mqtt.async_subscribe", fake_subscribe), \
             patch.object(FunctionDecoratorManager, "start", wrap_start(orig)):
            return run_ha({"a.py": script_src(p["funcs"])}, p["legacy"], body)
    except Exception as e:  # pylint: disable=broad-except
        return {"crash": f"{type(e).__name__}: {e}"}


# --------------------------------------------------------------------------- slots (decorator numbering)
def slots_of(p, func_order):
    """list of slot dicts in the order the model prints them.
    legacy: units per function (i-th decorator of every kind -> unit i), printed unit by unit, kinds e, m, w;
    new: decorators in start order of the functions, then declaration order."""
    by_name = {f["name"]: f for f in p["funcs"]}
    slots = []
    if p["legacy"]:
        ubase = 0
        for f in p["funcs"]:
            per = {"e": [], "m": [], "w": []}
            for di, d in enumerate(f["decs"]):
                per[d["kind"]].append((di, d))
            nun = max(len(v) for v in per.values())
            for u in range(nun):
                for k in "emw":
                    if u < len(per[k]):
                        di, d = per[k][u]
                        slots.append({"f": f["name"], "di": di, "dec": d, "a": ubase + u, "b": k,
                                      "label": f"{ubase + u}.{k}"})
            ubase += nun
    else:
        i = 0
        for fn in func_order:
            f = by_name[fn]
            for di, d in enumerate(f["decs"]):
                slots.append({"f": fn, "di": di, "dec": d, "a": i, "b": d["kind"], "label": str(i)})
                i += 1
    return slots


def tag_of(d):
    for k, v in d["kwargs"]:
        if k == "_d":
            return v
    return None


# --------------------------------------------------------------------------- canonical rendering of the observation
class Canon:
    def __init__(self):
        self.trav = []

    def add(self, cid):
        self.trav.append(cid)

    def idx(self, cid):
        return self.trav.index(cid)

    def opt(self, cid):
        if cid is None:
            return "-"
        return self.trav.index(cid) if cid in self.trav else "?"


def obs_val(v, canon):
    from homeassistant.core import Context
    if isinstance(v, Context):
        return ["c", canon.idx(v.id) if v.id in canon.trav else "?"]
    if v is None:
        return "none"
    if isinstance(v, bool):
        return ["b", 1 if v else 0]
    if isinstance(v, int):
        return ["i", v]
    if isinstance(v, str):
        return ["s", v]
    if isinstance(v, dict):
        return ["d"] + [[k, obs_val(x, canon)] for k, x in v.items()]
    if isinstance(v, list):
        return ["l"] + [obs_val(x, canon) for x in v]
    return ["unknown", type(v).__name__]


def obs_dict(d, canon):
    return [[k, obs_val(v, canon)] for k, v in d.items()]


def analyse(p, obs):
    """-> dict with everything verdict/impl/line need (contexts replaced by canonical indices)"""
    func_order = [f["name"] for f in p["funcs"]]
    if not p["legacy"]:
        so = [n for n in obs.get("start_order", []) if n in func_order]
        func_order = so + [n for n in func_order if n not in so]
    slots = slots_of(p, func_order)
    slot_of = {}
    for s in slots:
        slot_of[(s["f"], tag_of(s["dec"]))] = s
    by_name = {f["name"]: f for f in p["funcs"]}
    # runs: records + running events, per (fname, tag)
    runs = {}
    for r in obs["records"]:
        if r[1] == "run":
            t, _, fname, d, k, kw = r
            runs.setdefault((fname, d), []).append({"t": t, "k": k, "kw": kw, "ctx": None, "parent": None, "end": None})
    for r in obs["records"]:
        if r[1] == "end":
            t, _, fname, d, k = r
            lst = runs.get((fname, d), [])
            if k < len(lst):
                lst[k]["end"] = t
    rcount = {}
    for it in obs["seq"]:
        if it[0] == "running":
            _, t, name, fargs, cid, par = it
            fname = name.split("_")[-1]
            d = (fargs or {}).get("_d")
            i = rcount.get((fname, d), 0)
            rcount[(fname, d)] = i + 1
            lst = runs.get((fname, d), [])
            if i < len(lst):
                lst[i]["ctx"], lst[i]["parent"] = cid, par
    # log + emissions in observed order
    log = []      # dicts: kind,key,t,ctx,parent,data..., src
    ems = []
    for it in obs["seq"]:
        if it[0] == "ev":
            _, t, et, data, cid, par = it
            ent = {"kind": "e", "key": et, "t": t, "ctx": cid, "parent": par, "data": data, "src": None}
            if "src" in data and "sk" in data:
                ent["src"] = (data["src"], data.get("sd"), data["sk"], data.get("j"))
                ems.append({"ek": "event", "name": et, "data": data, "ctx": cid, "parent": par, "src": ent["src"], "t": t,
                            "log": len(log)})
            log.append(ent)
        elif it[0] == "m":
            _, t, sub, topic, payload, qos, retain = it
            log.append({"kind": "m", "key": sub, "t": t, "ctx": None, "topic": topic, "payload": payload, "qos": qos,
                        "retain": retain, "src": None})
        elif it[0] == "w":
            _, t, wid, is_json, jbody, form = it
            log.append({"kind": "w", "key": wid, "t": t, "ctx": None, "is_json": is_json, "body": jbody, "form": form,
                        "src": None})
        elif it[0] == "st":
            _, t, ent_id, state, cid, par = it
            fname = ent_id[len("pyscript.out_"):]
            d, k, j = (state or "::").split(":")
            src = (fname, None if d == "None" else int(d), int(k), int(j))
            ems.append({"ek": "state", "name": ent_id, "data": {}, "ctx": cid, "parent": par, "src": src, "t": t,
                        "log": len(log)})
        elif it[0] == "svc":
            _, t, sd, cid, par = it
            src = (sd.get("src"), sd.get("sd"), sd.get("sk"), sd.get("j"))
            ems.append({"ek": "service", "name": "svcrec", "data": {}, "ctx": cid, "parent": par, "src": src, "t": t,
                        "log": len(log)})
    canon = Canon()
    for o in log:
        if o["ctx"] is not None:
            canon.add(o["ctx"])
    for s in slots:
        for r in runs.get((s["f"], tag_of(s["dec"])), []):
            canon.add(r["ctx"])
    return {"slots": slots, "slot_of": slot_of, "runs": runs, "log": log, "ems": ems, "canon": canon,
            "func_order": func_order, "by_name": by_name}


def render_impl(p, obs, an):
    canon = an["canon"]
    out = []
    slots = an["slots"]
    if p["legacy"]:
        out.append(["units"] + obs["units"])
    tab = obs["tab"]
    out.append(["tab"] + [[s["dec"]["kind"], s["dec"]["key"], tab[s["dec"]["kind"]].get(s["dec"]["key"], 0)] for s in slots])
    if not p["legacy"]:
        st = obs.get("dm_status", {})
        out.append(["live"] + [1 if st.get(s["f"]) == "running" else 0 for s in slots])
    lg = ["log"]
    for o in an["log"]:
        if o["kind"] == "e":
            lg.append(["e", o["key"], canon.idx(o["ctx"]), canon.opt(o["parent"])])
        else:
            lg.append([o["kind"], o["key"]])
    out.append(lg)
    rs = ["runs"]
    for s in slots:
        ent = [s["label"]]
        for r in an["runs"].get((s["f"], tag_of(s["dec"])), []):
            ent.append(["r", obs_dict(r["kw"], canon), canon.opt(r["ctx"]) if r["ctx"] else "?", canon.opt(r["parent"])])
        rs.append(ent)
    out.append(rs)
    em = ["em"]
    for e in an["ems"]:
        data = obs_dict(e["data"], canon) if e["ek"] == "event" else []
        em.append([e["ek"], e["name"], data, canon.opt(e["ctx"]), canon.opt(e["parent"])])
    out.append(em)
    nend = sum(1 for r in obs["records"] if r[1] == "end")
    out.append(["fin", nend])
    out.append(["pending", 0])
    return "ok " + sx(out)


def build_line(p, obs, an):
    """the observed occurrence sequence as a schedule of the Lean machine"""
    steps = []
    takes = list(p.get("takes") or [0])
    ti = [0]

    def maybe_take():
        v = takes[ti[0] % len(takes)]
        ti[0] += 1
        if v % 3 == 0:
            steps.append(["t", v])

    em_at = {}
    for e in an["ems"]:
        em_at.setdefault(e["log"], []).append(e)

    def emit_step(e):
        fname, d, k, j = e["src"]
        s = an["slot_of"].get((fname, d))
        f = an["by_name"].get(fname)
        if s is None or f is None or j is None or j >= len(f["emits"]):
            steps.append(["bad-emission"])
            return
        spec = f["emits"][j]
        steps.append(["drain"])
        if e["ek"] == "event":
            kw = [["src", fname], ["sd", d], ["sk", k], ["j", j]] + [list(x) for x in spec["kw"]]
            steps.append(["em", s["a"], s["b"], k, "event", e["name"], dict_sx(kw), spec["mode"]])
        else:
            steps.append(["em", s["a"], s["b"], k, e["ek"], e["name"], [], "none"])

    pending_nonevent = {}
    for e in an["ems"]:
        if e["ek"] != "event":
            pending_nonevent.setdefault(e["log"], []).append(e)
    for i, o in enumerate(an["log"]):
        for e in pending_nonevent.get(i, []):
            emit_step(e)
        if o["kind"] == "e":
            if o["src"] is not None:
                e = next(x for x in an["ems"] if x["ek"] == "event" and x["log"] == i)
                emit_step(e)
            else:
                steps.append(["f", "e", o["key"], dict_sx(o["data"])])
        elif o["kind"] == "m":
            ok, jv = json_val(o["payload"])
            steps.append(["f", "m", o["key"], o["topic"], o["payload"], o["qos"], 1 if o["retain"] else 0,
                          val_sx(jv) if ok else "-"])
        else:
            steps.append(["f", "w", o["key"], 1 if o["is_json"] else 0, val_sx(o["body"]) if o["is_json"] else "none",
                          dict_sx(o["form"])])
        maybe_take()
    for e in pending_nonevent.get(len(an["log"]), []):
        emit_step(e)
    steps.append(["drain"])
    for r in obs["records"]:
        if r[1] == "end":
            _, _, fname, d, k = r
            s = an["slot_of"].get((fname, d))
            if s is not None:
                steps.append(["fin", s["a"], s["b"], k])
    funcs = [an["by_name"][n] for n in an["func_order"]]
    fs = [[[d["kind"], d["key"], filt_sx(d["filt"]), dict_sx(d["kwargs"])] for d in f["decs"]] for f in funcs]
    return "C08 " + sx(["L" if p["legacy"] else "N", ["funcs"] + fs, ["steps"] + steps])


def _run_one(p):
    obs = run_scenario(p)
    if "crash" in obs:
        return {"impl": "crash " + obs["crash"], "line": None, "oracle": "harness-crash: " + obs["crash"], "nruns": 0,
                "info": {}}
    try:
        an = analyse(p, obs)
        impl = render_impl(p, obs, an)
        line = build_line(p, obs, an)
        oracle = oracle_check(p, obs, an)
        nruns = sum(len(v) for v in an["runs"].values())
        passed = {}
        for sl in an["slots"]:
            d = sl["dec"]
            k = len(an["runs"].get((sl["f"], tag_of(d)), []))
            for v in filt_vars(d["filt"]):
                key = d["kind"] + "." + v
                passed[key] = passed.get(key, 0) + k
        info = {"nlog": len(an["log"]), "nem": len(an["ems"]), "start_errors": len(obs.get("errors", [])),
                "passed": passed, "hruns": sum(1 for r in obs["records"] if r[1] == "hrun")}
    except Exception as e:  # pylint: disable=broad-except
        import traceback
        return {"impl": "analysis-crash", "line": None, "oracle": "harness-crash: " + traceback.format_exc()[-400:],
                "nruns": 0, "info": {}}
    return {"impl": impl, "line": line, "oracle": oracle, "nruns": nruns, "info": info}


_WARM = []


def _warm_up():
    """import Home Assistant + pyscript once in the parent so that forked workers share the modules"""
    if _WARM:
        return
    _WARM.append(1)
    _run_one({"funcs": [{"name": "f0", "decs": [{"kind": "e", "key": "e0", "filt": None, "kwargs": []}], "sleep": 0,
                         "emits": []}], "ops": [["e", "e0", []]], "takes": [0], "legacy": False})


def run_impl(cases):
    _warm_up()
    res = common.pmap(_run_one, [c.payload for c in cases], workers=14)
    for c, r in zip(cases, res):
        c.impl = r["impl"]
        c.line = None if c.payload.get("oracle_only") else r["line"]
        c.payload["_oracle"] = r["oracle"]
        c.payload["_info"] = r["info"]
        c.nontrivial = r["nruns"] > 0


def split(outline):
    if " ## " in outline:
        m, s = outline.split(" ## ", 1)
        return m, s
    return outline, None


# --------------------------------------------------------------------------- the property oracle (independent of Lean)
def py_base(o, ctxobj):
    if o["kind"] == "e":
        d = {"trigger_type": "event", "event_type": o["key"], "context": ctxobj}
        d.update(o["data"])
        return d
    if o["kind"] == "m":
        d = {"trigger_type": "mqtt", "topic": o["topic"], "payload": o["payload"], "qos": o["qos"], "retain": o["retain"]}
        ok, jv = json_val(o["payload"])
        if ok:
            d["payload_obj"] = jv
        return d
    d = {"trigger_type": "webhook", "webhook_id": o["key"]}
    if o["is_json"]:
        d["payload"] = o["body"]
    else:
        pl = {}
        for k, v in o["form"]:
            pl.setdefault(k, v)
        d["payload"] = pl
    return d


class _CtxTok:
    """stands for the Context object of an occurrence inside oracle dictionaries"""
    def __init__(self, cid):
        self.cid = cid


def oracle_check(p, obs, an):
    """None when the property holds on this run, else a reason string"""
    from homeassistant.core import Context
    sub = "legacy" if p["legacy"] else "new"
    log = an["log"]
    total_expected = 0
    for s in an["slots"]:
        d = s["dec"]
        got = an["runs"].get((s["f"], tag_of(d)), [])
        exp = []
        for o in log:
            if o["kind"] != d["kind"] or o["key"] != d["key"]:
                continue
            base = py_base(o, _CtxTok(o["ctx"]))
            ok = True
            if d["filt"] is not None:
                try:
                    ok = bool(eval(filt_src(d["filt"]), {"__builtins__": {}}, dict(base)))  # noqa: S307 pylint: disable=eval-used
                except Exception:  # pylint: disable=broad-except
                    ok = False
            if ok:
                kw = dict(base)
                kw.update(dict(d["kwargs"]))
                exp.append((o, kw))
        total_expected += len(exp)
        what = f"{sub}: {KINDS[d['kind']]} trigger"
        if len(got) < len(exp):
            dead = ""
            names = {k for o in log if o["kind"] == "e" for k in o["data"]} | {k for k, _ in d["kwargs"]}
            if p["legacy"] and names & INTERNAL_B:
                return f"{what}: trigger dead after a keyword named like a parameter of do_func_call"
            if names & INTERNAL_A:
                return f"{what}: run lost for a keyword named like a parameter of call_func"
            if (not p["legacy"] and obs.get("dm_status", {}).get(s["f"]) != "running"
                    and any("Handler is already defined" in e for e in obs.get("errors", []))):
                dead = " function-not-started(Handler is already defined)"
            return f"{what}: lost {len(exp) - len(got)} of {len(exp)} qualifying occurrences{dead}"
        if len(got) > len(exp):
            return f"{what}: {len(got) - len(exp)} extra runs (duplicate or non-qualifying occurrence)"
        for (o, kw), r in zip(exp, got):
            gkw = r["kw"]
            if list(gkw.keys()) != list(kw.keys()) and set(gkw.keys()) != set(kw.keys()):
                return f"{what}: keyword names differ"
            for k, v in kw.items():
                g = gkw.get(k)
                if isinstance(v, _CtxTok):
                    if not (isinstance(g, Context) and g.id == v.cid):
                        return f"{what}: context keyword is not the occurrence's context (reordered or wrong occurrence)"
                elif g != v or type(g) is not type(v):
                    return f"{what}: keyword value differs (reordered, wrong data or kwargs not applied)"
            if abs(r["t"] - o["t"]) > 1e-9:
                return f"{what}: run started at another instant than its occurrence (not an independent task)"
            want_parent = o["ctx"] if isinstance(gkw.get("context"), Context) else None
            if r["ctx"] is None:
                return f"{what}: run without context"
            if r["parent"] != want_parent:
                return f"{what}: run context parent is not the occurrence's context"
    # decorator arguments as handed to Home Assistant (subscription encoding, webhook methods / local_only)
    if not obs.get("errors"):
        want = [[d["key"], d.get("encoding") or "utf-8"] for f in p["funcs"] for d in f["decs"] if d["kind"] == "m"]
        got = [list(x) for x in obs.get("encodings", [])]
        if p["legacy"]:
            per = {}
            for k, e in want:
                per.setdefault(k, set()).add(e)
            if sorted(k for k, _ in got) != sorted(per) or any(e not in per.get(k, ()) for k, e in got):
                return f"{sub}: mqtt subscriptions (topic, encoding) differ from the decorators"
        elif sorted(got) != sorted(want):
            return f"{sub}: mqtt subscriptions (topic, encoding) differ from the decorators"
        wdecs = [d for f in p["funcs"] for d in f["decs"] if d["kind"] == "w"]
        for d in wdecs:
            if sum(1 for x in wdecs if x["key"] == d["key"]) != 1:
                continue
            want_cfg = [True if d.get("local_only") is None else d["local_only"], sorted(d.get("methods") or ["POST", "PUT"])]
            if obs.get("hooks_cfg", {}).get(d["key"]) != want_cfg:
                return f"{sub}: webhook registration (local_only, methods) differs from the decorator"
    # emissions
    for e in an["ems"]:
        fname, d, k, j = e["src"]
        lst = an["runs"].get((fname, d), [])
        f = an["by_name"].get(fname)
        if k is None or k >= len(lst) or f is None or j is None or j >= len(f["emits"]):
            return f"{sub}: emission of an unknown run"
        r = lst[k]
        spec = f["emits"][j]
        occ_ctx = r["kw"].get("context")
        if e["ek"] == "event":
            want = {"src": fname, "sd": d, "sk": k, "j": j}
            want.update(dict(spec["kw"]))
            if spec["mode"] == "junk":
                want["context"] = 7
            if spec["mode"] == "occ" and "context" in r["kw"] and not isinstance(occ_ctx, Context):
                want["context"] = occ_ctx
            if e["data"] != want:
                return f"{sub}: event.fire data differs from the given parameters"
            if spec["mode"] == "occ" and isinstance(occ_ctx, Context):
                if e["ctx"] != occ_ctx.id:
                    return f"{sub}: event.fire explicit context not used"
                continue
        if e["ctx"] != r["ctx"]:
            return f"{sub}: {e['ek']} emission does not carry the run's context"
        if e["parent"] != r["parent"]:
            return f"{sub}: {e['ek']} emission context has the wrong parent"
    # every expected emission happened (each run performs all its emissions once it has ended)
    for (fname, d), lst in an["runs"].items():
        f = an["by_name"].get(fname)
        for r in lst:
            if r["end"] is None:
                return f"{sub}: a run did not finish within the scenario"
            n = sum(1 for e in an["ems"] if e["src"][0] == fname and e["src"][1] == d and e["src"][2] == r["k"])
            if n != len(f["emits"]):
                return f"{sub}: a run's emissions were lost or duplicated on the bus"
    return None


def verdict(c):
    o = c.payload.get("_oracle")
    if o and o.startswith("harness-crash"):
        raise RuntimeError(o)
    if o:
        return o
    # impl vs the spec column of the driver (runs per decorator, keyword dictionaries)
    if c.spec is not None and c.impl and c.impl.startswith("ok "):
        try:
            im = common.parse_sx(c.impl[3:])
            sp = common.parse_sx(c.spec)
            iruns = next(x for x in im if x and x[0] == "runs")[1:]
            sruns = sp[1:]
            a = [[r[0]] + [rr[1] for rr in r[1:]] for r in iruns]
            if a != sruns:
                return ("legacy" if c.payload["legacy"] else "new") + ": runs differ from Spec.expected (Lean spec column)"
        except (StopIteration, IndexError, TypeError):
            pass
    return None


F1_SIG = "new: function whose webhook id already has a handler fails to start; all its triggers are dead"
F2_SIG = "run lost when a keyword is named like an internal parameter (self, func, func_name, ast_ctx)"
F3_SIG = "legacy: the trigger dies when a keyword is named like a parameter of do_func_call (func, ast_ctx, task_unique, ...)"


def classify(c, reason):
    if "function-not-started(Handler is already defined)" in reason:
        return F1_SIG
    if "run lost for a keyword named like a parameter of call_func" in reason:
        return F2_SIG
    if "trigger dead after a keyword named like a parameter of do_func_call" in reason:
        return F3_SIG
    r = re.sub(r"\d+", "N", reason)
    return r[:110]


def extra_coverage(cases):
    kinds, filt, stacked, nlog, nem, errs, burst = {}, 0, 0, 0, 0, 0, 0
    fvars, fpassed = {}, {}
    bnd = {}

    def cnt(k, n=1):
        bnd[k] = bnd.get(k, 0) + n
    for c in cases:
        p = c.payload
        keys = [d["key"] for f in p["funcs"] for d in f["decs"]]
        if any(k in ("e0x", "h", "t//a", "+/a/#", "#", "H1") or not k.isascii() for k in keys):
            cnt("exotic_keys_scenarios")
        if max([keys.count(k) for k in keys] or [0]) >= 3:
            cnt("three_or_more_triggers_on_one_key")
        for f in p["funcs"]:
            for d in f["decs"]:
                for fld in ("kwargs_empty", "multiline", "encoding", "methods", "local_only"):
                    if d.get(fld) is not None and d.get(fld) is not False or (fld == "local_only" and d.get(fld) is False):
                        cnt("dec_" + fld)
                if any(v is None for _, v in d["kwargs"]):
                    cnt("dec_kwargs_none_value")
        for op in p["ops"]:
            if op[0] == "m":
                ok, jv = json_val(op[3])
                cnt("mqtt_payload_" + ("empty" if op[3] == "" else "nonjson" if not ok else "array" if isinstance(jv, list) else
                                       "object" if isinstance(jv, dict) else "scalar"))
            elif op[0] == "w":
                cnt("webhook_" + ("json" if op[2] else "form") + ("_" + op[5] if len(op) > 5 else ""))
                if len(op) > 6 and op[6]:
                    cnt("webhook_query_string")
            elif op[0] == "wbad":
                cnt("webhook_empty_json_body")
            elif op[0] == "e":
                ks = [k for k, _ in op[2]]
                if any(k in ("trigger_type", "event_type", "context") for k in ks):
                    cnt("event_data_reserved_key")
                if any(k in ("class", "lambda", "None_", "data", "kwargs") for k in ks):
                    cnt("event_data_keyword_key")
        if any(f.get("hold") for f in p["funcs"]):
            cnt("functions_with_held_state_trigger")
            cnt("hold_expiries", sum(1 for o in p["ops"] if o[0] == "hold"))
            cnt("hold_runs_observed", p.get("_info", {}).get("hruns", 0))
        wk = [d["key"] for f in p["funcs"] for d in f["decs"] if d["kind"] == "w"]
        if len(wk) != len(set(wk)):
            cnt("webhook_id_shared_by_several_decorators")
        nops = [o for o in p["ops"] if o[0] not in ("settle", "hold")]
        if not any(o[0] == "settle" for o in p["ops"]) and len(nops) >= 3:
            cnt("bursts_of_three_or_more")
    for c in cases:
        p = c.payload
        for k, v in (p.get("_info", {}).get("passed") or {}).items():
            fpassed[("legacy:" if p["legacy"] else "new:") + k] = fpassed.get(("legacy:" if p["legacy"] else "new:") + k, 0) + v
        for f in p["funcs"]:
            if len(f["decs"]) > 1:
                stacked += 1
            for d in f["decs"]:
                kinds[d["kind"]] = kinds.get(d["kind"], 0) + 1
                filt += d["filt"] is not None
                for v in filt_vars(d["filt"]):
                    fvars[d["kind"] + "." + v] = fvars.get(d["kind"] + "." + v, 0) + 1
        i = p.get("_info", {})
        nlog += i.get("nlog", 0)
        nem += i.get("nem", 0)
        errs += i.get("start_errors", 0)
        burst += not any(o[0] == "settle" for o in p["ops"])
    return {"decorator_kinds": kinds, "decorators_with_filter": filt, "functions_with_stacked_decorators": stacked,
            "occurrences_observed": nlog, "emissions_observed": nem, "burst_only_scenarios": burst,
            "function_start_failures_seen": errs, "filters_using_variable": dict(sorted(fvars.items())),
            "runs_started_through_filter_on_variable": dict(sorted(fpassed.items())),
            "boundary_values": dict(sorted(bnd.items()))}


def shrink(c, reason):
    """greedy: drop ops / emissions / decorators while the same signature is reported"""
    sig = classify(c, reason)
    best = c

    def attempt(p):
        cc = Case(p, None, tags=c.tags)
        r = _run_one({k: v for k, v in p.items() if not k.startswith("_")})
        cc.impl, cc.line = r["impl"], r["line"]
        cc.payload["_oracle"] = r["oracle"]
        if r["oracle"] and not r["oracle"].startswith("harness-crash") and classify(cc, r["oracle"]) == sig:
            return cc
        return None

    changed = True
    budget = 12
    while changed and budget > 0:
        changed = False
        p = {k: v for k, v in best.payload.items() if not k.startswith("_")}
        for i in range(len(p["ops"])):
            q = json.loads(json.dumps(p))
            del q["ops"][i]
            budget -= 1
            got = attempt(q) if q["ops"] else None
            if got:
                best, changed = got, True
                break
            if budget <= 0:
                break
    if best is not c and best.line:
        out = common.drive([best.line])
        best.model, best.spec = split(out[0])
    return best
