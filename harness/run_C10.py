"""C10 correspondence + property oracle: real pyscript reload on real temp trees vs the Lean model (Model/C10.lean)
and vs an independent rendering of docs/reference.rst ("Reloading Scripts")."""
import json
import os
import re
import shutil

import common
from common import Case, sx

PROP = "C10"
RULE = ("file trees over pyscript/*.py, scripts/**, apps/<a>.py, apps/<a>/__init__.py + siblings, modules/<m>.py, "
        "modules/<m>/__init__.py + siblings with generated (acyclic, plus one cyclic family) import edges; sequences of "
        "write / modify-keeping-mtime / touch / delete / rename-with-# (file and directory) / app-config add-change-remove "
        "steps, each followed by reload(None | name | '*').  Every script's first line records (context name, source "
        "generation).  A case is non-trivial when at least one reload loads or discards something; distinct by payload.  "
        "Family `lazy` (oracle only, no Lean column): scripts / apps whose @service bodies execute `import <module>` the "
        "first time they are called; steps `call these services` between default reloads, histories of 4-12 steps with at "
        "least three reloads; the oracle keeps its own account of the edges added at run time and demands that every "
        "context that imports a changed module directly or transitively BY THE GRAPH AS OF NOW is re-executed (load "
        "events, context identities) and that a service afterwards uses the module that is loaded now.")
ASSUMPTIONS = [
    "what a script imports WHILE IT LOADS is a function of its source text (model parameter `prog`); imports executed later "
    "inside function bodies are outside the Lean model and covered by the oracle-only family `lazy`",
    "path components contain no '.' or '/' (context names are rendered by joining components with '.')",
    "glob.glob / sorted / os.path.isfile / os.path.getmtime behave as documented (directory listing is an input)",
    "Python's RecursionError on cyclic pyscript imports is modelled as fuel exhaustion (cyclic family: oracle only)",
]
TRUSTED = ["tools/extractors/C10.py (load_paths table, script-context prefix set)",
           "harness/run_C10.py (tree generator, canonicalisation, documented-behaviour oracle)",
           "harness/ha_env.py (Home Assistant test instance; config reload through the patched yaml loader)"]

# --------------------------------------------------------------------------------------------- file pool
# BOUNDARY values in the pools: names that are prefixes of each other (a / a_b / ab, apps x / x2, modules m / m2 / m.n),
# a name with several dots and one with digits (a.b.py, a1.py, scripts/d/s.1.py - only where a file name is just a
# name: top level and scripts), a script with the base name of a module (m.py / modules/m.py), the same script name
# at three depths (scripts/s1.py, scripts/d/s1.py, scripts/d/e/s1.py), a package with only __init__.py (apps/z,
# modules/m), an app directory without yaml entry and a yaml entry without files (app w), empty directories.
TOP = ["a.py", "b.py", "c.py", "a_b.py", "ab.py", "a.b.py", "a1.py", "m.py"]
SCRIPTS = ["scripts/s1.py", "scripts/d/s2.py", "scripts/d/e/s3.py", "scripts/d/s1.py", "scripts/d/e/s1.py",
           "scripts/d/s.1.py"]
APPS = {"x": ["apps/x/__init__.py", "apps/x/h.py", "apps/x/g.py", "apps/x.py"],
        "y": ["apps/y.py", "apps/y/__init__.py", "apps/y/h.py"],
        "x2": ["apps/x2.py"],
        "z": ["apps/z/__init__.py"]}
APP_NAMES = ["x", "y", "x2", "z", "w"]          # w: only ever a yaml entry, never a file
EMPTY_DIRS = ["scripts/void", "scripts/d/void", "modules/voidpkg", "apps/voidapp", "apps/w", "void"]
# module roots in import order: a module may only import roots that come earlier (acyclic by construction)
MODROOTS = ["m", "m2", "n", "p", "q"]
MODS = {"m": ["modules/m.py", "modules/m/__init__.py", "modules/m/n.py"],
        "m2": ["modules/m2.py"],
        "n": ["modules/n.py"],
        "p": ["modules/p/__init__.py", "modules/p/s.py", "modules/p/t.py"],
        "q": ["modules/q/__init__.py", "modules/q/sub.py", "modules/q.py"]}
SIBS = {"apps/x/__init__.py": ["h", "g"], "apps/y/__init__.py": ["h"], "modules/p/__init__.py": ["s", "t"],
        "modules/q/__init__.py": ["sub"], "modules/m/__init__.py": ["n"], "apps/z/__init__.py": []}
RENAMES = [("a.py", "#a.py"), ("scripts/d", "scripts/#d"), ("scripts/s1.py", "scripts/#s1.py"),
           ("apps/x", "apps/#x"), ("modules/p", "modules/#p"), ("modules/n.py", "modules/#n.py"),
           ("apps/y.py", "apps/#y.py"), ("modules/p/s.py", "modules/p/#s.py")]
ALL_FILES = TOP + SCRIPTS + [f for v in APPS.values() for f in v] + [f for v in MODS.values() for f in v]


def comps(rel):
    return rel[:-3].split("/")


# files without anything to run: 0 bytes, white space only, a comment only.  Their content is fixed, so is the source id
# the model sees (`prog` of these ids is empty); a file may go empty -> non-empty -> empty again.
EMPTY_TEXT = ["", "  \n\n", "# nothing to run here\n"]
EMPTY_ID = [900001, 900002, 900003]
CFG_NONE = -1      # an app whose yaml entry is empty (`my_app:` parses to None): configured, value None
CFG_INNER_NONE = 7  # an entry with a None VALUE inside: `my_app: {k: }`
CFG_VALUES = [CFG_NONE, CFG_NONE, 0, 1, 2, 3, CFG_INNER_NONE]


def gen_of_text(text):
    """source id of a script text: the generation its first line records, or the fixed id of an empty content"""
    if text in EMPTY_TEXT:
        return EMPTY_ID[EMPTY_TEXT.index(text)]
    m = re.search(r"rec\('load', [^,]*, (\d+)\)", text or "")
    return int(m.group(1)) if m else -1


# what an app script may do to the dict pyscript hands it as `pyscript.app_config` while it loads (seeded change C10_8:
# the stored configuration must not be the object the script mutates, or every later reload sees a "changed" app)
MUTATIONS = ['pyscript.app_config.setdefault("interval", 60)',
             'pyscript.app_config["extra"] = 1',
             'pyscript.app_config.pop("k", None)',
             'pyscript.app_config.setdefault("sub", {})["n"] = 1']


def lazy_svc(owner, mod):
    """name of the service of context `owner` that imports `mod` inside its body"""
    return "lz_" + owner.replace(".", "_") + "_" + mod.replace(".", "_")


def script_text(gen, imports, mut=None, lazy=None, val=False, owner=None):
    if gen in EMPTY_ID:
        return EMPTY_TEXT[EMPTY_ID.index(gen)]
    lines = [f"rec('load', pyscript.get_global_ctx(), {gen})"]
    if val:
        lines.append(f"GEN = {gen}")
    if lazy:
        # services that execute an `import` statement INSIDE their body, the first time they run (seeded change C10_7:
        # the edge is recorded when the statement executes - between two reloads - not while the file loads); the
        # module object is kept in a global, as a script that uses it later would
        lines.append("_lz = {}")
        for mod in lazy:
            lines += ["@service", f"def {lazy_svc(owner, mod)}():", f"    if '{mod}' not in _lz:",
                      f"        import {mod}", f"        _lz['{mod}'] = {mod}",
                      f"    rec('use', pyscript.get_global_ctx(), {gen}, '{mod}', _lz['{mod}'].GEN)"]
    for level, mod in imports:
        lines.append(f"import {mod}" if level == 0 else f"from {'.' * level} import {mod}")
    if mut is not None:
        # only configured apps with a non-empty configuration have the variable
        lines += ["try:", "    " + MUTATIONS[mut % len(MUTATIONS)], "except NameError:", "    pass"]
    return "\n".join(lines) + "\n"


def file_text(rel, v):
    return script_text(v["gen"], v["imports"], v.get("mut"), v.get("lazy"), v.get("val", False),
                       doc_name(comps(rel.replace("#", ""))))


def rand_imports(rng, rel, sibrel, present=None):
    """import statements allowed for the file `rel` (acyclic: module roots only import earlier roots)"""
    rel = rel.replace("#", "")
    c = comps(rel)
    out = []
    if c[0] == "modules":
        allowed = MODROOTS[:MODROOTS.index(c[1])]
    else:
        allowed = list(MODROOTS)
    if present is not None and rng.random() < 0.85:
        # mostly import modules that exist (a missing module makes the importer fail to load)
        allowed = [m for m in allowed if any(f in present for f in MODS[m][:1] + [x for x in MODS[m] if "__init__" in x])]
    k = rng.choice([0, 0, 1, 1, 2, 3])
    for _ in range(k):
        if not allowed:
            break
        m = rng.choice(allowed)
        if present is not None and m in ("p", "q") and ("modules/%s/__init__.py" % m) not in present:
            out.append([0, m])
            continue
        if m == "p" and rng.random() < 0.3:
            out.append([0, "p." + rng.choice(["s", "t"])])
        elif m == "m" and rng.random() < 0.3:
            out.append([0, "m.n"])
        elif m == "q" and rng.random() < 0.4:
            out.append([0, "q.sub"])
        else:
            out.append([0, m])
    if rel in SIBS:
        for s in SIBS[rel]:
            if rng.random() < 0.6:
                out.insert(rng.randrange(len(out) + 1), [1, s])
    elif sibrel and c[0] in ("apps", "modules") and len(c) == 3:
        # sibling-relative import: `from . import t` inside a non-__init__ member of a package
        parent = "/".join(c[:2]) + "/__init__.py"
        sibs = [s for s in SIBS.get(parent, []) if s < c[2]]
        if sibs and rng.random() < 0.7:
            out.append([1, rng.choice(sibs)])
    seen, res = set(), []
    for i in out:
        if tuple(i) not in seen:
            seen.add(tuple(i))
            res.append(i)
    return res


# --------------------------------------------------------------------------------------------- simulation of the ops
class Sim:
    """the file tree and app configuration as the ops of a case build them (shared by impl run, model line, oracle)"""

    def __init__(self, apps0):
        self.disk = {}      # rel -> {"gen", "mtime", "imports"}
        self.cfg = dict(apps0)
        self.gen = 0
        self.clock = 1000000
        self.prog = {}      # gen -> imports
        self.hist = {}      # rel -> list of versions {"gen", "mtime", "imports"} that were on disk at some time
        self.ever = set()   # every rel that ever existed (names of deleted files are good reload(name) arguments)

    def apply(self, op, root=None):
        k = op["op"]
        if k == "write":
            if op.get("empty") is not None:
                g = EMPTY_ID[op["empty"]]
            else:
                self.gen += 1
                g = self.gen
            old = self.disk.get(op["rel"])
            if op.get("keep_mtime") and old:
                mt = old["mtime"]
            else:
                self.clock += 1
                mt = self.clock
            self.disk[op["rel"]] = {"gen": g, "mtime": mt, "imports": op["imports"]}
            if op.get("mut") is not None and g not in EMPTY_ID:
                self.disk[op["rel"]]["mut"] = op["mut"]
            for k2 in ("lazy", "val"):
                if op.get(k2):
                    self.disk[op["rel"]][k2] = op[k2]
            self.prog[g] = op["imports"]
            self.hist.setdefault(op["rel"], []).append(dict(self.disk[op["rel"]]))
            self.ever.add(op["rel"])
            if root:
                p = os.path.join(root, op["rel"])
                os.makedirs(os.path.dirname(p), exist_ok=True)
                with open(p, "w") as f:
                    f.write(file_text(op["rel"], self.disk[op["rel"]]))
                os.utime(p, (mt, mt))
        elif k == "restore":
            # put an earlier version of the file back: identical content, with its old mtime ("same") or a new one -
            # delete -> recreate, and a change that is reverted before the reload
            vs = self.hist.get(op["rel"], [])
            if vs:
                v = dict(vs[op["ver"] % len(vs)])
                if op.get("mtime") != "same":
                    self.clock += 1
                    v["mtime"] = self.clock
                self.disk[op["rel"]] = v
                if root:
                    p = os.path.join(root, op["rel"])
                    os.makedirs(os.path.dirname(p), exist_ok=True)
                    with open(p, "w") as f:
                        f.write(file_text(op["rel"], v))
                    os.utime(p, (v["mtime"], v["mtime"]))
        elif k == "mkdir":
            if root:
                os.makedirs(os.path.join(root, op["rel"]), exist_ok=True)   # an empty directory: nothing to load
        elif k == "touch":
            if op["rel"] in self.disk:
                self.clock += 1
                self.disk[op["rel"]]["mtime"] = self.clock
                if root:
                    os.utime(os.path.join(root, op["rel"]), (self.clock, self.clock))
        elif k == "delete":
            if op["rel"] in self.disk:
                del self.disk[op["rel"]]
                if root:
                    os.unlink(os.path.join(root, op["rel"]))
        elif k == "rename":
            src, dst = op["src"], op["dst"]
            moved = {r: v for r, v in self.disk.items() if r == src or r.startswith(src + "/")}
            clash = any(r == dst or r.startswith(dst + "/") for r in self.disk)
            if moved and not clash:
                for r, v in moved.items():
                    del self.disk[r]
                    self.disk[dst + r[len(src):]] = v
                    self.ever.add(dst + r[len(src):])
                if root:
                    os.makedirs(os.path.dirname(os.path.join(root, dst)), exist_ok=True)
                    os.rename(os.path.join(root, src), os.path.join(root, dst))
        elif k == "cfg":
            if op["val"] is None:
                self.cfg.pop(op["app"], None)
            else:
                self.cfg[op["app"]] = op["val"]

    def snapshot(self):
        return {"disk": {r: dict(v) for r, v in self.disk.items()}, "cfg": dict(self.cfg)}


def cfg_value(k):
    if k == CFG_NONE:
        return None
    if k == CFG_INNER_NONE:
        return {"k": None}
    return {} if k == 0 else {"k": k}


def cfg_norm(k):
    """what a context loaded with configuration id k reports as its app_config (None for an empty yaml entry)"""
    return None if k == CFG_NONE else k


def cfg_id(v):
    if v is None:
        return None
    if isinstance(v, dict) and "k" in v and v["k"] is None:
        return CFG_INNER_NONE
    return v.get("k", 0) if isinstance(v, dict) else -1


# --------------------------------------------------------------------------------------------- generators
def gen_tree_ops(rng, sibrel):
    """initial population"""
    ops = []
    files = [f for f in ALL_FILES if rng.random() < (0.8 if f.startswith("modules/") else 0.45)]
    # the module form and the package form of one root rarely coexist
    for forms in (("apps/x.py", "apps/x/__init__.py"), ("apps/y.py", "apps/y/__init__.py"),
                  ("modules/m.py", "modules/m/__init__.py"), ("modules/q.py", "modules/q/__init__.py")):
        if all(f in files for f in forms) and rng.random() < 0.75:
            files.remove(rng.choice(forms))
    for rel in files:
        if rng.random() < 0.08 and not sibrel:
            ops.append({"op": "write", "rel": rel, "imports": [], "empty": rng.choice([0, 0, 1, 2])})
        else:
            ops.append(with_mut(rng, {"op": "write", "rel": rel, "imports": rand_imports(rng, rel, sibrel, set(files))}))
    return ops


def with_mut(rng, op):
    """app scripts: 40 % fill in / change / drop a setting of their pyscript.app_config while they load"""
    if op["rel"].startswith("apps/") and rng.random() < 0.4:
        op["mut"] = rng.randrange(len(MUTATIONS))
    return op


def gen_edit(rng, sim, sibrel):
    present = sorted(sim.disk)
    r = rng.random()
    if r < 0.05 and present and not sibrel:
        return {"op": "write", "rel": rng.choice(present), "imports": [], "empty": rng.choice([0, 0, 1, 2]),
                "keep_mtime": rng.random() < 0.1}
    if r < 0.13 and sim.hist:
        rel = rng.choice(sorted(sim.hist))
        return {"op": "restore", "rel": rel, "ver": rng.randrange(8), "mtime": rng.choice(["same", "same", "new"])}
    if r < 0.15:
        return {"op": "mkdir", "rel": rng.choice(EMPTY_DIRS)}
    if r < 0.30 and present:
        rel = rng.choice(present)
        return with_mut(rng, {"op": "write", "rel": rel, "imports": rand_imports(rng, rel, sibrel, set(present))
                              if rng.random() < 0.5 else sim.disk[rel]["imports"], "keep_mtime": rng.random() < 0.15})
    if r < 0.42 and present:
        return {"op": "touch", "rel": rng.choice(present)}
    if r < 0.56 and present:
        return {"op": "delete", "rel": rng.choice(present)}
    if r < 0.72:
        absent = [f for f in ALL_FILES if f not in sim.disk]
        if absent:
            rel = rng.choice(absent)
            return with_mut(rng, {"op": "write", "rel": rel, "imports": rand_imports(rng, rel, sibrel, set(present))})
    if r < 0.86:
        a, b = rng.choice(RENAMES)
        if rng.random() < 0.5 or not any(x == a or x.startswith(a + "/") for x in sim.disk):
            a, b = b, a
        return {"op": "rename", "src": a, "dst": b}
    app = rng.choice(APP_NAMES)
    if app in sim.cfg and rng.random() < 0.5:
        return {"op": "cfg", "app": app, "val": None}
    return {"op": "cfg", "app": app, "val": rng.choice(CFG_VALUES)}


def gen_case(rng, family, nsteps):
    sibrel = family == "sibrel"
    apps0 = {a: rng.choice(CFG_VALUES) for a in APP_NAMES if rng.random() < 0.6}
    sim = Sim(apps0)
    steps = []
    first = gen_tree_ops(rng, sibrel)
    for op in first:
        sim.apply(op)
    steps.append({"edits": first, "only": None})
    for _ in range(nsteps):
        edits = []
        for _ in range(rng.choice([0, 1, 1, 1, 2, 2, 3])):
            op = gen_edit(rng, sim, sibrel)
            sim.apply(op)
            edits.append(op)
        r = rng.random()
        only = None
        fresh = False
        if r < 0.12:
            only = "*"
        elif r < 0.30:
            # a context that exists, one whose file was deleted (perhaps just now), a module, a package member, a
            # name that never existed
            names = sorted({doc_name(comps(rel)) for rel in sim.ever if not commented(comps(rel))})
            pool = names + ["file.zz", "modules.zz", "apps.w", "file"]
            only = rng.choice(pool) if pool else None
        elif r < 0.36:
            fresh = True      # unload the integration and set it up again in the same process
        elif r < 0.50:
            edits = edits if rng.random() < 0.5 else []   # often: a reload although nothing changed
        st = {"edits": edits, "only": only}
        if fresh:
            st["fresh"] = True
        steps.append(st)
    # the third and later reloads without any change
    for _ in range(rng.choice([0, 0, 1, 2])):
        steps.append({"edits": [], "only": None})
    return {"family": family, "apps0": apps0, "steps": steps, "legacy": rng.random() < 0.5}


def W(rel, *imports):
    return {"op": "write", "rel": rel, "imports": [list(i) for i in imports]}


def E(rel, variant=0):
    """write an empty file (0 bytes / white space / comment only)"""
    return {"op": "write", "rel": rel, "imports": [], "empty": variant}


def fixed_cases():
    """the witnesses of the `_cex` theorems of Props/C10.lean and of the documented corner cases"""
    out = []
    # F1: a module file is deleted; its importer keeps running with the stale module
    out.append({"family": "fixed", "apps0": {}, "steps": [
        {"edits": [W("a.py", (0, "m")), W("modules/m.py")], "only": None},
        {"edits": [{"op": "delete", "rel": "modules/m.py"}], "only": None}]})
    # F1 (package member): a sibling file of a package is deleted, the package is not reloaded
    out.append({"family": "fixed", "apps0": {}, "steps": [
        {"edits": [W("a.py", (0, "p")), W("modules/p/__init__.py", (1, "s")), W("modules/p/s.py")], "only": None},
        {"edits": [{"op": "delete", "rel": "modules/p/s.py"}], "only": None}]})
    # F2: b imports package q; q.sub (imported by c) imports m; m changes -> q is discarded by widening, b kept
    out.append({"family": "fixed", "apps0": {}, "steps": [
        {"edits": [W("b.py", (0, "q")), W("c.py", (0, "q.sub")), W("modules/q/__init__.py"),
                   W("modules/q/sub.py", (0, "m")), W("modules/m.py")], "only": None},
        {"edits": [W("modules/m.py")], "only": None}]})
    # F4: relative import from a non-__init__ member of a package
    out.append({"family": "fixed", "apps0": {}, "steps": [
        {"edits": [W("a.py", (0, "p")), W("modules/p/__init__.py", (1, "s")), W("modules/p/s.py", (1, "t")),
                   W("modules/p/t.py")], "only": None},
        {"edits": [], "only": None}]})
    out.append({"family": "fixed", "apps0": {}, "steps": [
        {"edits": [W("a.py", (0, "p")), W("modules/p/__init__.py", (1, "s")), W("modules/p/s.py", (1, "t")),
                   W("modules/p/t.py")], "only": None}]})
    # F5: the only importer of a module is deleted; the module stays loaded
    out.append({"family": "fixed", "apps0": {}, "steps": [
        {"edits": [W("a.py", (0, "m")), W("modules/m.py")], "only": None},
        {"edits": [{"op": "delete", "rel": "a.py"}], "only": None}]})
    # documented behaviour walk-through: diamond imports, touch, '#'-rename, app config add/change/remove, reload(name), '*'
    out.append({"family": "fixed", "apps0": {"x": 1}, "steps": [
        {"edits": [W("a.py", (0, "n"), (0, "p")), W("b.py", (0, "p")), W("c.py"), W("modules/m.py"),
                   W("modules/n.py", (0, "m")), W("modules/p/__init__.py", (0, "m"), (1, "s")), W("modules/p/s.py"),
                   W("apps/x/__init__.py", (1, "h"), (0, "n")), W("apps/x/h.py"), W("apps/y.py"),
                   W("scripts/d/s2.py", (0, "m")), W("scripts/#s1.py")], "only": None},
        {"edits": [W("modules/m.py")], "only": None},
        {"edits": [{"op": "touch", "rel": "modules/p/s.py"}], "only": None},
        {"edits": [{"op": "rename", "src": "scripts/d", "dst": "scripts/#d"}], "only": None},
        {"edits": [{"op": "cfg", "app": "y", "val": 0}], "only": None},
        {"edits": [{"op": "cfg", "app": "x", "val": 2}], "only": None},
        {"edits": [{"op": "cfg", "app": "x", "val": None}], "only": None},
        {"edits": [], "only": "modules.n"},
        {"edits": [W("c.py")], "only": "file.a"},
        {"edits": [], "only": "file.zz"},
        {"edits": [], "only": "*"},
        {"edits": [], "only": None}]})
    # files without content: an empty script, an empty module, an empty package marker are contexts like any other;
    # the module later gets content (its importer must be re-executed) and goes empty again
    out.append({"family": "fixed", "apps0": {}, "steps": [
        {"edits": [E("c.py"), W("a.py", (0, "m"), (0, "p")), E("modules/m.py"), E("modules/p/__init__.py"),
                   W("b.py", (0, "n")), E("modules/n.py", 2), E("scripts/s1.py", 1)], "only": None},
        {"edits": [W("modules/m.py")], "only": None},
        {"edits": [E("modules/m.py")], "only": None},
        {"edits": [W("modules/p/__init__.py", (1, "s")), W("modules/p/s.py"), W("c.py")], "only": None},
        {"edits": [E("a.py")], "only": None},
        {"edits": [], "only": "file.c"},
        {"edits": [], "only": None}]})
    # an app whose yaml entry is empty (None) is configured: loaded, reloaded when the entry changes to {} or to real
    # settings and back, unloaded when the entry is removed
    out.append({"family": "fixed", "apps0": {"x": CFG_NONE, "y": CFG_NONE}, "steps": [
        {"edits": [W("apps/x/__init__.py", (1, "h")), W("apps/x/h.py"), W("apps/y.py"), W("a.py")], "only": None},
        {"edits": [], "only": None},
        {"edits": [{"op": "cfg", "app": "x", "val": 0}], "only": None},
        {"edits": [{"op": "cfg", "app": "y", "val": 2}], "only": None},
        {"edits": [{"op": "cfg", "app": "x", "val": CFG_NONE}, {"op": "cfg", "app": "y", "val": None}], "only": None},
        {"edits": [{"op": "cfg", "app": "y", "val": CFG_NONE}], "only": None},
        {"edits": [{"op": "cfg", "app": "x", "val": None}], "only": None}]})
    # boundary values (1) empty things, (2) names, (3) sequences - one walk-through each
    out.append({"family": "fixed", "apps0": {"w": 1, "z": CFG_INNER_NONE}, "legacy": True, "steps": [
        {"edits": [{"op": "mkdir", "rel": "scripts/void"}, {"op": "mkdir", "rel": "modules/voidpkg"},
                   {"op": "mkdir", "rel": "apps/w"}, {"op": "mkdir", "rel": "apps/voidapp"},
                   W("apps/z/__init__.py"), W("apps/x2.py"), W("modules/m/__init__.py"), W("a.py", (0, "m"), (0, "voidpkg")),
                   W("b.py", (0, "m")), E("c.py", 2)], "only": None},
        {"edits": [], "only": None},
        {"edits": [{"op": "cfg", "app": "voidapp", "val": 1}, {"op": "cfg", "app": "x2", "val": CFG_NONE}], "only": None},
        {"edits": [{"op": "cfg", "app": "z", "val": 0}], "only": None},
        {"edits": [{"op": "cfg", "app": "z", "val": None}, {"op": "cfg", "app": "w", "val": None},
                   {"op": "cfg", "app": "x2", "val": None}, {"op": "cfg", "app": "voidapp", "val": None}], "only": None},
        {"edits": [], "only": None}]})
    out.append({"family": "fixed", "apps0": {"x": 1, "x2": 2}, "legacy": False, "steps": [
        {"edits": [W("a.py", (0, "m")), W("a_b.py", (0, "m2")), W("ab.py", (0, "m.n")), W("a.b.py"), W("a1.py"),
                   W("m.py", (0, "m")), W("modules/m/__init__.py", (1, "n")), W("modules/m/n.py"), W("modules/m2.py", (0, "m")),
                   W("apps/x.py"), W("apps/x2.py"), W("scripts/s1.py"), W("scripts/d/s1.py"), W("scripts/d/e/s1.py"),
                   W("scripts/d/s.1.py")], "only": None},
        {"edits": [W("modules/m2.py", (0, "m"))], "only": None},
        {"edits": [W("modules/m/n.py")], "only": None},
        {"edits": [{"op": "touch", "rel": "a.py"}], "only": None},
        {"edits": [{"op": "cfg", "app": "x", "val": 3}], "only": None},
        {"edits": [], "only": "file.a"}, {"edits": [], "only": "file.a.b"}, {"edits": [], "only": "scripts.d.s1"},
        {"edits": [], "only": "modules.m"}, {"edits": [], "only": "modules.m.n"}, {"edits": [], "only": "apps.x"},
        {"edits": [{"op": "delete", "rel": "scripts/d/s1.py"}], "only": "scripts.d.s1"},
        {"edits": [], "only": "scripts.d.s1"}, {"edits": [], "only": "file"}, {"edits": [], "only": None}]})
    out.append({"family": "fixed", "apps0": {}, "legacy": True, "steps": [
        {"edits": [W("a.py", (0, "m")), W("b.py"), W("modules/m.py")], "only": None},
        {"edits": [], "only": None}, {"edits": [], "only": None}, {"edits": [], "only": None},
        # delete -> recreate with identical content: same mtime (nothing changed), different mtime (changed)
        {"edits": [{"op": "delete", "rel": "b.py"}, {"op": "restore", "rel": "b.py", "ver": 0, "mtime": "same"}], "only": None},
        {"edits": [{"op": "delete", "rel": "b.py"}, {"op": "restore", "rel": "b.py", "ver": 0, "mtime": "new"}], "only": None},
        # a change that is reverted before the reload
        {"edits": [W("modules/m.py"), {"op": "restore", "rel": "modules/m.py", "ver": 0, "mtime": "same"}], "only": None},
        {"edits": [{"op": "delete", "rel": "modules/m.py"}, {"op": "restore", "rel": "modules/m.py", "ver": 0, "mtime": "same"}],
         "only": None},
        # unload followed by a fresh set-up in the same process, then business as usual
        {"edits": [], "only": None, "fresh": True},
        {"edits": [W("b.py")], "only": None},
        {"edits": [W("a.py", (0, "m"))], "only": None, "fresh": True},
        {"edits": [], "only": None}]})
    # app scripts that mutate the dict they get as pyscript.app_config (setdefault / item assignment / pop / nested):
    # reloads without change and reloads after an unrelated change must leave them alone; a real change of the yaml
    # entry still reloads them
    out.append({"family": "fixed", "apps0": {"x": 1, "y": 2, "x2": 3, "z": CFG_INNER_NONE}, "steps": [
        {"edits": [dict(W("apps/x/__init__.py", (1, "h")), mut=0), dict(W("apps/x/h.py"), mut=1), dict(W("apps/y.py"), mut=2),
                   dict(W("apps/x2.py"), mut=3), dict(W("apps/z/__init__.py"), mut=1), W("a.py")], "only": None},
        {"edits": [], "only": None}, {"edits": [], "only": None},
        {"edits": [W("a.py")], "only": None},
        {"edits": [{"op": "touch", "rel": "apps/x/h.py"}], "only": None},
        {"edits": [], "only": None},
        {"edits": [{"op": "cfg", "app": "y", "val": 3}], "only": None},
        {"edits": [], "only": None}]})
    # package form replaces module form (and back)
    out.append({"family": "fixed", "apps0": {"y": 1}, "steps": [
        {"edits": [W("a.py", (0, "m")), W("modules/m.py"), W("apps/y.py")], "only": None},
        {"edits": [W("modules/m/__init__.py"), W("apps/y/__init__.py", (1, "h")), W("apps/y/h.py")], "only": None},
        {"edits": [{"op": "delete", "rel": "modules/m/__init__.py"}, {"op": "delete", "rel": "apps/y/__init__.py"}],
         "only": None}]})
    return out


def cyclic_cases():
    return [{"family": "cyclic", "apps0": {}, "steps": [
        {"edits": [W("a.py", (0, "m")), W("b.py"), W("modules/m.py", (0, "n")), W("modules/n.py", (0, "m"))],
         "only": None}]}]


# ---- lazy imports: an `import` statement inside a service body, executed BETWEEN two reloads (no Lean column: the plan
# model gets the import graph of every reload from `prog`, a function of the source text; these cases are judged by the
# documented-behaviour oracle alone, which keeps its own account of the edges the executed statements added)
def WL(rel, lazy, *imports):
    return dict(W(rel, *imports), lazy=list(lazy))


def WV(rel, *imports):
    return dict(W(rel, *imports), val=True)


def CALL(*calls):
    """a step without reload: call the lazy-import services (context name, module)"""
    return {"edits": [], "only": None, "call": [[o, lazy_svc(o, m), m] for o, m in calls]}


def R(*edits):
    return {"edits": list(edits), "only": None}


def lazy_fixed_cases():
    out = []
    # the three steps of seeded change C10_7: a reload after a change of ANOTHER loaded module while a stays loaded;
    # a's service imports n for the first time; n changes -> a must be re-executed and use the new n
    out.append({"family": "lazy", "apps0": {}, "legacy": False, "steps": [
        R(WL("a.py", ["n"]), W("b.py", (0, "m2")), WV("modules/n.py"), WV("modules/m2.py")),
        R(WV("modules/m2.py")), CALL(("file.a", "n")), R(WV("modules/n.py")), CALL(("file.a", "n"))]})
    # transitively: the lazily imported n imports m (while loading); m changes
    out.append({"family": "lazy", "apps0": {}, "legacy": True, "steps": [
        R(WL("scripts/s1.py", ["n"]), W("b.py", (0, "m2")), WV("modules/n.py", (0, "m")), WV("modules/m.py"),
          WV("modules/m2.py")),
        R(WV("modules/m2.py")), R(), CALL(("scripts.s1", "n")), R(WV("modules/m.py")), CALL(("scripts.s1", "n"))]})
    # the service runs before the first reload that changes anything, then two reloads
    out.append({"family": "lazy", "apps0": {}, "legacy": False, "steps": [
        R(WL("a.py", ["n"]), W("b.py", (0, "m2")), WV("modules/n.py"), WV("modules/m2.py")),
        CALL(("file.a", "n")), R(WV("modules/m2.py")), R(WV("modules/n.py")), CALL(("file.a", "n")), R(),
        R(WV("modules/n.py")), CALL(("file.a", "n"))]})
    # nothing the lazy importer depends on changes: it is never re-executed, its module stays loaded
    out.append({"family": "lazy", "apps0": {}, "legacy": True, "steps": [
        R(WL("a.py", ["n"]), W("b.py", (0, "m2")), WV("modules/n.py"), WV("modules/m2.py")),
        R(WV("modules/m2.py")), CALL(("file.a", "n")), R(WV("modules/m2.py")), CALL(("file.a", "n")), R(),
        CALL(("file.a", "n"))]})
    # an app and a script import the same module lazily; a third script imports it while loading; two lazy imports in
    # one script, of which only one has been executed when its module changes
    out.append({"family": "lazy", "apps0": {"x2": 1}, "legacy": False, "steps": [
        R(WL("apps/x2.py", ["n"]), WL("scripts/d/s2.py", ["n", "m2"], (0, "m")), W("c.py", (0, "p")), WV("modules/n.py"),
          WV("modules/m2.py"), WV("modules/m.py"), WV("modules/p/__init__.py")),
        R(WV("modules/p/__init__.py")), CALL(("apps.x2", "n")), R(WV("modules/m2.py")),
        CALL(("scripts.d.s2", "m2"), ("scripts.d.s2", "n")), R(WV("modules/p/__init__.py")), R(WV("modules/n.py")),
        CALL(("apps.x2", "n"), ("scripts.d.s2", "n"), ("scripts.d.s2", "m2")), R(WV("modules/m2.py")),
        CALL(("scripts.d.s2", "m2"))]})
    return out


LAZY_OWNERS = ["a.py", "b.py", "scripts/s1.py", "scripts/d/s2.py", "apps/x2.py"]
LAZY_MODS = {"m": ("modules/m.py", []), "n": ("modules/n.py", [[0, "m"]]), "m2": ("modules/m2.py", []),
             "p": ("modules/p/__init__.py", []), "q": ("modules/q.py", [[0, "m2"]])}


def gen_lazy_case(rng):
    """two scripts with lazy imports, one script with a load-time import; random order of service calls and
    (module change + default reload) steps, at least three reloads"""
    owners = rng.sample(LAZY_OWNERS, 2)
    first = [dict(W(rel, *imps), val=True) for rel, imps in LAZY_MODS.values()]
    targets = {}
    for rel in owners:
        targets[rel] = rng.sample(sorted(LAZY_MODS), rng.choice([1, 1, 2]))
        top = [[0, rng.choice(sorted(LAZY_MODS))]] if rng.random() < 0.4 else []
        first.append(dict(W(rel, *top), lazy=targets[rel]))
    first.append(W("c.py", (0, rng.choice(sorted(LAZY_MODS)))))
    steps = [R(*first)]
    calls = [(doc_name(comps(rel)), m) for rel in owners for m in targets[rel]]

    def edit(mod):
        rel, imps = LAZY_MODS[mod]
        return R(dict(W(rel, *imps), val=True))
    nrel = 0
    for _ in range(rng.choice([5, 6, 7, 8])):
        r = rng.random()
        if r < 0.4:
            steps.append(CALL(*rng.sample(calls, rng.randint(1, len(calls)))))
        elif r < 0.85:
            steps.append(edit(rng.choice(sorted(LAZY_MODS))))
            nrel += 1
        elif r < 0.93:
            steps.append(R())
            nrel += 1
        else:
            steps.append(R({"op": "touch", "rel": "c.py"}))
            nrel += 1
    # always end with: everything imported lazily by now, one of those modules changes, everything is used again
    steps += [CALL(*calls), edit(rng.choice([m for _, m in calls])), CALL(*calls)]
    return {"family": "lazy", "apps0": {"x2": rng.choice([0, 1, CFG_NONE])}, "steps": steps, "legacy": rng.random() < 0.5}


def gen_cases(rng, tier, search):
    n_main, n_sib = (170, 40) if tier == "quick" else (2200, 500)
    if search:
        n_main, n_sib = n_main * 3, n_sib * 2
    cases = []
    if not search:
        for p in fixed_cases() + cyclic_cases():
            cases.append(mk_case(p))
    for i in range(n_main):
        cases.append(mk_case(gen_case(rng, "main", rng.choice([3, 4, 5, 6]))))
    for i in range(n_sib):
        cases.append(mk_case(gen_case(rng, "sibrel", rng.choice([2, 3, 4]))))
    if not search:
        for p in lazy_fixed_cases():
            cases.append(mk_case(p))
    lrng = __import__("random").Random(rng.random())     # own stream: the other families keep their cases
    for i in range((6 if tier == "quick" else 120) * (2 if search else 1)):
        cases.append(mk_case(gen_lazy_case(lrng)))
    return cases


def mk_case(payload):
    c = Case(payload, None, tags=(payload["family"],))
    if payload["family"] not in ("cyclic", "lazy"):
        c.line = model_line(payload)
    return c


# --------------------------------------------------------------------------------------------- model line
def only_sx(only, sim=None):
    if only is None:
        return "default"
    if only == "*":
        return "all"
    # a file name may contain dots (a.b.py): find the components of the context name among the files ever seen
    if sim is not None:
        for rel in sorted(sim.ever):
            cs = comps(rel)
            if not commented(cs) and doc_name(cs) == only:
                return ["ctx"] + doc_comps(cs)
    return ["ctx"] + only.split(".")


def walk(payload):
    """yield (step, snapshot before reload, sim) for every step"""
    sim = Sim(payload["apps0"])
    for st in payload["steps"]:
        for op in st["edits"]:
            sim.apply(op)
        yield st, sim.snapshot(), sim


def model_line(payload):
    steps = []
    sim = None
    for st, snap, sim in walk(payload):
        disk = [[comps(rel), v["gen"], v["mtime"]] for rel, v in sorted(snap["disk"].items())]
        apps = [[a, cfg_norm(k)] for a, k in sorted(snap["cfg"].items())]
        steps.append([only_sx(st["only"], sim), apps, disk, 1 if st.get("fresh") else 0])
    prog = [[g, [[lv] + m.split(".") for lv, m in imps]] for g, imps in sorted(sim.prog.items())] if sim else []
    return "C10 " + sx(["run", prog, steps])


# --------------------------------------------------------------------------------------------- running the implementation
def _run_one(payload):
    from ha_env import run_ha
    from custom_components.pyscript.global_ctx import GlobalContextMgr
    obs = []

    async def body(env):
        root = os.path.join(env.cfgdir, "pyscript")
        sim = Sim(payload["apps0"])
        oids = {}       # id(ctx object) -> oid
        keep = []       # keep every context object alive so that ids are never reused
        nev = 0
        # every execution of a script file: GlobalContextMgr.load_file parses the source into a fresh AstEval and
        # evaluates it; the hook records (context name, source id) when that evaluation starts
        from custom_components.pyscript import eval as ps_eval
        loads = []
        orig_eval = ps_eval.AstEval.eval

        async def hooked_eval(self, *args, **kwargs):
            gctx = getattr(self, "global_ctx", None)
            if not args and not kwargs and gctx is not None and gctx.get_file_path() and \
                    getattr(self, "filename", None) == gctx.get_file_path():
                loads.append((gctx.get_name(), gen_of_text(gctx.get_source())))
            return await orig_eval(self, *args, **kwargs)
        ps_eval.AstEval.eval = hooked_eval
        try:
            return await steps_body(env, root, sim, oids, keep, nev, loads)
        finally:
            ps_eval.AstEval.eval = orig_eval

    async def steps_body(env, root, sim, oids, keep, nev, loads):
        stepno = 0
        for st in payload["steps"]:
            for op in st["edits"]:
                sim.apply(op, root)
            apps_now = {a: cfg_value(k) for a, k in sim.cfg.items()}
            if not apps_now and stepno % 2 == 1:
                env.config["pyscript"].pop("apps", None)      # no `apps:` key at all
            else:
                env.config["pyscript"]["apps"] = apps_now
            stepno += 1
            env.records.clear()
            env.log.clear()
            del loads[:]
            uses = []
            try:
                if st.get("call"):
                    # no reload: services whose body executes an `import` statement
                    for owner, svc, mod in st["call"]:
                        try:
                            await env.call("pyscript", svc)
                        except Exception as e:  # e.g. ServiceNotFound when the owner is not loaded
                            uses.append(["raise", svc, mod, type(e).__name__])
                        await env.settle(0)
                    uses += [[r[2], r[3], r[4], r[5]] for r in env.records if r[1] == "use"]
                elif st.get("fresh"):
                    # unload followed by a fresh set-up of the config entry in the same process
                    for entry in env.hass.config_entries.async_entries("pyscript"):
                        await env.hass.config_entries.async_unload(entry.entry_id)
                        await env.settle(0)
                        await env.hass.config_entries.async_setup(entry.entry_id)
                    await env.settle(0)
                else:
                    await env.reload(st["only"])
                err = None
            except Exception as e:  # an exception escaping the reload service is an outcome
                err = type(e).__name__
            events = list(loads)
            last = {}
            for i, (n, g) in enumerate(events):
                last[n] = nev + i
            ctxs = []
            for name, ctx in sorted(GlobalContextMgr.contexts.items()):
                if id(ctx) not in oids:
                    oids[id(ctx)] = last.get(name, -1)
                    keep.append(ctx)
                ctxs.append({"name": name, "gen": gen_of_text(ctx.get_source() if ctx.get_source() is not None else None),
                             "oid": oids[id(ctx)],
                             "mod": 1 if ctx.module is not None else 0, "imports": sorted(ctx.get_imports()),
                             "mtime": int(ctx.get_mtime() or 0), "appcfg": cfg_id(ctx.get_app_config()),
                             "path": os.path.relpath(ctx.get_file_path(), root) if ctx.get_file_path() else None})
            nev += len(events)
            nerr = len([1 for l in env.log if l[1] == "ERROR"])
            obs.append({"events": events, "ctxs": ctxs, "err": err, "nerr": nerr, "uses": uses,
                        "recursion": any("RecursionError" in l[2] or "maximum recursion" in l[2] for l in env.log)})
        return obs

    try:
        return run_ha({}, bool(payload.get("legacy", False)), body,
                      extra_cfg={"apps": {a: cfg_value(k) for a, k in payload["apps0"].items()}})
    except Exception as e:  # pragma: no cover - harness trouble shows up as a mismatch, never silently
        return [{"events": [], "ctxs": [], "err": "harness:" + type(e).__name__ + ":" + str(e)[:200], "nerr": 0,
                 "recursion": False}]


def _warm_imports():
    """import Home Assistant + pyscript once in the parent so that forked workers do not each pay for it"""
    import ha_env  # noqa: F401
    import homeassistant.setup  # noqa: F401
    import homeassistant.loader  # noqa: F401
    import pytest_homeassistant_custom_component.common  # noqa: F401
    import custom_components.pyscript  # noqa: F401
    import custom_components.pyscript.config_flow  # noqa: F401
    global _WARM
    if not _WARM:
        _WARM = True
        # one throw-away instance: everything Home Assistant imports lazily during set-up is then inherited by the
        # forked workers (all its threads are gone again when run_ha returns)
        _run_one({"family": "warm", "apps0": {}, "steps": [{"edits": [W("a.py")], "only": None}]})
        # run_ha ends with gc.collect(): without freezing, the first collection in every forked worker walks (and
        # thereby copies, page by page) the whole inherited heap
        import gc
        gc.collect()
        gc.freeze()


_WARM = False


def run_impl(cases):
    import logging
    todo = [c for c in cases if c.impl is None]
    _warm_imports()
    results = common.pmap(_run_one, [c.payload for c in todo])
    logging.disable(logging.CRITICAL)
    for c, obs in zip(todo, results):
        c.payload["_obs"] = obs
        blocks = []
        prev = []
        for (st, snap, _sim), o in zip(walk(c.payload), obs):
            if o.get("err"):
                blocks.append("raise:" + o["err"])
                continue
            if st.get("fresh"):
                prev = []     # everything was unloaded before the set-up loaded the tree again
            ev = " ".join(f"{n}:{g}" for n, g in o["events"])
            if st.get("call"):
                us = " ".join(":".join(str(x) for x in u) for u in o.get("uses", []))
                blocks.append(f"call ev=({ev}) uses=({us})")
                prev = o["ctxs"]
                continue
            cx = " ".join(f"{x['name']}:{x['gen']}:{x['oid']}:{x['mod']}:{','.join(x['imports'])}" for x in o["ctxs"])
            if st["only"] is None:
                d = "(" + " ".join(sorted(oracle_disc(prev, doc_entries(snap, code_view=True)))) + ")"
            else:
                d = "-"
            blocks.append(f"ev=({ev}) ctx=({cx}) disc={d}")
            prev = o["ctxs"]
        c.impl = " | ".join(blocks)
        c.nontrivial = any(o["events"] for o in obs[1:]) or len(obs) == 1


# --------------------------------------------------------------------------------------------- documented behaviour (oracle)
def commented(cs):
    return any(x.startswith("#") for x in cs)


def doc_comps(cs):
    """components of the documented context name"""
    if len(cs) == 1:
        return ["file", cs[0]]
    return cs[:-1] if cs[-1] == "__init__" else list(cs)


def doc_name(cs):
    if len(cs) == 1:
        return "file." + cs[0]
    if cs[-1] == "__init__":
        cs = cs[:-1]
    return ".".join(cs)


def doc_entries(snap, code_view=False):
    """name -> entry for every file pyscript is documented to know about (reference.rst: file list, '#', apps gating,
    'module form is ignored if the package form is present').
    code_view=True is the table as `Spec.Disc` of the Lean side sees it (the output of glob_read_files): the
    `__init__.py` of an app that is NOT configured still appears there, as a not auto-loaded file without configuration
    (it matches the `apps/*/**/*.py` row).  Only used for the `disc=` column of the tie, never for the verdict."""
    cfg = snap["cfg"]
    best = {}
    for rel, v in sorted(snap["disk"].items()):
        cs = comps(rel)
        if commented(cs):
            continue
        auto, appcfg, prio = False, None, 0
        if len(cs) == 1:
            auto = True
        elif cs[0] == "scripts":
            auto = True
        elif cs[0] == "apps":
            if len(cs) == 2:
                if cs[1] not in cfg:
                    continue
                auto, appcfg, prio = True, cfg_norm(cfg[cs[1]]), 1
            elif len(cs) == 3 and cs[2] == "__init__":
                if cs[1] not in cfg:
                    if not code_view:
                        continue
                else:
                    auto, appcfg = True, cfg_norm(cfg[cs[1]])
        elif cs[0] == "modules":
            if len(cs) == 2:
                prio = 1
        else:
            continue
        name = doc_name(cs)
        e = {"name": name, "rel": rel, "gen": v["gen"], "mtime": v["mtime"], "appcfg": appcfg, "auto": auto,
             "imports": v["imports"], "prio": prio, "pkg": cs[-1] == "__init__" and len(cs) >= 2}
        if name not in best or prio < best[name]["prio"]:
            best[name] = e
    return best


def root2(name):
    return ".".join(name.split(".")[:2])


def in_pkg(name):
    p = name.split(".")
    return len(p) >= 2 and p[0] in ("apps", "modules")


def oracle_disc(prev, ents, gone_propagates=True, single_pass=False, touched=(), gone_extra=()):
    """contexts a default reload must discard (reference.rst "Reloading Scripts"), least fixpoint.
    prev: observed loaded contexts; ents: documented entries.  The two flags give the weaker variants used only to
    *name* a deviation: gone_propagates=False – a vanished file discards only its own context;
    single_pass=True – changed -> importers of changed modules -> package widening, once.
    touched: names of not-loaded files that count as changed (reload(name) of a file that is not loaded)."""
    loaded = {c["name"]: c for c in prev}

    def changed(c):
        e = ents.get(c["name"])
        if e is None:
            return True
        return e["gen"] != c["gen"] or e["mtime"] != c["mtime"] or e["appcfg"] != c["appcfg"]

    gone = {n for n, c in loaded.items() if n not in ents} | set(gone_extra)
    D = {n for n, c in loaded.items() if changed(c)}
    newauto = [e["name"] for n, e in ents.items() if n not in loaded and e["auto"]]

    def src(Dset):
        return Dset if gone_propagates else Dset - gone

    troots = {root2(t) for t in touched if in_pkg(t)}
    if single_pass:
        roots = {root2(d) for d in src(D) if d.startswith("modules.")} | {r for r in troots if r.startswith("modules.")}
        # transitive importers
        reach = {}

        def closure(n, seen):
            if n in reach:
                return reach[n]
            out = set()
            if n in seen or n not in loaded:
                return out
            for i in loaded[n]["imports"]:
                out.add(i)
                out |= closure(i, seen | {n})
            reach[n] = out
            return out
        for n in loaded:
            if any(root2(m) in roots for m in closure(n, set())):
                D.add(n)
        wid = {root2(d) for d in src(D) if in_pkg(d)} | {root2(n) for n in newauto if in_pkg(n)} | troots
        for n in loaded:
            if in_pkg(n) and root2(n) in wid:
                D.add(n)
        return D
    while True:
        S = src(D)
        roots = {root2(d) for d in S} | troots
        add = set()
        for n, c in loaded.items():
            if n in D:
                continue
            if in_pkg(n) and (root2(n) in roots or any(root2(x) == root2(n) for x in newauto)):
                add.add(n)
            elif any(root2(i) in roots for i in c["imports"]):
                add.add(n)
        if not add:
            return D
        D |= add


def resolve(name, ent, level, mod):
    """documented target context of an import statement (Python package semantics for relative imports)"""
    if level == 0:
        return "modules." + mod
    pkg = name.split(".") if ent["pkg"] else name.split(".")[:-1]
    for _ in range(level - 1):
        pkg = pkg[:-1]
    if len(pkg) < 2:
        return None
    return ".".join(pkg) + "." + mod


def ref_load(ents):
    """(required, optional, cyclic): contexts that must be loaded after a reload; contexts that may be (scripts that
    raise while loading, and what they imported before raising); names involved in an import cycle"""
    ok, partial, cyc = {}, set(), set()

    def load(name, stack):
        if name in ok:
            return ok[name]
        if name in stack:
            cyc.update(stack[stack.index(name):])
            return True
        e = ents.get(name)
        if e is None:
            return False
        partial.add(name)
        for level, mod in e["imports"]:
            t = resolve(name, e, level, mod)
            if t is None or not load(t, stack + [name]):
                ok[name] = False
                return False
        ok[name] = True
        return True
    required, optional = set(), set()
    for n, e in sorted(ents.items()):
        if e["auto"]:
            before = set(partial)
            if load(n, []):
                required |= {x for x in partial - before if ok.get(x)} | {n}
            optional |= partial - before
    # modules imported by successfully loaded contexts
    todo = list(required)
    while todo:
        n = todo.pop()
        e = ents[n]
        for level, mod in e["imports"]:
            t = resolve(n, e, level, mod)
            if t and t in ents and t not in required and ok.get(t):
                required.add(t)
                todo.append(t)
    return required, optional - required, cyc


UNKNOWN_FIRST = ["harness", "raise", "wrong-source", "discarded-untouched", "stale-importer:other", "missing",
                 "unexpected-context", "double-load", "not-reexecuted", "only-widening",
                 "app-kept:empty-entry-removed",
                 "misnamed:sibling-relative-import", "not-loaded:cyclic-import", "stale-importer:widened-package",
                 "stale-importer:deleted-file", "orphan-module"]


def deviations(payload):
    """all deviations of the observed run from the documented behaviour, as (kind, text)"""
    obs = payload.get("_obs") or []
    devs = []
    prev = []
    lazy_live = {}     # context -> modules it imported by statements executed AFTER it was loaded (the oracle's own
    #                    account of "the import graph as of now"; forgotten when the context is executed again)
    for idx, ((st, snap, _sim), o) in enumerate(zip(walk(payload), obs)):
        if o.get("err"):
            devs.append(("harness" if o["err"].startswith("harness") else "raise", f"step {idx}: {o['err']}"))
            break
        ents = doc_entries(snap)
        if st.get("fresh"):
            prev = []         # everything was unloaded before the set-up loaded the tree again
            lazy_live.clear()
        post = {c["name"]: c for c in o["ctxs"]}
        prevd = {c["name"]: c for c in prev}
        kept = {n for n, c in prevd.items() if n in post and post[n]["oid"] == c["oid"]}
        if st.get("call"):
            # ---- services run between two reloads: nothing is discarded; an import statement executed now loads the
            # module (and what it imports) if it is not loaded yet; the caller runs the source it was loaded from and
            # sees the module that is loaded now
            for n in sorted(set(prevd) - kept):
                devs.append(("discarded-untouched", f"step {idx}: {n} discarded by a service call"))
            allowed = set()
            for owner, svc, mod in st["call"]:
                t = "modules." + mod
                allowed |= _import_closure(ents, t)
                if owner not in prevd:
                    continue
                lazy_live.setdefault(owner, set()).add(t)
                got = [u for u in o.get("uses", []) if u[0] == owner and u[2] == mod]
                if not got:
                    devs.append(("missing", f"step {idx}: service {svc} of {owner} did not run"))
                    continue
                u = got[-1]
                if u[1] != prevd[owner]["gen"]:
                    devs.append(("wrong-source", f"step {idx}: {svc} ran generation {u[1]}, {owner} was loaded from "
                                 f"{prevd[owner]['gen']}"))
                if t not in post or u[3] != post[t]["gen"] or (t in ents and u[3] != ents[t]["gen"]):
                    devs.append(("wrong-source", f"step {idx}: {owner} uses generation {u[3]} of {t}; loaded: "
                                 f"{post[t]['gen'] if t in post else None}, file: {ents[t]['gen'] if t in ents else None}"))
            for n in sorted(set(post) - set(prevd) - allowed):
                devs.append(("unexpected-context", f"step {idx}: {n} appeared during a service call"))
            prev = o["ctxs"]
            continue
        # the import graph as of now: what the loader recorded plus the edges the oracle saw being added later
        prev = [dict(c, imports=sorted(set(c["imports"]) | lazy_live.get(c["name"], set()))) for c in prev]
        stale = {}     # kept context -> kind of the deviation that kept it
        evnames = [n for n, _ in o["events"]]
        only = st["only"]
        required, optional, cyc = ref_load(ents)
        for n in sorted(lazy_live):
            if n in kept:
                for t in lazy_live[n]:      # a kept context keeps the modules it imported at run time
                    required |= {x for x in _import_closure(ents, t) if x in ents}
            else:
                del lazy_live[n]            # executed again (or gone): its run-time imports are forgotten
        sibrel_targets, sibrel_users = set(), set()
        for n, e in ents.items():
            if not e["pkg"] and in_pkg(n) and len(n.split(".")) >= 3:
                for level, mod in e["imports"]:
                    if level > 0:
                        sibrel_users.add(n)
                        sibrel_targets.add(resolve(n, e, level, mod))
                        sibrel_targets.add(n + "." + mod)
        # ---- what had to be discarded
        if only is None:
            D = oracle_disc(prev, ents)
            Da = oracle_disc(prev, ents, gone_propagates=False)
            Db = oracle_disc(prev, ents, gone_propagates=False, single_pass=True)
            for n in sorted(prevd):
                if n in D and n in kept:
                    if n not in Da:
                        stale[n] = "stale-importer:deleted-file"
                        devs.append(("stale-importer:deleted-file",
                                     f"step {idx}: {n} kept although a file it depends on was deleted/commented"))
                    elif n not in Db:
                        stale[n] = "stale-importer:widened-package"
                        devs.append(("stale-importer:widened-package",
                                     f"step {idx}: {n} kept although it imports a package that was discarded"))
                    elif _empty_entry_removed(n, prevd, snap):
                        stale[n] = "app-kept:empty-entry-removed"
                        devs.append(("app-kept:empty-entry-removed",
                                     f"step {idx}: {n} kept although its app is no longer configured (its entry was empty)"))
                    else:
                        stale[n] = "stale-importer:other"
                        devs.append(("stale-importer:other", f"step {idx}: {n} kept but must be discarded"))
                if n not in D and n not in kept:
                    devs.append(("discarded-untouched", f"step {idx}: {n} discarded although nothing it depends on changed"))
        elif only == "*":
            for n in sorted(kept):
                devs.append(("stale-importer:other", f"step {idx}: {n} kept by reload('*')"))
        else:
            known = only in prevd or only in ents
            if not known:
                if set(prevd) != kept or o["events"]:
                    devs.append(("only-widening", f"step {idx}: reload({only}) of an unknown context changed something"))
            else:
                # "that is the one file considered to be changed, and other changes are ignored": the documented
                # discard rule applied to a view of the files in which only `only` differs from what is loaded
                base = [dict(c) for c in prev]
                same = {c["name"]: {"name": c["name"], "gen": c["gen"], "mtime": c["mtime"], "appcfg": c["appcfg"],
                                    "auto": ents.get(c["name"], {}).get("auto", False)} for c in base}
                touched = ()
                if only in same and only in ents:
                    same[only] = dict(same[only], gen=-2)
                elif only in same:
                    del same[only]                      # its file is gone
                else:
                    touched = (only,)                   # a file that is not loaded yet counts as changed
                vanished = {n for n in prevd if n not in ents}
                Donly = oracle_disc(base, same, touched=touched)
                Donly_a = oracle_disc(base, same, gone_propagates=False, touched=touched, gone_extra=vanished)
                Donly_b = oracle_disc(base, same, gone_propagates=False, single_pass=True, touched=touched,
                                      gone_extra=vanished)
                for n in sorted(prevd):
                    if n not in ents and n != only:
                        continue   # its file vanished: "other changes are ignored" - either outcome is documented
                    if n not in Donly and n not in kept:
                        devs.append(("only-widening", f"step {idx}: reload({only}) discarded unrelated {n}"))
                    if n in Donly and n in kept:
                        kind = ("stale-importer:deleted-file" if n not in Donly_a else
                                "stale-importer:widened-package" if n not in Donly_b else "stale-importer:other")
                        devs.append((kind, f"step {idx}: reload({only}) kept {n}"))
        # ---- whatever was (re)executed runs the current source of its file
        for n, c in sorted(post.items()):
            if n not in kept and n in ents and c["gen"] != ents[n]["gen"] and only not in (None, "*"):
                devs.append(("wrong-source", f"step {idx}: {n} re-executed generation {c['gen']}, file has {ents[n]['gen']}"))
        # ---- what must be loaded now (default and '*': the whole tree is brought up to date)
        if only is None or only == "*":
            for n in sorted(required - set(post)):
                if _import_closure(ents, n) & cyc:
                    devs.append(("not-loaded:cyclic-import", f"step {idx}: {n} not loaded (import cycle)"))
                elif n not in prevd and not ents[n]["auto"] and not any(i in stale for i in _importers_closure(ents, n)) \
                        and not any(i in post and i not in kept for i in _direct_importers(ents, n)):
                    pass   # same rule as below, asked BEFORE the sibling-relative heuristic: a module file that was
                    #        re-created while its only importers are kept contexts whose import was already dangling
                    #        (they survived the deletion: C10-F1, reported at that step) is "imported again" by nobody
                elif n in sibrel_targets or _import_closure(ents, n) & sibrel_users or \
                        any(_import_closure(ents, i) & sibrel_users for i in _importers_closure(ents, n)) or \
                        any(p.startswith(n.rsplit(".", 1)[0] + ".") and p not in ents for p in post):
                    devs.append(("misnamed:sibling-relative-import", f"step {idx}: {n} missing (loaded under another name)"))
                elif any(i in stale for i in _importers_closure(ents, n)):
                    k = sorted(stale[i] for i in _importers_closure(ents, n) if i in stale)[0]
                    devs.append((k, f"step {idx}: {n} not loaded: its importer was kept instead of being re-executed"))
                elif n not in prevd and not ents[n]["auto"] and \
                        not any(i in post and i not in kept for i in _direct_importers(ents, n)):
                    pass   # "re-executes those that are auto-loaded or imported again": no script importing it was
                    #        executed in this reload (only kept contexts, whose import was already dangling, name it)
                else:
                    devs.append(("missing", f"step {idx}: {n} should be loaded"))
            for n in sorted(post):
                c = post[n]
                if n in ents:
                    if c["gen"] != ents[n]["gen"]:
                        if n in kept and only is None:
                            pass   # reported above as kept-but-must-be-discarded
                        else:
                            devs.append(("wrong-source", f"step {idx}: {n} runs generation {c['gen']}, file has {ents[n]['gen']}"))
                    if n not in required and n not in optional:
                        if c["mod"]:
                            devs.append(("orphan-module", f"step {idx}: module {n} loaded but imported by no loaded context"))
                        elif n in kept:
                            devs.append(("stale-importer:deleted-file", f"step {idx}: {n} kept but can no longer load"))
                        else:
                            devs.append(("unexpected-context", f"step {idx}: {n} loaded"))
                else:
                    if n in sibrel_targets:
                        devs.append(("misnamed:sibling-relative-import",
                                     f"step {idx}: context {n} created for file {c['path']}"))
                    elif n in stale:
                        pass   # already reported above: kept although it had to be discarded
                    elif c["mod"] and n in kept:
                        devs.append(("orphan-module", f"step {idx}: module {n} of a vanished file still loaded"))
                    else:
                        devs.append(("unexpected-context", f"step {idx}: {n} has no file"))
        # ---- every new object was executed exactly once
        for n in sorted(set(evnames)):
            if evnames.count(n) > 1 and n in required and n not in cyc and not (_import_closure(ents, n) & sibrel_users):
                devs.append(("double-load", f"step {idx}: {n} executed {evnames.count(n)} times in one reload"))
        for n, c in post.items():
            if n not in kept and n not in evnames:
                devs.append(("not-reexecuted", f"step {idx}: new context {n} without load event"))
        prev = o["ctxs"]
    return devs


def _empty_entry_removed(n, prevd, snap):
    """n belongs to a package-form app that was loaded with an EMPTY yaml entry (configuration None) and whose entry
    has now been removed"""
    p = n.split(".")
    if len(p) < 2 or p[0] != "apps" or p[1] in snap["cfg"]:
        return False
    root = prevd.get("apps." + p[1])
    return root is not None and root["appcfg"] is None and f"apps/{p[1]}/__init__.py" in snap["disk"]


def _direct_importers(ents, target):
    out = []
    for n, e in ents.items():
        for level, mod in e["imports"]:
            if resolve(n, e, level, mod) == target:
                out.append(n)
    return out


def _importers_closure(ents, target):
    """everything that imports `target` directly or transitively (documented resolution)"""
    seen, todo = set(), [target]
    while todo:
        t = todo.pop()
        for n in _direct_importers(ents, t):
            if n not in seen:
                seen.add(n)
                todo.append(n)
    return seen


def _import_closure(ents, start):
    """start and everything it imports (documented resolution), transitively"""
    seen, todo = {start}, [start]
    while todo:
        n = todo.pop()
        e = ents.get(n)
        if e is None:
            continue
        for level, mod in e["imports"]:
            t = resolve(n, e, level, mod)
            if t and t not in seen:
                seen.add(t)
                todo.append(t)
    return seen


def verdict(c):
    devs = deviations(c.payload)
    if not devs:
        return None
    devs.sort(key=lambda d: UNKNOWN_FIRST.index(d[0]) if d[0] in UNKNOWN_FIRST else -1)
    c.payload["_deviations"] = sorted({d[0] for d in devs})
    return devs[0][0] + " | " + devs[0][1]


def classify(c, reason):
    return reason.split(" | ")[0]


def replay_cases(obj):
    p = {k: v for k, v in obj["case"].items() if not k.startswith("_")}
    return [mk_case(p)]


def shrink(c, reason):
    """drop trailing steps, then single edits, while the same kind of deviation remains"""
    kind = classify(c, reason)
    best = {k: v for k, v in c.payload.items() if not k.startswith("_")}

    def fails(p):
        p = json.loads(json.dumps(p))
        p["_obs"] = _run_one(p)
        return any(d[0] == kind for d in deviations(p))
    try:
        changed = True
        budget = 40
        while changed and budget > 0:
            changed = False
            if len(best["steps"]) > 1:
                cand = dict(best, steps=best["steps"][:-1])
                budget -= 1
                if fails(cand):
                    best, changed = cand, True
                    continue
            for si, st in enumerate(best["steps"]):
                for ei in range(len(st["edits"])):
                    cand = json.loads(json.dumps(best))
                    del cand["steps"][si]["edits"][ei]
                    budget -= 1
                    if budget > 0 and fails(cand):
                        best, changed = cand, True
                        break
                if changed:
                    break
    except Exception:  # pragma: no cover
        pass
    out = mk_case(best)
    run_impl([out])
    if out.line:
        o = common.drive([out.line])
        out.model = o[0] if o else None
    return out


def extra_coverage(cases):
    ops, onlys, devk, fam = {}, {}, {}, {}
    nctx, nev, nsteps = 0, 0, 0
    for c in cases:
        fam[c.payload["family"]] = fam.get(c.payload["family"], 0) + 1
        for st in c.payload["steps"]:
            nsteps += 1
            for op in st["edits"]:
                ops[op["op"]] = ops.get(op["op"], 0) + 1
            if st.get("call"):
                onlys["service-call-with-lazy-import"] = onlys.get("service-call-with-lazy-import", 0) + 1
                nsteps -= 1
                continue
            k = "fresh-setup" if st.get("fresh") else (
                "default" if st["only"] is None else ("*" if st["only"] == "*" else "name"))
            if not st["edits"] and st["only"] is None and not st.get("fresh"):
                onlys["default-without-any-edit"] = onlys.get("default-without-any-edit", 0) + 1
            onlys[k] = onlys.get(k, 0) + 1
        for o in c.payload.get("_obs") or []:
            nctx += len(o["ctxs"])
            nev += len(o["events"])
        for k in c.payload.get("_deviations", []):
            devk[k] = devk.get(k, 0) + 1
    return {"families": fam, "edit_ops": ops, "reload_kinds": onlys, "reload_steps": nsteps,
            "contexts_observed": nctx, "load_events_observed": nev, "deviation_kinds_seen": devk}
