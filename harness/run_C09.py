"""C09 correspondence + property oracle: function lifetimes on a real Home Assistant instance vs the Lean model
(Model/C09.lean) and vs an independent reference-counting oracle.

The implementation is run in sub-processes with explicit PYTHONHASHSEED values, because the (now fixed) defect C09-F1
depended on the iteration order of a Python set of watched names; the order actually used is read back from the
subscription table and handed to the model (`(define … ((var…)…) …)` lists the names in that order)."""
import json
import os
import subprocess
import sys

PROP = "C09"
RULE = ("operation sequences define / redefine / del / rebind / container put / drop / file reload / file delete / "
        "unload over factory-created closures in one or two script files and in a Jupyter session context (created like "
        "jupyter_kernel_start does, cells executed like the kernel does, ended by Kernel.session_shutdown() or "
        "GlobalContextMgr.delete()) (global contexts; a family where both files "
        "compete for one @service name: second claim refused, then the owner is deleted / redefined / reloaded / its "
        "file deleted) carrying any mix of @state_trigger (1-2 decorators, names of one entity "
        "as value/.old/.attr and of several entities), @event_trigger, @service, @time_trigger(startup/shutdown); after "
        "each operation gc.collect()+settle, then probe occurrences (every probe entity changes, every probe event "
        "fires, every declared service that exists is called); observed: State.notify, Event.notify, bus listeners, "
        "has_service, Function.service_cnt, Function.service2global_ctx, runs; both subsystems; hash seeds 0-7.  Non-trivial: at least one generation is deactivated; distinct by payload.")
ASSUMPTIONS = [
    "CPython finalises an unreferenced EvalFuncVar (refcount 0 -> __del__ / weakref.finalize) before the next "
    "observation: the harness calls gc.collect() and settles the loop after every operation (model: `sweep`)",
    "Home Assistant's bus, state machine and service registry behave as dictionaries; async_listeners() counts listeners",
    "the iteration order of the watched-name set is an input (read back from State.notify), not modelled",
]
TRUSTED = ["harness/run_C09.py (script generator, observation, reference-count oracle)",
           "harness/ha_env.py + vclock.py (Home Assistant test instance on a virtual clock)"]

# deviation flag of the model (`cont` in Model/C09.lean).  1 = State.notify_del `continue`s = the code since the `fix:`
# commit a7dbc5e of /repo (`delContinuesNow`); 0 = the pre-fix loop (`return`, `delContinuesPreFix`, finding C09-F1).
# The correspondence check certifies the value: against a pre-fix tree impl != model AND the oracle reports the leak.
DEL_CONTINUES = 1
# two script files = two global contexts; "j" = a Jupyter kernel session (context `jupyter_0`), created the way the
# `pyscript.jupyter_kernel_start` service creates it and ended by Kernel.session_shutdown() / GlobalContextMgr.delete()
# "s1"/"s2"/"s3" = script files below pyscript/scripts/ at three depths (contexts scripts.s, scripts.d.s, scripts.d.e.s)
FILES = {"t": "file.t", "u": "file.u", "j": "jupyter_0", "s1": "scripts.s", "s2": "scripts.d.s", "s3": "scripts.d.e.s"}
FILE_PATH = {"t": "t.py", "u": "u.py", "s1": "scripts/s.py", "s2": "scripts/d/s.py", "s3": "scripts/d/e/s.py"}
SLOT_BASE = {"t": 0, "u": 10, "j": 20, "s1": 60, "s2": 70, "s3": 80}
SHARED = "shared"                           # the service name both contexts compete for (`pyscript.shared`)
# BOUNDARY: entity / event names that are prefixes of each other (pyscript.a / pyscript.ab, ev1 / ev1x)
ENTS = ["pyscript.a", "pyscript.b", "pyscript.c", "pyscript.ab"]
EVS = ["ev1", "ev2", "ev1x"]
# MQTT topics and webhook ids (again with a prefix pair).  Webhook ids: legacy multiplexes one Home Assistant registration
# per id among all queues (Webhook.notify); in the NEW subsystem every @webhook_trigger registers itself and a second live
# function naming a registered id fails to start as a whole (that is C08's open finding C08-F1, model: `hookClash`), so
# the copies of a sequence that run under the new subsystem get one id per generation (`uniq_hooks`).
TOPICS = ["t/1", "t/2", "t/1x"]
HOOKS = ["h1", "h2", "h1x"]
# where a reference to a function can live besides a global variable (op `put` / `drop`, field "kind"):
# a dict, a default argument, a closure cell, a class attribute, a container of an imported module (another context)
KINDS = ["dict", "default", "closure", "class", "module"]
KIND_BASE = {"dict": 0, "default": 2, "closure": 4, "class": 6}
HOLD_CTX = "modules.hold"
NAMES = ["f0", "f1", "f2"]
HASHSEEDS = [0, 1, 2, 3, 4, 5, 6, 7]
# pools of watched-name sets: one name per entity (the fragment on which today's code is clean) and several names
# of one entity (value, .old, attribute)
CLEAN_SETS = [["pyscript.a"], ["pyscript.b"], ["pyscript.a", "pyscript.b"], ["pyscript.b", "pyscript.c"],
              ["pyscript.ab"], ["pyscript.a", "pyscript.ab"], ["pyscript.ab.old", "pyscript.b"],
              ["pyscript.a", "pyscript.b", "pyscript.c"], ["pyscript.c.old"], ["pyscript.a.attr1", "pyscript.c"]]
DUP_SETS = [["pyscript.a", "pyscript.a.old", "pyscript.b"], ["pyscript.a", "pyscript.a.attr1"],
            ["pyscript.ab", "pyscript.ab.old", "pyscript.a"],
            ["pyscript.b", "pyscript.b.old", "pyscript.a", "pyscript.c"], ["pyscript.c", "pyscript.c.old", "pyscript.c.attr1", "pyscript.a"],
            ["pyscript.a.old", "pyscript.a.attr1", "pyscript.b", "pyscript.c"]]


# --------------------------------------------------------------------------------------------- generators
def gen_define(rng, gen, dup):
    sets = []
    r = rng.random()
    if r < 0.8:
        sets.append(list(rng.choice(DUP_SETS if (dup and rng.random() < 0.6) else CLEAN_SETS)))
        if rng.random() < 0.2:
            extra = list(rng.choice(CLEAN_SETS))
            used = {".".join(n.split(".")[:2]) for n in sets[0]}
            if not any(".".join(n.split(".")[:2]) in used for n in extra):
                sets.append(extra)
    events = [rng.choice(EVS)] if rng.random() < 0.45 else []
    mqtts = [rng.choice(TOPICS)] if rng.random() < 0.3 else []
    if mqtts and rng.random() < 0.25:
        mqtts.append(rng.choice(TOPICS))          # a second @mqtt_trigger, possibly on the same topic
    hooks = [rng.choice(HOOKS)] if rng.random() < 0.3 else []
    if hooks and rng.random() < 0.2:
        hooks.append(rng.choice([h for h in HOOKS if h != hooks[0]]))
    services = [f"s{gen}"] if rng.random() < 0.35 else []
    su = rng.random() < 0.25
    sd = rng.random() < 0.25
    r2 = rng.random()
    if r2 < 0.08:
        # a plain function without any decorator: nothing may ever be registered for it
        sets, events, services, su, sd = [], [], [], False, False
        mqtts, hooks = [], []
    elif r2 < 0.18:
        # triggers of every modelled kind on one function (+ guards that always hold)
        a = list(rng.choice(DUP_SETS if dup else CLEAN_SETS))
        used = {".".join(n.split(".")[:2]) for n in a}
        b = [e for e in ENTS if e not in used][:1]
        sets = [a] + ([b] if b else [])
        events, services, su, sd = [rng.choice(EVS)], [f"s{gen}"], True, True
        mqtts, hooks = [rng.choice(TOPICS)], [rng.choice(HOOKS)]
    elif not sets and not events and not services and not su and not sd and not mqtts and not hooks:
        events = [rng.choice(EVS)]
    d = {"op": "define", "name": rng.choice(NAMES), "gen": gen, "states": sets, "events": events,
         "mqtts": mqtts, "hooks": hooks, "services": services, "su": su, "sd": sd}
    if r2 >= 0.08 and r2 < 0.18:
        d["guards"] = True
    if rng.random() < 0.2 and (sets or events or mqtts or hooks):
        d["sleepy"] = True      # every run sleeps 0.1 s: it is still running while the next operations happen
    return d


def gen_case(rng, family, legacy, hashseed):
    dup = family == "dup"
    ops = []
    gen = 0
    n = rng.choice([4, 5, 6, 7, 8])
    for i in range(n):
        r = rng.random()
        if i == 0 or r < 0.40:
            ops.append(gen_define(rng, gen, dup))
            gen += 1
        elif r < 0.58:
            ops.append({"op": "del", "name": rng.choice(NAMES)})
        elif r < 0.66:
            a, b = rng.sample(NAMES, 2)
            ops.append({"op": "rebind", "dst": a, "src": b})
        elif r < 0.69:
            a = rng.choice(NAMES)
            ops.append({"op": "rebind", "dst": a, "src": a})          # f = f
        elif r < 0.72:
            ops.append({"op": "assign", "name": rng.choice(NAMES)})   # f = 5: the name no longer holds a function
        elif r < 0.84:
            ops.append({"op": "put", "slot": rng.choice([0, 1]), "name": rng.choice(NAMES), "kind": rng.choice(KINDS)})
        elif r < 0.93:
            ops.append({"op": "drop", "slot": rng.choice([0, 1]), "kind": rng.choice(KINDS)})
        else:
            ops.append({"op": "reloadfile"})
            while rng.random() < 0.3:
                ops.append({"op": "reloadfile"})     # second, third ... reload without any change
    last = rng.choice(["unloadall", "unloadall", "deletefile", "reloadfile", "resetup"])
    if last == "resetup":
        # unload followed by a fresh set-up in the same process, then business as usual
        ops += [{"op": "unloadall"}, {"op": "setup"}, gen_define(rng, gen, dup), {"op": "del", "name": rng.choice(NAMES)},
                {"op": "unloadall"}]
    else:
        ops.append({"op": last})
    return {"family": family, "legacy": legacy, "hashseed": hashseed, "ops": ops}


def gen_case_svc(rng, legacy, hashseed):
    """two contexts competing for one service name: the first claim owns it, a claim from the other context is
    refused; then the owner is deleted / redefined / its file reloaded or deleted / everything unloaded.  Only `f0` of
    each file ever carries the shared name and it is never rebound or put into a container (several live claims
    inside ONE context are C12's subject); `f1`/`f2` carry ordinary triggers."""
    ops = []
    gen = 0
    alive = {"t": True, "u": True}
    first = rng.choice(["t", "u"])
    other = "u" if first == "t" else "t"

    def claim(f, with_state):
        nonlocal gen
        d = {"op": "define", "file": f, "name": "f0", "gen": gen,
             "states": [list(rng.choice(CLEAN_SETS))] if with_state else [], "events": [],
             "services": [SHARED], "su": False, "sd": False}
        gen += 1
        return d
    ops.append(claim(first, rng.random() < 0.3))
    for _ in range(rng.choice([3, 4, 5, 6])):
        live = [f for f in ("t", "u") if alive[f]]
        if not live:
            break
        f = rng.choice(live)
        r = rng.random()
        if r < 0.34:
            ops.append(claim(f, rng.random() < 0.3))
        elif r < 0.52:
            ops.append({"op": "del", "file": f, "name": "f0"})
        elif r < 0.62:
            d = gen_define(rng, gen, False)
            d["file"], d["name"] = f, rng.choice(["f0", "f1", "f2"])
            gen += 1
            ops.append(d)
        elif r < 0.70:
            ops.append({"op": "rebind", "file": f, "dst": "f2", "src": "f1"})
        elif r < 0.76:
            ops.append({"op": "put", "file": f, "slot": 0, "name": "f1"})
        elif r < 0.90:
            ops.append({"op": "reloadfile", "file": f})
        else:
            ops.append({"op": "deletefile", "file": f})
            alive[f] = False
    if alive[other] and rng.random() < 0.7:
        ops.append(claim(other, False))
    ops.append({"op": "unloadall"})
    return {"family": "svc", "legacy": legacy, "hashseed": hashseed, "ops": ops}


def gen_case_jup(rng, legacy, hashseed):
    """a Jupyter session: functions with triggers / services are defined by cells of the session, deleted, rebound, kept
    in containers; the session ends (client shutdown -> session_shutdown, or the context is deleted directly) while
    pyscript keeps running, or the integration is unloaded while the session still exists"""
    ops = [{"op": "jstart", "file": "j"}]
    gen = 0
    if rng.random() < 0.4:
        d = gen_define(rng, gen, False)
        d["file"] = "t"
        gen += 1
        ops.append(d)
    for i in range(rng.choice([2, 3, 4, 5])):
        r = rng.random()
        if i == 0 or r < 0.5:
            d = gen_define(rng, gen, rng.random() < 0.3)
            d["file"] = "j"
            gen += 1
            ops.append(d)
        elif r < 0.65:
            ops.append({"op": "del", "file": "j", "name": rng.choice(NAMES)})
        elif r < 0.78:
            a, b = rng.sample(NAMES, 2)
            ops.append({"op": "rebind", "file": "j", "dst": a, "src": b})
        elif r < 0.90:
            ops.append({"op": "put", "file": "j", "slot": 0, "name": rng.choice(NAMES), "kind": rng.choice(KINDS)})
        else:
            ops.append({"op": rng.choice(["drop", "assign"]), "file": "j", "slot": 0, "name": rng.choice(NAMES),
                        "kind": rng.choice(KINDS)})
    if rng.random() < 0.8:
        ops.append({"op": "jend", "file": "j", "how": rng.choice(["shutdown", "shutdown", "delete"])})
        if rng.random() < 0.4:
            d = gen_define(rng, gen, False)
            d["file"] = "t"
            ops.append(d)
    ops.append({"op": "unloadall"})
    return {"family": "jup", "legacy": legacy, "hashseed": hashseed, "ops": ops}


def D(name, gen, states=(), events=(), services=(), su=False, sd=False, file="t", mqtts=(), hooks=()):
    return {"op": "define", "file": file, "name": name, "gen": gen, "states": [list(s) for s in states],
            "events": list(events), "mqtts": list(mqtts), "hooks": list(hooks), "services": list(services),
            "su": su, "sd": sd}


def uniq_hooks(payload):
    """new subsystem: one webhook id per generation (see HOOKS)"""
    for o in payload["ops"]:
        if o["op"] == "define" and o.get("hooks"):
            o["hooks"] = [f"{h}g{o['gen']}" for h in o["hooks"]]
    return payload


def topics_of(payload):
    return sorted({t for o in payload["ops"] if o["op"] == "define" for t in o.get("mqtts", [])})


def hooks_of(payload):
    return sorted({h for o in payload["ops"] if o["op"] == "define" for h in o.get("hooks", [])})


def fixed_cases():
    out = []
    for legacy in (True, False):
        for hs in HASHSEEDS:
            # the witness of C09_cex_two_names_one_entity / C09_refinement_cex
            out.append({"family": "fixed", "legacy": legacy, "hashseed": hs, "ops": [
                D("f0", 0, [["pyscript.a", "pyscript.a.old", "pyscript.b"]]), {"op": "del", "name": "f0"},
                {"op": "unloadall"}]})
        # redefinition, closures kept in containers, rebinding, startup/shutdown, services
        out.append({"family": "fixed", "legacy": legacy, "hashseed": 0, "ops": [
            D("f0", 0, [["pyscript.a"]], ["ev1"], ["s0"], su=True, sd=True),
            D("f1", 1, [["pyscript.b", "pyscript.c"]], [], [], su=False, sd=True),
            {"op": "put", "slot": 0, "name": "f0"}, {"op": "del", "name": "f0"},
            D("f1", 2, [["pyscript.c"]], ["ev1"], ["s2"]),
            {"op": "rebind", "dst": "f2", "src": "f1"}, {"op": "del", "name": "f1"},
            {"op": "drop", "slot": 0}, {"op": "reloadfile"},
            D("f0", 3, [["pyscript.a", "pyscript.b"]], ["ev2"], [], su=True),
            {"op": "deletefile"}]})
        # two contexts compete for `pyscript.shared`: u's claim is refused while t owns the name; once t's function
        # is gone (del / file delete) the name is free again and u can claim it
        out.append({"family": "fixed", "legacy": legacy, "hashseed": 0, "ops": [
            D("f0", 0, services=[SHARED], file="t"), D("f0", 1, services=[SHARED], file="u"),
            {"op": "del", "file": "t", "name": "f0"}, D("f0", 2, services=[SHARED], file="u"),
            D("f0", 3, [["pyscript.a"]], services=[SHARED], file="t"), {"op": "reloadfile", "file": "u"},
            D("f0", 4, services=[SHARED], file="t"), {"op": "unloadall"}]})
        out.append({"family": "fixed", "legacy": legacy, "hashseed": 0, "ops": [
            D("f0", 0, services=[SHARED], file="t"), D("f0", 1, [["pyscript.b"]], services=[SHARED], file="u"),
            {"op": "reloadfile", "file": "u"}, D("f0", 2, services=[SHARED], file="u"),
            {"op": "deletefile", "file": "t"}, D("f0", 3, services=[SHARED], file="u"), {"op": "unloadall"}]})
        # references from a dict, a default argument, a closure, a class attribute and a module's container keep a
        # function alive after `del`; a reload of the defining file ends it wherever references remain
        for kind in KINDS:
            out.append({"family": "fixed", "legacy": legacy, "hashseed": 0, "ops": [
                D("f0", 0, [["pyscript.a", "pyscript.ab"]], ["ev1x"], ["s0"], su=True, sd=True),
                {"op": "put", "slot": 0, "name": "f0", "kind": kind}, {"op": "del", "name": "f0"},
                {"op": "rebind", "dst": "f1", "src": "f1"}, {"op": "drop", "slot": 0, "kind": kind},
                D("f1", 1, [["pyscript.ab"]], ["ev1"]), {"op": "put", "slot": 1, "name": "f1", "kind": kind},
                {"op": "rebind", "dst": "f1", "src": "f1"}, {"op": "assign", "name": "f1"},
                {"op": "reloadfile"}, {"op": "reloadfile"}, {"op": "reloadfile"}, {"op": "unloadall"}]})
        # all kinds of triggers on one function, which is deleted while one of its runs is still sleeping;
        # then unload and a fresh set-up in the same process
        out.append({"family": "fixed", "legacy": legacy, "hashseed": 0, "ops": [
            dict(D("f0", 0, [["pyscript.a", "pyscript.a.old"], ["pyscript.b"]], ["ev1"], ["s0"], su=True, sd=True),
                 guards=True, sleepy=True),
            {"op": "del", "name": "f0"}, D("f1", 1), dict(D("f2", 2, [["pyscript.c"]]), sleepy=True),
            {"op": "assign", "name": "f2"}, {"op": "unloadall"}, {"op": "setup"},
            D("f0", 3, [["pyscript.ab"]], ["ev1x"], ["s3"], sd=True), {"op": "unloadall"}]})
        # a script below pyscript/scripts/ - directly, one and two directories deep - is removed (deleted, or "commented"
        # by renaming it / its directory with a leading '#') and pyscript.reload is called: nothing of it may be left
        out.append({"family": "fixed", "legacy": legacy, "hashseed": 0, "ops": [
            D("f0", 0, [["pyscript.a"]], ["ev1"], ["s0"], sd=True, file="s1"),
            D("f0", 1, [["pyscript.b", "pyscript.b.old"]], ["ev2"], ["s1"], sd=True, file="s2"),
            D("f0", 2, [["pyscript.c"]], ["ev1x"], ["s2"], su=True, sd=True, file="s3"),
            D("f1", 3, [["pyscript.ab"]], file="t"),
            {"op": "put", "file": "s3", "slot": 0, "name": "f0", "kind": "dict"},
            {"op": "deletefile", "file": "s2"}, {"op": "deletefile", "file": "s3"}, {"op": "deletefile", "file": "s1"},
            {"op": "reloadfile", "file": "t"}, {"op": "unloadall"}]})
        out.append({"family": "fixed", "legacy": legacy, "hashseed": 0, "ops": [
            D("f0", 0, [["pyscript.a", "pyscript.ab"]], ["ev1"], ["s0"], sd=True, file="s2"),
            D("f1", 1, [["pyscript.c"]], [], ["s1"], file="s1"),
            {"op": "reloadfile", "file": "s2"},
            D("f0", 2, [["pyscript.b"]], ["ev2"], ["s2"], sd=True, file="s2"),
            {"op": "commentfile", "file": "s2"}, {"op": "commentfile", "file": "s1"}, {"op": "unloadall"}]})
        out.append({"family": "fixed", "legacy": legacy, "hashseed": 0, "ops": [
            D("f0", 0, [["pyscript.a"]], ["ev1x"], ["s0"], su=True, sd=True, file="s3"),
            {"op": "commentfile", "file": "s3"}, D("f0", 1, [["pyscript.a"]], file="t"), {"op": "unloadall"}]})
        # MQTT topics and webhook ids: two functions (two files) on one topic and one id, a function with two
        # @mqtt_trigger on one topic, first / last listener going in either order, reload, file delete, unload
        out.append({"family": "fixed", "legacy": legacy, "hashseed": 0, "ops": [
            D("f0", 0, mqtts=["t/1"], hooks=["h1"], file="t"), D("f0", 1, mqtts=["t/1", "t/1"], hooks=["h1", "h2"], file="u"),
            D("f1", 2, [["pyscript.a"]], ["ev1"], ["s2"], mqtts=["t/1x"], hooks=["h1x"], su=True, sd=True, file="t"),
            {"op": "del", "file": "t", "name": "f0"}, {"op": "put", "file": "u", "slot": 0, "name": "f0"},
            {"op": "del", "file": "u", "name": "f0"}, D("f0", 3, mqtts=["t/1"], hooks=["h1"], file="t"),
            {"op": "drop", "file": "u", "slot": 0}, {"op": "reloadfile", "file": "t"},
            D("f2", 4, mqtts=["t/2", "t/1"], hooks=["h2"], file="u"), {"op": "deletefile", "file": "u"},
            D("f0", 5, mqtts=["t/1"], hooks=["h1"], file="t"), {"op": "unloadall"}]})
        # a Jupyter session with every kind of declaration ends while pyscript keeps running
        for how in ("shutdown", "delete"):
            out.append({"family": "fixed", "legacy": legacy, "hashseed": 0, "ops": [
                {"op": "jstart", "file": "j"}, D("f1", 0, [["pyscript.c"]], file="t"),
                D("f0", 1, [["pyscript.a", "pyscript.b"]], ["ev1"], ["s1"], su=True, sd=True, file="j"),
                D("f1", 2, [], ["ev2"], [], file="j"), {"op": "put", "file": "j", "slot": 0, "name": "f1"},
                {"op": "del", "file": "j", "name": "f1"}, {"op": "jend", "file": "j", "how": how},
                D("f2", 3, [["pyscript.a"]], ["ev1"], file="t"), {"op": "unloadall"}]})
    return out


def spread_hashseeds(ps):
    """the fixed walk-throughs that do not depend on the iteration order run under different hash seeds, so that no
    single worker process gets all of them"""
    k = 0
    for p in ps:
        if len(p["ops"]) > 3:
            p["hashseed"] = HASHSEEDS[k % len(HASHSEEDS)]
            k += 1
    return ps


def gen_cases(rng, tier, search):
    import common
    n = 28 if tier == "quick" else 600
    if search:
        n *= 3
    cases = []
    if not search:
        for p in spread_hashseeds(fixed_cases()):
            if not p["legacy"]:
                uniq_hooks(p)
            cases.append(common.Case(p, None, tags=(p["family"], "legacy" if p["legacy"] else "new")))
        for p in startdel_cases():
            cases.append(common.Case(p, None, tags=("startdel", "legacy" if p["legacy"] else "new")))
    for i in range(n):
        family = ["clean", "dup", "svc", "jup"][i % 4]
        if family == "svc":
            base = gen_case_svc(rng, True, HASHSEEDS[i % len(HASHSEEDS)])
        elif family == "jup":
            base = gen_case_jup(rng, True, HASHSEEDS[i % len(HASHSEEDS)])
        else:
            base = gen_case(rng, family, True, HASHSEEDS[i % len(HASHSEEDS)])
        for legacy in (True, False):      # "both subsystems": every generated sequence runs under both
            p = json.loads(json.dumps(base))
            p["legacy"] = legacy
            if not legacy:
                uniq_hooks(p)
            cases.append(common.Case(p, None, tags=(family, "legacy" if legacy else "new")))
    return cases


# --------------------------------------------------------------------------------------------- the generated script
def files_used(payload):
    """the script FILES of the case (the Jupyter session "j" is not a file)"""
    return sorted(({o.get("file", "t") for o in payload["ops"]} | {"t"}) - {"j"})


def decl_lines(d, fname, ind):
    """decorators + def + body of the function of a `define` op"""
    lines = []
    for names in d["states"]:
        expr = " and ".join(f"{n} != 'never'" for n in names)
        lines.append(f"{ind}@state_trigger(\"{expr}\")")
    for ev in d["events"]:
        lines.append(f"{ind}@event_trigger('{ev}')")
    for tp in d.get("mqtts", []):
        lines.append(f"{ind}@mqtt_trigger('{tp}')")
    for hk in d.get("hooks", []):
        lines.append(f"{ind}@webhook_trigger('{hk}')")
    for sv in d["services"]:
        lines.append(f"{ind}@service('pyscript.{sv}')")
    tt = [x for x, flag in (("startup", d["su"]), ("shutdown", d["sd"])) if flag]
    if tt:
        lines.append(f"{ind}@time_trigger({', '.join(repr(x) for x in tt)})")
    if d.get("guards"):
        lines.append(f"{ind}@state_active(\"pyscript.c != 'never'\")")
        lines.append(f"{ind}@time_active(\"range(0:00:00, 23:59:58)\")")
    lines.append(f"{ind}def {fname}(**kw):")
    lines.append(f"{ind}    rec('run', {d['gen']}, kw.get('trigger_type'), kw.get('trigger_time'), "
                 "kw.get('var_name'), kw.get('event_type'), kw.get('probe'), kw.get('topic'), kw.get('webhook_id'))")
    if d.get("sleepy"):
        lines.append(f"{ind}    if kw.get('trigger_type') in ('state', 'event', 'mqtt', 'webhook'):")
        lines.append(f"{ind}        task.sleep(0.1)")
        lines.append(f"{ind}        rec('done', {d['gen']})")
    return lines


def holder_lines(ind, file, value):
    """statements that store `value` (an expression) in the holder selected by `kind` / `slot`"""
    return [
        f"{ind}if kind == 'dict':",
        f"{ind}    store[slot] = {value}",
        f"{ind}elif kind == 'default':",
        f"{ind}    def keeper(x={value}):",
        f"{ind}        return x",
        f"{ind}    store['d' + str(slot)] = keeper",
        f"{ind}elif kind == 'closure':",
        f"{ind}    def outer(fn):",
        f"{ind}        def inner():",
        f"{ind}            return fn",
        f"{ind}        return inner",
        f"{ind}    store['c' + str(slot)] = outer({value})",
        f"{ind}elif kind == 'class':",
        f"{ind}    setattr(Holder, 'a' + str(slot), {value})",
        f"{ind}elif kind == 'module':",
        f"{ind}    hold.box['{file}' + str(slot)] = {value}",
    ]


def unholder_lines(ind, file):
    return [
        f"{ind}if kind == 'dict':",
        f"{ind}    store.pop(slot, None)",
        f"{ind}elif kind == 'default':",
        f"{ind}    store.pop('d' + str(slot), None)",
        f"{ind}elif kind == 'closure':",
        f"{ind}    store.pop('c' + str(slot), None)",
        f"{ind}elif kind == 'class':",
        f"{ind}    if hasattr(Holder, 'a' + str(slot)):",
        f"{ind}        delattr(Holder, 'a' + str(slot))",
        f"{ind}elif kind == 'module':",
        f"{ind}    hold.box.pop('{file}' + str(slot), None)",
    ]


PRELUDE = ["import hold", "store = {}", "", "class Holder:", "    pass", ""]


def cell_text(o):
    """the cell a Jupyter client would send for operation `o` of the session"""
    k = o["op"]
    if k == "define":
        return "\n".join(decl_lines(o, o["name"], "")) + "\n"
    if k == "del":
        return f"del {o['name']}\n"
    if k == "rebind":
        return f"{o['dst']} = {o['src']}\n"
    if k == "assign":
        return f"{o['name']} = 5\n"
    if k == "put":
        return "\n".join([f"kind = '{o.get('kind', 'dict')}'", f"slot = {o['slot']}"] +
                         holder_lines("", "j", o["name"])) + "\n"
    if k == "drop":
        return "\n".join([f"kind = '{o.get('kind', 'dict')}'", f"slot = {o['slot']}"] + unholder_lines("", "j")) + "\n"
    return "pass\n"


def svc_names(payload):
    """full names of all services any generation of the case declares"""
    return sorted({"pyscript." + s for o in payload["ops"] if o["op"] == "define" for s in o["services"]})


def script_text(payload, file="t"):
    lines = list(PRELUDE) + ["def mk(k):"]
    defs = [o for o in payload["ops"] if o["op"] == "define" and o.get("file", "t") == file]
    for d in defs:
        lines.append(f"    if k == {d['gen']}:")
        lines += decl_lines(d, "fn", "        ")
        lines.append("        return fn")
    lines.append("    return None")
    lines += ["", "@service", f"def op_{file}(what=None, k=None, name=None, src=None, slot=None, kind=None):",
              "    global f0, f1, f2"]
    lines.append("    if what == 'define':")
    lines.append("        fn = mk(k)")
    for n in NAMES:
        lines.append(f"        if name == '{n}':")
        lines.append(f"            {n} = fn")
    lines.append("    elif what == 'del':")
    for n in NAMES:
        lines.append(f"        if name == '{n}':")
        lines.append(f"            del {n}")
    lines.append("    elif what == 'assign':")
    for n in NAMES:
        lines.append(f"        if name == '{n}':")
        lines.append(f"            {n} = 5")
    lines.append("    elif what == 'rebind':")
    for sname in NAMES:
        lines.append(f"        if src == '{sname}':")
        lines.append(f"            v = {sname}")
    for n in NAMES:
        lines.append(f"        if name == '{n}':")
        lines.append(f"            {n} = v")
    lines.append("    elif what == 'put':")
    for n in NAMES:
        lines.append(f"        if name == '{n}':")
        lines.append(f"            v = {n}")
    lines += holder_lines("        ", file, "v")
    lines.append("    elif what == 'drop':")
    lines += unholder_lines("        ", file)
    return "\n".join(lines) + "\n"


# --------------------------------------------------------------------------------------------- removed while it is starting
# Directed family `startdel` (oracle only, no Lean column; seeded change C09_7): a function with two decorators, the
# FIRST of which really suspends while it starts (`@service` of a domain Home Assistant has never seen: the start reads
# the service descriptions), is deleted / rebound by a `@time_trigger("startup")` function of the same file while that
# start is suspended.  Leave-nothing-behind oracle: no bus listener / state subscription of the removed function, no
# run of it on a later occurrence, its service gone; after unloading everything the bus is back to its baseline.
STARTDEL_VARIANTS = [(how, second) for how in ("del", "rebind") for second in ("event", "state")]


def startdel_cases():
    out = []
    for i, (how, second) in enumerate(STARTDEL_VARIANTS):
        for legacy in (False, True):
            out.append({"family": "startdel", "legacy": legacy, "hashseed": HASHSEEDS[i % len(HASHSEEDS)], "ops": [],
                        "how": how, "second": second, "dom": f"c09nat{i}{'l' if legacy else 'n'}"})
    return out


def startdel_text(payload):
    trig = '@event_trigger("c09_ev")' if payload["second"] == "event" else '@state_trigger("pyscript.c09v")'
    kill = "    del handler" if payload["how"] == "del" else "    handler = None"
    return "\n".join([f'@service("{payload["dom"]}.ping")', trig, "def handler(**kw):", "    rec('run', 'old')", "",
                      '@time_trigger("startup")', "def killer():", "    global handler", kill, "    pyscript.c09_killed = 1", ""])


def _run_startdel(payload):
    from ha_env import run_ha
    from custom_components.pyscript.state import State

    def look(env):
        lis = env.hass.bus.async_listeners()
        return {"ev": lis.get("c09_ev", 0),
                "st": sum(len(v) for k, v in State.notify.items() if k.startswith("pyscript.c09v")),
                "svc": 1 if env.hass.services.has_service(payload["dom"], "ping") else 0,
                # (a state variable, not rec(): a startup trigger may run before the harness has registered rec)
                "killed": 1 if env.hass.states.get("pyscript.c09_killed") is not None else 0,
                "old": len([r for r in env.records if r[1] == "run" and r[2] == "old"])}

    async def body(env):
        obs = []
        for _ in range(4):
            await env.settle(0.5)
        obs.append(dict(look(env), at="started"))
        for k in range(2):
            await env.fire("c09_ev")
            await env.set_state("pyscript.c09v", str(k + 1))
            await env.settle(0.2)
        obs.append(dict(look(env), at="occurrences"))
        for entry in env.hass.config_entries.async_entries("pyscript"):
            await env.hass.config_entries.async_unload(entry.entry_id)
        await env.settle(0.2)
        await env.fire("c09_ev")
        await env.settle(0.2)
        obs.append(dict(look(env), at="unloaded"))
        return obs
    try:
        return run_ha({"t.py": startdel_text(payload)}, bool(payload["legacy"]), body)
    except Exception as e:  # pragma: no cover
        return [{"harness_error": type(e).__name__ + ":" + str(e)[:200]}]


def startdel_deviations(payload):
    obs = payload.get("_obs") or []
    if obs and "harness_error" in obs[0]:
        return [("harness", obs[0]["harness_error"][:200])]
    devs = []
    for o in obs:
        at = o["at"]
        if o["killed"] != 1:
            devs.append(("harness", f"{at}: the startup function did not run"))
        if o["old"]:
            devs.append(("ran-inactive", f"{at}: the removed function ran {o['old']} time(s) after it was "
                         f"{'deleted' if payload['how'] == 'del' else 'rebound'} while its decorators were starting"))
        if o["ev"]:
            devs.append(("leak:bus-listener", f"{at}: {o['ev']} bus listener(s) for c09_ev, the only function using it is gone"))
        if o["st"]:
            devs.append(("leak:state-subscription", f"{at}: State.notify still has pyscript.c09v ({o['st']})"))
        if o["svc"]:
            devs.append(("leak:service", f"{at}: service {payload['dom']}.ping still registered"))
    return devs


# --------------------------------------------------------------------------------------------- running the implementation
def _run_one(payload):
    if payload.get("family") == "startdel":
        return _run_startdel(payload)
    import gc
    import asyncio
    import common  # noqa: F401
    from ha_env import run_ha
    from custom_components.pyscript.state import State
    from custom_components.pyscript.event import Event
    from custom_components.pyscript.function import Function
    from custom_components.pyscript.mqtt import Mqtt
    from custom_components.pyscript.webhook import Webhook
    from unittest.mock import patch
    obs = []
    svcs = svc_names(payload)
    topics, hooks = topics_of(payload), hooks_of(payload)
    subs = []          # live subscriptions pyscript holds through mqtt.async_subscribe: [topic, handler]

    async def fake_subscribe(hass, topic, handler, encoding="utf-8", qos=0):
        ent = [topic, handler]
        subs.append(ent)

        def rm():
            if ent in subs:
                subs.remove(ent)
        return rm

    async def body(env):
        hass = env.hass
        root = os.path.join(env.cfgdir, "pyscript")
        used = files_used(payload)
        src = {f: script_text(payload, f) for f in used}
        counter = [0]
        for e in ENTS:
            hass.states.async_set(e, "0", {"attr1": 0})
        await env.settle(0.01)

        def write_file(file, bump):
            p = os.path.join(root, FILE_PATH[file])
            os.makedirs(os.path.dirname(p), exist_ok=True)
            with open(p, "w") as f:
                f.write(src[file])
            os.utime(p, (1000000 + bump, 1000000 + bump))
        os.makedirs(os.path.join(root, "modules"), exist_ok=True)
        with open(os.path.join(root, "modules", "hold.py"), "w") as f:
            f.write("box = {}\n")        # a module whose container can hold functions of other contexts
        os.utime(os.path.join(root, "modules", "hold.py"), (1000000, 1000000))
        for f in used:
            write_file(f, 0)
        await env.reload()
        await env.settle(0.01)
        seen_q = set()
        keep = []
        session = {}
        nreload = 0
        alive = True
        unloaded = False
        starts, dones = {}, {}

        def drain():
            """forget the records seen so far, but keep count of started and finished runs of sleeping functions"""
            for r in env.records:
                if r[1] == "run" and r[3] in ("state", "event", "mqtt", "webhook"):
                    starts[r[2]] = starts.get(r[2], 0) + 1
                elif r[1] == "done":
                    dones[r[2]] = dones.get(r[2], 0) + 1
            env.records.clear()
        nops = len(payload["ops"])
        for opno, o in enumerate(payload["ops"]):
            if opno == nops - 1:
                await env.settle(0.3)     # let sleeping runs finish before the last operation
            drain()
            env.log.clear()
            k = o["op"]
            fl = o.get("file", "t")
            opsvc = "op_" + fl
            err = None
            try:
                if k == "jstart":
                    # what the pyscript.jupyter_kernel_start service does, without the five TCP servers
                    from custom_components.pyscript.global_ctx import GlobalContext, GlobalContextMgr
                    from custom_components.pyscript.eval import AstEval
                    from custom_components.pyscript.jupyter_kernel import Kernel
                    import types
                    jname = GlobalContextMgr.new_name("jupyter_")
                    jctx = GlobalContext(jname, global_sym_table={"__name__": jname}, manager=GlobalContextMgr)
                    jctx.set_auto_start(True)
                    GlobalContextMgr.set(jname, jctx)
                    jast = AstEval(jname, jctx)
                    Function.install_ast_funcs(jast)
                    kernel = Kernel({"key": "k3y", "signature_scheme": "hmac-sha256", "no_connect_timeout": 3000},
                                    jast, jctx, jname)
                    kernel.iopub_server = types.SimpleNamespace(close=lambda: None)   # "the session is up"
                    session.update(name=jname, ast=jast, kernel=kernel)
                    jast.parse("\n".join(PRELUDE) + "\n")
                    await jast.eval()
                elif fl == "j" and k in ("define", "del", "rebind", "put", "drop", "assign"):
                    # a cell executed the way Kernel.shell_handler executes an execute_request
                    jg = session["kernel"].global_ctx
                    jg.set_auto_start(False)
                    try:
                        session["ast"].parse(cell_text(o))
                        await session["ast"].eval()
                        await Function.waiter_sync()
                        jg.set_auto_start(True)
                        jg.start()
                    except Exception:  # pylint: disable=broad-except
                        pass   # the kernel reports the error to the client and carries on
                elif k == "jend":
                    if o.get("how") == "delete":
                        from custom_components.pyscript.global_ctx import GlobalContextMgr
                        GlobalContextMgr.delete(session["name"])
                    else:
                        await session["kernel"].session_shutdown()
                    session.pop("ast", None)
                elif k == "define":
                    await env.call("pyscript", opsvc, {"what": "define", "k": o["gen"], "name": o["name"]})
                elif k == "del":
                    await env.call("pyscript", opsvc, {"what": "del", "name": o["name"]})
                elif k == "rebind":
                    await env.call("pyscript", opsvc, {"what": "rebind", "name": o["dst"], "src": o["src"]})
                elif k == "assign":
                    await env.call("pyscript", opsvc, {"what": "assign", "name": o["name"]})
                elif k == "put":
                    await env.call("pyscript", opsvc, {"what": "put", "slot": o["slot"], "name": o["name"],
                                                       "kind": o.get("kind", "dict")})
                elif k == "drop":
                    await env.call("pyscript", opsvc, {"what": "drop", "slot": o["slot"], "kind": o.get("kind", "dict")})
                elif k == "setup":
                    for entry in hass.config_entries.async_entries("pyscript"):
                        await hass.config_entries.async_setup(entry.entry_id)
                    unloaded = False
                elif k == "reloadfile":
                    nreload += 1
                    write_file(fl, nreload)
                    await env.reload()
                elif k == "deletefile":
                    os.unlink(os.path.join(root, FILE_PATH[fl]))
                    await env.reload()
                elif k == "commentfile":
                    # "commented" by renaming: the file itself (`#s.py`), or - for s2 - its directory (`scripts/#d`)
                    if fl == "s2":
                        os.rename(os.path.join(root, "scripts", "d"), os.path.join(root, "scripts", "#d"))
                    else:
                        pth = os.path.join(root, FILE_PATH[fl])
                        os.rename(pth, os.path.join(os.path.dirname(pth), "#" + os.path.basename(pth)))
                    await env.reload()
                elif k == "unloadall":
                    entries = hass.config_entries.async_entries("pyscript")
                    for entry in entries:
                        await hass.config_entries.async_unload(entry.entry_id)
                    alive = False
                    unloaded = True
            except Exception as e:  # an exception raised by the service call is an outcome
                err = type(e).__name__
            await env.settle(0.01)
            gc.collect()
            await env.settle(0.01)
            # order in which the new queues' name sets iterate
            orders = []
            for ent, qs in State.notify.items():
                for q, names in qs.items():
                    if id(q) not in seen_q:
                        seen_q.add(id(q))
                        keep.append(q)
                        orders.append(list(names) if isinstance(names, (set, list, tuple)) else [names])
            st = {ent: len(qs) for ent, qs in State.notify.items() if len(qs)}
            ev = {ty: len(qs) for ty, qs in Event.notify.items() if len(qs)}
            lis = hass.bus.async_listeners()
            bus = {ty: lis.get(ty, 0) for ty in EVS if lis.get(ty, 0)}
            # MQTT / webhook: pyscript's notify tables and what Home Assistant holds for pyscript
            mq = {t: len(qs) for t, qs in Mqtt.notify.items() if len(qs)}
            mqs = {}
            for t, _h in subs:
                mqs[t] = mqs.get(t, 0) + 1
            wh = {h: len(qs) for h, qs in Webhook.notify.items() if len(qs)}
            whs = {h: 1 for h in hass.data.get("webhook", {}) if h in hooks}
            stray = sorted(set(Mqtt.notify_remove) - set(Mqtt.notify)) + sorted(set(Webhook.notify_remove) - set(Webhook.notify))
            # services: what Home Assistant has, and pyscript's own bookkeeping (count, owning global context)
            svc = sorted(n for n in svcs if hass.services.has_service(*n.split(".", 1)))
            cnt = {n: Function.service_cnt.get(n, 0) for n in svcs if Function.service_cnt.get(n, 0)}
            own = {n: Function.service2global_ctx[n] for n in svcs if n in Function.service2global_ctx}
            log = [(r[4], r[2]) for r in env.records if r[1] == "run" and r[3] == "time"]
            drain()
            runs = {}
            if not unloaded:
                # all probe occurrences at once; every run reports which variable / event type triggered it
                for e in ENTS:
                    counter[0] += 1
                    hass.states.async_set(e, str(counter[0]), {"attr1": counter[0]})
                for ty in EVS:
                    hass.bus.async_fire(ty, {"x": 1})
                if topics or hooks:
                    from homeassistant.components import webhook as ha_webhook
                    from homeassistant.components.mqtt import ReceiveMessage
                    from homeassistant.core import HassJob
                    from homeassistant.util.aiohttp import MockRequest
                    import datetime
                    for tp in topics:
                        msg = ReceiveMessage(tp, "1", 0, False, tp, datetime.datetime.now())
                        for t, h in list(subs):
                            if t == tp:
                                hass.async_run_hass_job(HassJob(h), msg)
                    for hk in hooks:
                        if hk in hass.data.get("webhook", {}):
                            req = MockRequest(b'{"x": 1}', "test", method="POST", headers={"Content-Type": "application/json"})
                            hass.async_create_task(ha_webhook.async_handle_webhook(hass, hk, req))
                await env.settle(0.01)
                for e in ENTS:
                    runs[e] = sorted(r[2] for r in env.records if r[1] == "run" and r[3] == "state" and r[5] == e)
                for ty in EVS:
                    runs[ty] = sorted(r[2] for r in env.records if r[1] == "run" and r[3] == "event" and r[6] == ty)
                for tp in topics:
                    runs[tp] = sorted(r[2] for r in env.records if r[1] == "run" and r[3] == "mqtt" and r[8] == tp)
                for hk in hooks:
                    runs[hk] = sorted(r[2] for r in env.records if r[1] == "run" and r[3] == "webhook" and r[9] == hk)
                drain()
                # call every declared service that exists: which generation answers?
                for n in svcs:
                    runs[n] = []
                    if n in svc:
                        try:
                            await env.call(*n.split(".", 1), {"probe": n})
                        except Exception as e:  # pylint: disable=broad-except
                            runs[n] = ["raise:" + type(e).__name__]
                        await env.settle(0.01)
                        runs[n] += sorted(r[2] for r in env.records if r[1] == "run" and r[3] == "service" and r[7] == n)
                        drain()
            else:
                runs = {p: [] for p in ENTS + EVS + svcs + topics + hooks}
            tasks = [t for t in asyncio.all_tasks() if not t.done() and
                     any(s in repr(t.get_coro()) for s in ("trigger_watch", "_cycle"))]
            errs = [l[2][-160:] for l in env.log if l[1] == "ERROR"]
            obs.append({"st": st, "ev": ev, "bus": bus, "mq": mq, "mqs": mqs, "wh": wh, "whs": whs, "stray": stray, "svc": svc, "cnt": cnt, "own": own, "log": log, "runs": runs,
                        "orders": orders,
                        "trigger_tasks": len(tasks), "err": err, "errors": errs[:3]})
        # every run that started must finish, also those of functions deleted / unloaded meanwhile
        await env.settle(0.3)
        drain()
        if obs:
            obs[-1]["starts"] = {str(g): n for g, n in starts.items()}
            obs[-1]["dones"] = {str(g): n for g, n in dones.items()}
        return obs

    try:
        with patch("homeassistant.components.mqtt.async_subscribe", fake_subscribe):
            return run_ha({}, bool(payload["legacy"]), body)
    except Exception as e:  # pragma: no cover
        import traceback
        return [{"harness_error": type(e).__name__ + ": " + str(e)[:300] + traceback.format_exc()[-600:]}]


def _worker_main():
    """sub-process entry: JSON list of payloads on stdin -> JSON list of observations on stdout"""
    import logging
    sys.path.insert(0, os.path.dirname(os.path.abspath(__file__)))
    payloads = json.loads(sys.stdin.read())
    out = [_run_one(p) for p in payloads]
    logging.disable(logging.CRITICAL)
    sys.stdout.write("\n@@RESULT@@" + json.dumps(out))
    sys.stdout.flush()
    os._exit(0)


def run_impl(cases):
    todo = [c for c in cases if c.impl is None]
    groups = {}
    for c in todo:
        groups.setdefault(c.payload["hashseed"], []).append(c)
    procs = []
    for hs, cs in groups.items():
        # one process per hash seed (two when there is a lot to do): start-up of Home Assistant dominates
        k = 1 if len(cs) <= 24 else 2
        chunks = [cs[i::k] for i in range(k)]
        for chunk in chunks:
            if not chunk:
                continue
            env = dict(os.environ, PYTHONHASHSEED=str(hs))
            p = subprocess.Popen([sys.executable, os.path.abspath(__file__), "--worker"], stdin=subprocess.PIPE,
                                 stdout=subprocess.PIPE, stderr=subprocess.PIPE, env=env, text=True)
            p.stdin.write(json.dumps([c.payload for c in chunk]))
            p.stdin.close()
            procs.append((p, chunk))
    for p, chunk in procs:
        out = p.stdout.read()
        p.wait()
        try:
            res = json.loads(out.split("@@RESULT@@", 1)[1])
        except Exception:
            res = [[{"harness_error": "worker died: " + (p.stderr.read() or "")[-400:]}] for _ in chunk]
        for c, obs in zip(chunk, res):
            c.payload["_obs"] = obs
            finish_case(c)


# --------------------------------------------------------------------------------------------- model line + canonical strings
def var_sx(n):
    return n.split(".")


def order_for(names, orders):
    """the iteration order observed for the name set `names` (falls back to the declared order)"""
    want = set(names)
    for o in orders:
        if set(o) == want:
            return list(o)
    return list(names)


def rebind_kinds(payload):
    """per op index: what `dst = src` does - "rebind" (src holds a function), "kill" (src holds the non-function a
    previous `name = 5` left there: dst loses its function) or "noop" (src is unbound: NameError)"""
    fn = {f: set() for f in FILES}
    nf = {f: set() for f in FILES}
    out = {}
    for idx, o in enumerate(payload["ops"]):
        k, f = o["op"], o.get("file", "t")
        if k == "define":
            fn[f].add(o["name"]); nf[f].discard(o["name"])
        elif k == "del":
            fn[f].discard(o["name"]); nf[f].discard(o["name"])
        elif k == "assign":
            fn[f].discard(o["name"]); nf[f].add(o["name"])
        elif k == "rebind":
            if o["src"] in fn[f]:
                out[idx] = "rebind"
                fn[f].add(o["dst"]); nf[f].discard(o["dst"])
            elif o["src"] in nf[f]:
                out[idx] = "kill"
                fn[f].discard(o["dst"]); nf[f].add(o["dst"])
            else:
                out[idx] = "noop"
        elif k in ("reloadfile", "deletefile", "commentfile", "jend"):
            fn[f].clear(); nf[f].clear()
        elif k == "unloadall":
            for ff in FILES:
                fn[ff].clear(); nf[ff].clear()
    return out


def model_ops(payload):
    """the model's op list; the name lists are given in the iteration order observed on the implementation"""
    obs = payload.get("_obs") or []
    ops = []
    rk = rebind_kinds(payload)
    for idx, o in enumerate(payload["ops"]):
        if idx >= len(obs):
            break
        k = o["op"]
        ctx = FILES[o.get("file", "t")]
        slot_base = SLOT_BASE[o.get("file", "t")]
        if k == "jstart":
            ops.append(["drop", 99])        # creating the (empty) session context changes nothing the model tracks
        elif k == "jend":
            ops.append(["unloadctx", ctx])
        elif k == "define":
            orders = obs[idx].get("orders", []) if isinstance(obs[idx], dict) else []
            # both subsystems keep one queue per @state_trigger (legacy: one TrigInfo per decorator round)
            states = [[var_sx(n) for n in order_for(s, orders)] for s in o["states"]]
            ops.append(["define", ctx, o["name"], states, o["events"], o.get("mqtts", []), o.get("hooks", []),
                        ["pyscript." + s for s in o["services"]], o["su"], o["sd"]])
        elif k == "del":
            ops.append(["del", ctx, o["name"]])
        elif k == "rebind":
            if rk.get(idx) == "kill":
                ops.append(["del", ctx, o["dst"]])       # `dst = src` where src holds a non-function
            else:
                ops.append(["rebind", ctx, o["dst"], o["src"]])
        elif k == "assign":
            ops.append(["del", ctx, o["name"]])          # the name is bound to a non-function: the reference is gone
        elif k == "setup":
            ops.append(["drop", 99])                     # a fresh set-up loads the (trigger-less) files again
        elif k == "put":
            kind = o.get("kind", "dict")
            if kind == "module":
                # the reference lives in the container of the module `hold`: another global context owns it; the
                # binding is looked up in the function's own context
                ops.append(["putx", 40 + o["slot"] + slot_base, ctx, o["name"], HOLD_CTX])
            else:
                ops.append(["put", o["slot"] + slot_base + KIND_BASE[kind], ctx, o["name"]])
        elif k == "drop":
            kind = o.get("kind", "dict")
            ops.append(["drop", (40 + o["slot"] + slot_base) if kind == "module" else
                        (o["slot"] + slot_base + KIND_BASE[kind])])
        elif k in ("reloadfile", "deletefile", "commentfile"):
            ops.append(["unloadctx", ctx])
        elif k == "unloadall":
            ops.append(["unloadall"])
    return ops


def block(st, ev, bus, chan, cnt, own, log, runs, svcs, topics, hooks):
    def j(d):
        return "(" + " ".join(sorted(f"{k}:{v}" for k, v in d.items())) + ")"
    r = " ".join(f"{p}:{','.join(str(x) for x in runs.get(p, []))}" for p in ENTS + EVS + svcs)
    # a function with two @mqtt_trigger on one topic runs twice per message: the model column names each generation
    # once, the multiplicity is checked by the oracle
    r2 = " ".join(f"{p}:{','.join(str(x) for x in sorted(set(runs.get(p, []))))}" for p in topics + hooks)
    r = (r + " " + r2).strip() if r2 else r
    mq, mqs, wh, whs = chan
    return (f"st={j(st)} ev={j(ev)} bus={j(bus)} mq={j(mq)} mqs={j(mqs)} wh={j(wh)} whs={j(whs)} "
            f"svc={j(cnt)} own={j(own)} "
            f"log=({' '.join(sorted(f'{a}:{b}' for a, b in log))}) runs=({r})")


def finish_case(c):
    import common
    obs = c.payload["_obs"]
    if obs and "harness_error" in obs[0]:
        c.impl = "harness:" + obs[0]["harness_error"]
        c.line = None
        return
    if c.payload.get("family") == "startdel":
        c.impl = " | ".join(f"{o['at']}: ev={o['ev']} st={o['st']} svc={o['svc']} old-runs={o['old']}" for o in obs)
        c.line = None
        return
    blocks = []
    for o in obs:
        if o.get("err"):
            blocks.append("raise:" + o["err"])
        else:
            blocks.append(block(o["st"], o["ev"], o["bus"], (o["mq"], o["mqs"], o["wh"], o["whs"]), o["cnt"], o["own"],
                                [tuple(x) for x in o["log"]], o["runs"], svc_names(c.payload), topics_of(c.payload),
                                hooks_of(c.payload)))
    c.impl = " | ".join(blocks)
    sub = "legacy" if c.payload["legacy"] else "new"
    c.line = "C09 " + common.sx(["run", DEL_CONTINUES, sub, model_ops(c.payload), [e.split(".") for e in ENTS], EVS,
                                     svc_names(c.payload), topics_of(c.payload), hooks_of(c.payload)])
    c.nontrivial = any(o["op"] in ("del", "drop", "reloadfile", "deletefile", "unloadall") for o in c.payload["ops"])


# --------------------------------------------------------------------------------------------- the property (oracle)
def ent_of(name):
    return ".".join(name.split(".")[:2])


def oracle(payload):
    """reference semantics: a generation is active while a global variable or a container slot of a loaded context
    references it.  A function whose @service names a service that a live function of ANOTHER global context owns is
    refused (documented error: "can't register service ...; already defined in ..."): it gets no service and no triggers,
    and the name stays with its owner until the owner's last declaring function is gone.
    yields per op: expected tables for the ACTIVE generations only, expected runs per probe, expected services
    (has_service / reference count / owning context), expected startup / shutdown runs – written from the property
    statement, independent of the Lean model"""
    binds = {f: {} for f in FILES}
    slots = {f: {} for f in FILES}
    gens, refused = {}, set()
    xslots = {}       # references held by the container of the module `hold`
    active_prev = set()
    out = []
    legacy = payload["legacy"]
    svcs = svc_names(payload)
    topics, hooks = topics_of(payload), hooks_of(payload)
    multi = len(files_used(payload)) > 1

    def active_set():
        a = set()
        for f in FILES:
            a |= set(binds[f].values()) | set(slots[f].values())
        return a | set(xslots.values())
    rk = rebind_kinds(payload)
    for opidx, o in enumerate(payload["ops"]):
        k = o["op"]
        f = o.get("file", "t")
        log = []
        if k == "define":
            gens[o["gen"]] = o
            # who holds the names this function wants, right now?
            holders = {}
            for g in active_set():
                if g not in refused:
                    for n in gens[g]["services"]:
                        holders[n] = gens[g].get("file", "t")
            if any(n in holders and holders[n] != f for n in o["services"]):
                refused.add(o["gen"])
            binds[f][o["name"]] = o["gen"]
            if o["su"] and o["gen"] not in refused:
                log.append(("startup", o["gen"]))
        elif k == "del":
            binds[f].pop(o["name"], None)
        elif k == "rebind":
            if rk.get(opidx) == "kill":
                binds[f].pop(o["dst"], None)
            elif o["src"] in binds[f]:
                binds[f][o["dst"]] = binds[f][o["src"]]
        elif k == "assign":
            binds[f].pop(o["name"], None)
        elif k == "put":
            if o["name"] in binds[f]:
                kind = o.get("kind", "dict")
                (xslots if kind == "module" else slots[f])[(f, kind, o["slot"])] = binds[f][o["name"]]
        elif k == "drop":
            kind = o.get("kind", "dict")
            (xslots if kind == "module" else slots[f]).pop((f, kind, o["slot"]), None)
        elif k in ("reloadfile", "deletefile", "commentfile", "jend"):
            # the context is stopped: "reloading or removing its file ... deactivates" its functions - also those that
            # a module's container still references
            gone = {g for g, d in gens.items() if d.get("file", "t") == f}
            binds[f].clear()
            slots[f].clear()
            for key in [key for key, g in xslots.items() if g in gone]:
                del xslots[key]
        elif k == "unloadall":
            for ff in FILES:
                binds[ff].clear()
                slots[ff].clear()
            xslots.clear()
        active = active_set()
        stopped = (active_prev | ({o["gen"]} if k == "define" else set())) - active
        for g in sorted(stopped):
            if gens[g]["sd"] and g not in refused:
                log.append(("shutdown", g))
        st, ev, bus = {}, {}, {}
        mq, mqs, wh, whs = {}, {}, {}, {}
        cnt, own = {}, {}
        runs = {p: [] for p in ENTS + EVS + svcs + topics + hooks}
        for g in sorted(active - refused):
            d = gens[g]
            for s in d["states"]:       # one queue per @state_trigger in both subsystems
                for e in {ent_of(n) for n in s}:
                    st[e] = st.get(e, 0) + 1
            for e in ENTS:
                if any(ent_of(n) == e for s in d["states"] for n in s):
                    runs[e].append(g)
            for ty in d["events"]:
                runs[ty].append(g)
                if legacy:
                    ev[ty] = ev.get(ty, 0) + 1
                    bus[ty] = 1
                else:
                    bus[ty] = bus.get(ty, 0) + 1
            # MQTT / webhook: legacy keeps one queue per decorator in Mqtt.notify / Webhook.notify and ONE Home Assistant
            # subscription / registration per key in use; new: one subscription / registration per decorator.  Every
            # decorator naming the key runs the function once per message.
            for key, tab, has in [(t, mq, mqs) for t in d.get("mqtts", [])] + [(h, wh, whs) for h in d.get("hooks", [])]:
                runs[key].append(g)
                if legacy:
                    tab[key] = tab.get(key, 0) + 1
                    has[key] = 1
                else:
                    has[key] = has.get(key, 0) + 1
            for n in d["services"]:
                full = "pyscript." + n
                cnt[full] = cnt.get(full, 0) + 1
                own[full] = FILES[d.get("file", "t")]
                runs[full].append(g)
        for full in runs:
            if full in svcs and len(runs[full]) > 1:
                runs[full] = [max(runs[full])]   # redefinition inside one context: the latest definition answers
        out.append({"st": st, "ev": ev, "bus": bus, "mq": mq, "mqs": mqs, "wh": wh, "whs": whs, "svc": sorted(cnt), "cnt": cnt, "own": own, "log": log, "runs": runs,
                    "final": k == "unloadall" or (k in ("deletefile", "commentfile") and not multi),
                    "active": sorted(active),
                    "unloaded": k == "unloadall"})
        active_prev = active
    return out


def deviations(payload):
    if payload.get("family") == "startdel":
        return startdel_deviations(payload)
    obs = payload.get("_obs") or []
    if obs and "harness_error" in obs[0]:
        return [("harness", obs[0]["harness_error"][:200])]
    devs = []
    exp = oracle(payload)
    gens = {o["gen"]: o for o in payload["ops"] if o["op"] == "define"}
    dup_gens = {g for g, d in gens.items()
                if any(len({ent_of(n) for n in s}) < len(s) for s in d["states"])}
    for idx, (o, x) in enumerate(zip(obs, exp)):
        if o.get("err"):
            devs.append(("raise", f"op {idx}: {o['err']}"))
            continue
        inactive_dups = bool(dup_gens - set(x["active"]))
        for p in ENTS + EVS + svc_names(payload) + topics_of(payload) + hooks_of(payload):
            got, want = o["runs"].get(p, []), ([] if x["unloaded"] else x["runs"][p])
            for g in got:
                if g not in want:
                    devs.append(("ran-inactive", f"op {idx}: occurrence of {p} ran generation {g} which is not referenced"))
            for g in want:
                if g not in got:
                    devs.append(("active-not-run", f"op {idx}: occurrence of {p} did not run the referenced generation {g}"))
                elif got.count(g) != want.count(g):
                    devs.append(("ran-twice", f"op {idx}: occurrence of {p} ran generation {g} {got.count(g)} times, "
                                 f"{want.count(g)} of its decorators name it"))
        for ent in sorted(set(o["st"]) | set(x["st"])):
            a, b = o["st"].get(ent, 0), x["st"].get(ent, 0)
            if a > b:
                hint = " (an unreferenced function watched two names of one entity: notify_del early return?)" \
                    if inactive_dups else ""
                devs.append(("leak:state-subscription",
                             f"op {idx}: {ent} has {a} subscribed queues, the referenced functions account for {b}{hint}"))
            elif a < b:
                devs.append(("missing-subscription", f"op {idx}: {ent} has {a} subscribed queues, expected {b}"))
        if o.get("stray"):
            devs.append(("leak:notify-remove", f"op {idx}: notify_remove keeps callbacks for {o['stray']} without a notify entry"))
        for what in ("ev", "bus", "mq", "mqs", "wh", "whs"):
            for ty in sorted(set(o[what]) | set(x[what])):
                a, b = o[what].get(ty, 0), x[what].get(ty, 0)
                if a > b:
                    devs.append((f"leak:{what}-listener", f"op {idx}: {what}[{ty}] = {a}, expected {b}"))
                elif a < b:
                    devs.append((f"missing:{what}-listener", f"op {idx}: {what}[{ty}] = {a}, expected {b}"))
        if o["svc"] != x["svc"]:
            extra = sorted(set(o["svc"]) - set(x["svc"]))
            devs.append(("leak:service" if extra else "missing:service",
                         f"op {idx}: registered services {o['svc']}, the referenced functions declare {x['svc']}"))
        for n in sorted(set(o["cnt"]) | set(x["cnt"])):
            a, b = o["cnt"].get(n, 0), x["cnt"].get(n, 0)
            if a != b:
                devs.append(("leak:service-count" if a > b else "missing:service-count",
                             f"op {idx}: Function.service_cnt[{n}] = {a}, {b} referenced functions declare it"))
        if o["own"] != x["own"]:
            devs.append(("service-owner", f"op {idx}: Function.service2global_ctx {o['own']} expected {x['own']}"))
        if sorted(tuple(t) for t in o["log"]) != sorted(x["log"]):
            devs.append(("startup-shutdown", f"op {idx}: startup/shutdown runs {o['log']} expected {x['log']}"))
        if x["final"] and o["trigger_tasks"]:
            devs.append(("leak:trigger-task", f"op {idx}: {o['trigger_tasks']} trigger tasks pending after unload"))
        if "starts" in o:
            sleepy = {str(d["gen"]) for d in gens.values() if d.get("sleepy")}
            for g in sorted(sleepy):
                a, b = o["starts"].get(g, 0), o["dones"].get(g, 0)
                if a != b:
                    devs.append(("run-not-finished", f"generation {g}: {a} runs started, {b} finished (a run in "
                                 "progress must complete even when its function is deleted or its file reloaded)"))
    return devs


ORDER = ["harness", "raise", "ran-inactive", "active-not-run", "ran-twice", "missing-subscription", "leak:state-subscription",
         "leak:ev-listener", "leak:bus-listener", "leak:mq-listener", "leak:mqs-listener", "leak:wh-listener",
         "leak:whs-listener", "leak:notify-remove", "missing:ev-listener", "missing:bus-listener", "missing:mq-listener",
         "missing:mqs-listener", "missing:wh-listener", "missing:whs-listener", "leak:service",
         "missing:service", "leak:service-count", "missing:service-count", "service-owner", "startup-shutdown",
         "leak:trigger-task", "run-not-finished"]


def verdict(c):
    devs = deviations(c.payload)
    if not devs:
        return None
    devs.sort(key=lambda d: ORDER.index(d[0]) if d[0] in ORDER else -1)
    c.payload["_deviations"] = sorted({d[0] for d in devs})
    return devs[0][0] + " | " + devs[0][1]


def classify(c, reason):
    return reason.split(" | ")[0]


def replay_cases(obj):
    import common
    p = {k: v for k, v in obj["case"].items() if not k.startswith("_")}
    return [common.Case(p, None, tags=(p.get("family", "replay"), "legacy" if p["legacy"] else "new"))]


def shrink(c, reason):
    """drop single operations while the same kind of deviation remains"""
    import common
    kind = classify(c, reason)
    best = {k: v for k, v in c.payload.items() if not k.startswith("_")}
    budget = 6
    changed = True
    while changed and budget > 0:
        changed = False
        for i in range(len(best["ops"]) - 1, -1, -1):
            if len(best["ops"]) <= 1:
                break
            cand = json.loads(json.dumps(best))
            del cand["ops"][i]
            trial = common.Case(cand, None)
            budget -= 1
            run_impl([trial])
            if any(d[0] == kind for d in deviations(trial.payload)):
                best = {k: v for k, v in trial.payload.items() if not k.startswith("_")}
                changed = True
                break
            if budget <= 0:
                break
    out = common.Case(best, None, tags=c.tags)
    run_impl([out])
    if out.line:
        o = common.drive([out.line])
        out.model = o[0] if o else None
    return out


def extra_coverage(cases):
    ops, devk, fam, subs = {}, {}, {}, {}
    deact = 0
    for c in cases:
        fam[c.payload["family"]] = fam.get(c.payload["family"], 0) + 1
        subs["legacy" if c.payload["legacy"] else "new"] = subs.get("legacy" if c.payload["legacy"] else "new", 0) + 1
        for o in c.payload["ops"]:
            ops[o["op"]] = ops.get(o["op"], 0) + 1
        for k in c.payload.get("_deviations", []):
            devk[k] = devk.get(k, 0) + 1
        try:
            x = oracle(c.payload)
            for a, b in zip(x, x[1:]):
                deact += len(set(a["active"]) - set(b["active"]))
        except Exception:
            pass
    return {"families": fam, "subsystems": subs, "ops": ops, "deactivations_exercised": deact,
            "hash_seeds": HASHSEEDS, "deviation_kinds_seen": devk}


if __name__ == "__main__" and "--worker" in sys.argv:
    _worker_main()
