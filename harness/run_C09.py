"""C09 correspondence + property oracle: function lifetimes on a real Home Assistant instance vs the Lean model
(Model/C09.lean) and vs an independent reference-counting oracle.

The implementation is run in sub-processes with explicit PYTHONHASHSEED values, because the (now fixed) defect C09-F1
depended on the iteration order of a Python set of watched names; the order actually used is read back from the
subscription table and handed to the model (`(define … ((var…)…) …)` lists the names in that order)."""
import json
import os
import subprocess
import sys

PROP = "C09"
RULE = ("operation sequences define / redefine / del / rebind / container put / drop / file reload / file delete / "
        "unload over factory-created closures carrying any mix of @state_trigger (1-2 decorators, names of one entity "
        "as value/.old/.attr and of several entities), @event_trigger, @service, @time_trigger(startup/shutdown); after "
        "each operation gc.collect()+settle, then probe occurrences (every probe entity changes, every probe event "
        "fires); both subsystems; hash seeds 0-7.  Non-trivial: at least one generation is deactivated; distinct by payload.")
ASSUMPTIONS = [
    "CPython finalises an unreferenced EvalFuncVar (refcount 0 -> __del__ / weakref.finalize) before the next "
    "observation: the harness calls gc.collect() and settles the loop after every operation (model: `sweep`)",
    "Home Assistant's bus, state machine and service registry behave as dictionaries; async_listeners() counts listeners",
    "the iteration order of the watched-name set is an input (read back from State.notify), not modelled",
]
TRUSTED = ["harness/run_C09.py (script generator, observation, reference-count oracle)",
           "harness/ha_env.py + vclock.py (Home Assistant test instance on a virtual clock)"]

# deviation flag of the model (`cont` in Model/C09.lean).  1 = State.notify_del `continue`s = the code since the `fix:`
# commit a7dbc5e of /repo (`delContinuesNow`); 0 = the pre-fix loop (`return`, `delContinuesPreFix`, finding C09-F1).
# The correspondence check certifies the value: against a pre-fix tree impl != model AND the oracle reports the leak.
DEL_CONTINUES = 1
CTX = "file.t"
ENTS = ["pyscript.a", "pyscript.b", "pyscript.c"]
EVS = ["ev1", "ev2"]
NAMES = ["f0", "f1", "f2"]
HASHSEEDS = [0, 1, 2, 3, 4, 5, 6, 7]
# pools of watched-name sets: one name per entity (the fragment on which today's code is clean) and several names
# of one entity (value, .old, attribute)
CLEAN_SETS = [["pyscript.a"], ["pyscript.b"], ["pyscript.a", "pyscript.b"], ["pyscript.b", "pyscript.c"],
              ["pyscript.a", "pyscript.b", "pyscript.c"], ["pyscript.c.old"], ["pyscript.a.attr1", "pyscript.c"]]
DUP_SETS = [["pyscript.a", "pyscript.a.old", "pyscript.b"], ["pyscript.a", "pyscript.a.attr1"],
            ["pyscript.b", "pyscript.b.old", "pyscript.a", "pyscript.c"], ["pyscript.c", "pyscript.c.old", "pyscript.c.attr1", "pyscript.a"],
            ["pyscript.a.old", "pyscript.a.attr1", "pyscript.b", "pyscript.c"]]


# --------------------------------------------------------------------------------------------- generators
def gen_define(rng, gen, dup):
    sets = []
    r = rng.random()
    if r < 0.8:
        sets.append(list(rng.choice(DUP_SETS if (dup and rng.random() < 0.6) else CLEAN_SETS)))
        if rng.random() < 0.2:
            extra = list(rng.choice(CLEAN_SETS))
            used = {".".join(n.split(".")[:2]) for n in sets[0]}
            if not any(".".join(n.split(".")[:2]) in used for n in extra):
                sets.append(extra)
    events = [rng.choice(EVS)] if rng.random() < 0.45 else []
    services = [f"s{gen}"] if rng.random() < 0.35 else []
    su = rng.random() < 0.25
    sd = rng.random() < 0.25
    if not sets and not events and not services and not su and not sd:
        events = [rng.choice(EVS)]
    return {"op": "define", "name": rng.choice(NAMES), "gen": gen, "states": sets, "events": events,
            "services": services, "su": su, "sd": sd}


def gen_case(rng, family, legacy, hashseed):
    dup = family == "dup"
    ops = []
    gen = 0
    n = rng.choice([4, 5, 6, 7, 8])
    for i in range(n):
        r = rng.random()
        if i == 0 or r < 0.40:
            ops.append(gen_define(rng, gen, dup))
            gen += 1
        elif r < 0.58:
            ops.append({"op": "del", "name": rng.choice(NAMES)})
        elif r < 0.70:
            a, b = rng.sample(NAMES, 2)
            ops.append({"op": "rebind", "dst": a, "src": b})
        elif r < 0.82:
            ops.append({"op": "put", "slot": rng.choice([0, 1]), "name": rng.choice(NAMES)})
        elif r < 0.92:
            ops.append({"op": "drop", "slot": rng.choice([0, 1])})
        else:
            ops.append({"op": "reloadfile"})
    ops.append({"op": rng.choice(["unloadall", "unloadall", "deletefile", "reloadfile"])})
    return {"family": family, "legacy": legacy, "hashseed": hashseed, "ops": ops}


def D(name, gen, states=(), events=(), services=(), su=False, sd=False):
    return {"op": "define", "name": name, "gen": gen, "states": [list(s) for s in states], "events": list(events),
            "services": list(services), "su": su, "sd": sd}


def fixed_cases():
    out = []
    for legacy in (True, False):
        for hs in HASHSEEDS:
            # the witness of C09_cex_two_names_one_entity / C09_refinement_cex
            out.append({"family": "fixed", "legacy": legacy, "hashseed": hs, "ops": [
                D("f0", 0, [["pyscript.a", "pyscript.a.old", "pyscript.b"]]), {"op": "del", "name": "f0"},
                {"op": "unloadall"}]})
        # redefinition, closures kept in containers, rebinding, startup/shutdown, services
        out.append({"family": "fixed", "legacy": legacy, "hashseed": 0, "ops": [
            D("f0", 0, [["pyscript.a"]], ["ev1"], ["s0"], su=True, sd=True),
            D("f1", 1, [["pyscript.b", "pyscript.c"]], [], [], su=False, sd=True),
            {"op": "put", "slot": 0, "name": "f0"}, {"op": "del", "name": "f0"},
            D("f1", 2, [["pyscript.c"]], ["ev1"], ["s2"]),
            {"op": "rebind", "dst": "f2", "src": "f1"}, {"op": "del", "name": "f1"},
            {"op": "drop", "slot": 0}, {"op": "reloadfile"},
            D("f0", 3, [["pyscript.a", "pyscript.b"]], ["ev2"], [], su=True),
            {"op": "deletefile"}]})
    return out


def gen_cases(rng, tier, search):
    import common
    n = 32 if tier == "quick" else 600
    if search:
        n *= 3
    cases = []
    if not search:
        for p in fixed_cases():
            cases.append(common.Case(p, None, tags=(p["family"], "legacy" if p["legacy"] else "new")))
    for i in range(n):
        family = "clean" if i % 2 == 0 else "dup"
        base = gen_case(rng, family, True, HASHSEEDS[i % len(HASHSEEDS)])
        for legacy in (True, False):      # "both subsystems": every generated sequence runs under both
            p = json.loads(json.dumps(base))
            p["legacy"] = legacy
            cases.append(common.Case(p, None, tags=(family, "legacy" if legacy else "new")))
    return cases


# --------------------------------------------------------------------------------------------- the generated script
def script_text(payload):
    lines = ["store = {}", "", "def mk(k):"]
    defs = [o for o in payload["ops"] if o["op"] == "define"]
    for d in defs:
        lines.append(f"    if k == {d['gen']}:")
        for names in d["states"]:
            expr = " and ".join(f"{n} != 'never'" for n in names)
            lines.append(f"        @state_trigger(\"{expr}\")")
        for ev in d["events"]:
            lines.append(f"        @event_trigger('{ev}')")
        for s in d["services"]:
            lines.append(f"        @service('pyscript.{s}')")
        tt = [x for x, flag in (("startup", d["su"]), ("shutdown", d["sd"])) if flag]
        if tt:
            lines.append(f"        @time_trigger({', '.join(repr(x) for x in tt)})")
        lines.append("        def fn(**kw):")
        lines.append(f"            rec('run', {d['gen']}, kw.get('trigger_type'), kw.get('trigger_time'), "
                     "kw.get('var_name'), kw.get('event_type'))")
        lines.append("        return fn")
    if not defs:
        lines.append("    return None")
    lines += ["", "@service", "def op(what=None, k=None, name=None, src=None, slot=None):", "    global f0, f1, f2"]
    lines.append("    if what == 'define':")
    lines.append("        fn = mk(k)")
    for n in NAMES:
        lines.append(f"        if name == '{n}':")
        lines.append(f"            {n} = fn")
    lines.append("    elif what == 'del':")
    for n in NAMES:
        lines.append(f"        if name == '{n}':")
        lines.append(f"            del {n}")
    lines.append("    elif what == 'rebind':")
    for s in NAMES:
        lines.append(f"        if src == '{s}':")
        lines.append(f"            v = {s}")
    for n in NAMES:
        lines.append(f"        if name == '{n}':")
        lines.append(f"            {n} = v")
    lines.append("    elif what == 'put':")
    for n in NAMES:
        lines.append(f"        if name == '{n}':")
        lines.append(f"            store[slot] = {n}")
    lines.append("    elif what == 'drop':")
    lines.append("        store.pop(slot, None)")
    return "\n".join(lines) + "\n"


# --------------------------------------------------------------------------------------------- running the implementation
def _run_one(payload):
    import gc
    import asyncio
    import common  # noqa: F401
    from ha_env import run_ha
    from custom_components.pyscript.state import State
    from custom_components.pyscript.event import Event
    obs = []

    async def body(env):
        hass = env.hass
        root = os.path.join(env.cfgdir, "pyscript")
        src = script_text(payload)
        counter = [0]
        for e in ENTS:
            hass.states.async_set(e, "0", {"attr1": 0})
        await env.settle(0.01)

        def write_file(bump):
            p = os.path.join(root, "t.py")
            os.makedirs(root, exist_ok=True)
            with open(p, "w") as f:
                f.write(src)
            os.utime(p, (1000000 + bump, 1000000 + bump))
        write_file(0)
        await env.reload()
        await env.settle(0.01)
        seen_q = set()
        keep = []
        nreload = 0
        alive = True
        unloaded = False
        for o in payload["ops"]:
            env.records.clear()
            env.log.clear()
            k = o["op"]
            err = None
            try:
                if k == "define":
                    await env.call("pyscript", "op", {"what": "define", "k": o["gen"], "name": o["name"]})
                elif k == "del":
                    await env.call("pyscript", "op", {"what": "del", "name": o["name"]})
                elif k == "rebind":
                    await env.call("pyscript", "op", {"what": "rebind", "name": o["dst"], "src": o["src"]})
                elif k == "put":
                    await env.call("pyscript", "op", {"what": "put", "slot": o["slot"], "name": o["name"]})
                elif k == "drop":
                    await env.call("pyscript", "op", {"what": "drop", "slot": o["slot"]})
                elif k == "reloadfile":
                    nreload += 1
                    write_file(nreload)
                    await env.reload()
                elif k == "deletefile":
                    os.unlink(os.path.join(root, "t.py"))
                    await env.reload()
                    alive = False
                elif k == "unloadall":
                    entries = hass.config_entries.async_entries("pyscript")
                    for entry in entries:
                        await hass.config_entries.async_unload(entry.entry_id)
                    alive = False
                    unloaded = True
            except Exception as e:  # an exception raised by the service call is an outcome
                err = type(e).__name__
            await env.settle(0.01)
            gc.collect()
            await env.settle(0.01)
            # order in which the new queues' name sets iterate
            orders = []
            for ent, qs in State.notify.items():
                for q, names in qs.items():
                    if id(q) not in seen_q:
                        seen_q.add(id(q))
                        keep.append(q)
                        orders.append(list(names) if isinstance(names, (set, list, tuple)) else [names])
            st = {ent: len(qs) for ent, qs in State.notify.items() if len(qs)}
            ev = {ty: len(qs) for ty, qs in Event.notify.items() if len(qs)}
            lis = hass.bus.async_listeners()
            bus = {ty: lis.get(ty, 0) for ty in EVS if lis.get(ty, 0)}
            svc = sorted(s for s in hass.services.async_services().get("pyscript", {}) if s.startswith("s")
                         and s[1:].isdigit())
            log = [(r[4], r[2]) for r in env.records if r[1] == "run" and r[3] == "time"]
            env.records.clear()
            runs = {}
            if not unloaded:
                # all probe occurrences at once; every run reports which variable / event type triggered it
                for e in ENTS:
                    counter[0] += 1
                    hass.states.async_set(e, str(counter[0]), {"attr1": counter[0]})
                for ty in EVS:
                    hass.bus.async_fire(ty, {"x": 1})
                await env.settle(0.01)
                for e in ENTS:
                    runs[e] = sorted(r[2] for r in env.records if r[1] == "run" and r[3] == "state" and r[5] == e)
                for ty in EVS:
                    runs[ty] = sorted(r[2] for r in env.records if r[1] == "run" and r[3] == "event" and r[6] == ty)
                env.records.clear()
            else:
                runs = {p: [] for p in ENTS + EVS}
            tasks = [t for t in asyncio.all_tasks() if not t.done() and
                     any(s in repr(t.get_coro()) for s in ("trigger_watch", "_cycle"))]
            errs = [l[2][-160:] for l in env.log if l[1] == "ERROR"]
            obs.append({"st": st, "ev": ev, "bus": bus, "svc": svc, "log": log, "runs": runs, "orders": orders,
                        "trigger_tasks": len(tasks), "err": err, "errors": errs[:3]})
            if not alive:
                break
        return obs

    try:
        return run_ha({}, bool(payload["legacy"]), body)
    except Exception as e:  # pragma: no cover
        import traceback
        return [{"harness_error": type(e).__name__ + ": " + str(e)[:300] + traceback.format_exc()[-600:]}]


def _worker_main():
    """sub-process entry: JSON list of payloads on stdin -> JSON list of observations on stdout"""
    import logging
    sys.path.insert(0, os.path.dirname(os.path.abspath(__file__)))
    payloads = json.loads(sys.stdin.read())
    out = [_run_one(p) for p in payloads]
    logging.disable(logging.CRITICAL)
    sys.stdout.write("\n@@RESULT@@" + json.dumps(out))
    sys.stdout.flush()
    os._exit(0)


def run_impl(cases):
    todo = [c for c in cases if c.impl is None]
    groups = {}
    for c in todo:
        groups.setdefault(c.payload["hashseed"], []).append(c)
    procs = []
    for hs, cs in groups.items():
        # one process per hash seed (two when there is a lot to do): start-up of Home Assistant dominates
        k = 1 if len(cs) <= 24 else 2
        chunks = [cs[i::k] for i in range(k)]
        for chunk in chunks:
            if not chunk:
                continue
            env = dict(os.environ, PYTHONHASHSEED=str(hs))
            p = subprocess.Popen([sys.executable, os.path.abspath(__file__), "--worker"], stdin=subprocess.PIPE,
                                 stdout=subprocess.PIPE, stderr=subprocess.PIPE, env=env, text=True)
            p.stdin.write(json.dumps([c.payload for c in chunk]))
            p.stdin.close()
            procs.append((p, chunk))
    for p, chunk in procs:
        out = p.stdout.read()
        p.wait()
        try:
            res = json.loads(out.split("@@RESULT@@", 1)[1])
        except Exception:
            res = [[{"harness_error": "worker died: " + (p.stderr.read() or "")[-400:]}] for _ in chunk]
        for c, obs in zip(chunk, res):
            c.payload["_obs"] = obs
            finish_case(c)


# --------------------------------------------------------------------------------------------- model line + canonical strings
def var_sx(n):
    return n.split(".")


def order_for(names, orders):
    """the iteration order observed for the name set `names` (falls back to the declared order)"""
    want = set(names)
    for o in orders:
        if set(o) == want:
            return list(o)
    return list(names)


def model_ops(payload):
    """the model's op list; the name lists are given in the iteration order observed on the implementation"""
    obs = payload.get("_obs") or []
    ops = []
    for idx, o in enumerate(payload["ops"]):
        if idx >= len(obs):
            break
        k = o["op"]
        if k == "define":
            orders = obs[idx].get("orders", []) if isinstance(obs[idx], dict) else []
            # both subsystems keep one queue per @state_trigger (legacy: one TrigInfo per decorator round)
            states = [[var_sx(n) for n in order_for(s, orders)] for s in o["states"]]
            ops.append(["define", CTX, o["name"], states, o["events"], ["pyscript." + s for s in o["services"]],
                        o["su"], o["sd"]])
        elif k == "del":
            ops.append(["del", CTX, o["name"]])
        elif k == "rebind":
            ops.append(["rebind", CTX, o["dst"], o["src"]])
        elif k == "put":
            ops.append(["put", o["slot"], CTX, o["name"]])
        elif k == "drop":
            ops.append(["drop", o["slot"]])
        elif k in ("reloadfile", "deletefile"):
            ops.append(["unloadctx", CTX])
        elif k == "unloadall":
            ops.append(["unloadall"])
    return ops


def block(st, ev, bus, svc, log, runs):
    def j(d):
        return "(" + " ".join(sorted(f"{k}:{v}" for k, v in d.items())) + ")"
    r = " ".join(f"{p}:{','.join(str(x) for x in runs.get(p, []))}" for p in ENTS + EVS)
    return (f"st={j(st)} ev={j(ev)} bus={j(bus)} svc=({' '.join(sorted('pyscript.' + s for s in svc))}) "
            f"log=({' '.join(sorted(f'{a}:{b}' for a, b in log))}) runs=({r})")


def finish_case(c):
    import common
    obs = c.payload["_obs"]
    if obs and "harness_error" in obs[0]:
        c.impl = "harness:" + obs[0]["harness_error"]
        c.line = None
        return
    blocks = []
    for o in obs:
        if o.get("err"):
            blocks.append("raise:" + o["err"])
        else:
            blocks.append(block(o["st"], o["ev"], o["bus"], o["svc"], [tuple(x) for x in o["log"]], o["runs"]))
    c.impl = " | ".join(blocks)
    sub = "legacy" if c.payload["legacy"] else "new"
    c.line = "C09 " + common.sx(["run", DEL_CONTINUES, sub, model_ops(c.payload), [e.split(".") for e in ENTS], EVS])
    c.nontrivial = any(o["op"] in ("del", "drop", "reloadfile", "deletefile", "unloadall") for o in c.payload["ops"])


# --------------------------------------------------------------------------------------------- the property (oracle)
def ent_of(name):
    return ".".join(name.split(".")[:2])


def oracle(payload):
    """reference semantics: a generation is active while a global variable or a container slot references it.
    yields per op: expected tables for the ACTIVE generations only, expected runs per probe, expected startup /
    shutdown runs – written from the property statement, independent of the Lean model"""
    binds, slots, gens = {}, {}, {}
    active_prev = set()
    out = []
    legacy = payload["legacy"]
    for o in payload["ops"]:
        k = o["op"]
        log = []
        if k == "define":
            gens[o["gen"]] = o
            binds[o["name"]] = o["gen"]
            if o["su"]:
                log.append(("startup", o["gen"]))
        elif k == "del":
            binds.pop(o["name"], None)
        elif k == "rebind":
            if o["src"] in binds:
                binds[o["dst"]] = binds[o["src"]]
        elif k == "put":
            if o["name"] in binds:
                slots[o["slot"]] = binds[o["name"]]
        elif k == "drop":
            slots.pop(o["slot"], None)
        elif k in ("reloadfile", "deletefile", "unloadall"):
            binds.clear()
            slots.clear()
        active = set(binds.values()) | set(slots.values())
        stopped = (active_prev | ({o["gen"]} if k == "define" else set())) - active
        for g in sorted(stopped):
            if gens[g]["sd"]:
                log.append(("shutdown", g))
        st, ev, bus, svc = {}, {}, {}, []
        runs = {p: [] for p in ENTS + EVS}
        for g in sorted(active):
            d = gens[g]
            for s in d["states"]:       # one queue per @state_trigger in both subsystems
                for e in {ent_of(n) for n in s}:
                    st[e] = st.get(e, 0) + 1
            for e in ENTS:
                if any(ent_of(n) == e for s in d["states"] for n in s):
                    runs[e].append(g)
            for ty in d["events"]:
                runs[ty].append(g)
                if legacy:
                    ev[ty] = ev.get(ty, 0) + 1
                    bus[ty] = 1
                else:
                    bus[ty] = bus.get(ty, 0) + 1
            svc += d["services"]
        out.append({"st": st, "ev": ev, "bus": bus, "svc": sorted(svc), "log": log, "runs": runs,
                    "final": k in ("deletefile", "unloadall"), "active": sorted(active), "unloaded": k == "unloadall"})
        active_prev = active
    return out


def deviations(payload):
    obs = payload.get("_obs") or []
    if obs and "harness_error" in obs[0]:
        return [("harness", obs[0]["harness_error"][:200])]
    devs = []
    exp = oracle(payload)
    gens = {o["gen"]: o for o in payload["ops"] if o["op"] == "define"}
    dup_gens = {g for g, d in gens.items()
                if any(len({ent_of(n) for n in s}) < len(s) for s in d["states"])}
    for idx, (o, x) in enumerate(zip(obs, exp)):
        if o.get("err"):
            devs.append(("raise", f"op {idx}: {o['err']}"))
            continue
        inactive_dups = bool(dup_gens - set(x["active"]))
        for p in ENTS + EVS:
            got, want = o["runs"].get(p, []), ([] if x["unloaded"] else x["runs"][p])
            for g in got:
                if g not in want:
                    devs.append(("ran-inactive", f"op {idx}: occurrence of {p} ran generation {g} which is not referenced"))
            for g in want:
                if g not in got:
                    devs.append(("active-not-run", f"op {idx}: occurrence of {p} did not run the referenced generation {g}"))
                elif got.count(g) != 1:
                    devs.append(("ran-twice", f"op {idx}: occurrence of {p} ran generation {g} {got.count(g)} times"))
        for ent in sorted(set(o["st"]) | set(x["st"])):
            a, b = o["st"].get(ent, 0), x["st"].get(ent, 0)
            if a > b:
                hint = " (an unreferenced function watched two names of one entity: notify_del early return?)" \
                    if inactive_dups else ""
                devs.append(("leak:state-subscription",
                             f"op {idx}: {ent} has {a} subscribed queues, the referenced functions account for {b}{hint}"))
            elif a < b:
                devs.append(("missing-subscription", f"op {idx}: {ent} has {a} subscribed queues, expected {b}"))
        for what in ("ev", "bus"):
            for ty in sorted(set(o[what]) | set(x[what])):
                a, b = o[what].get(ty, 0), x[what].get(ty, 0)
                if a > b:
                    devs.append((f"leak:{what}-listener", f"op {idx}: {what}[{ty}] = {a}, expected {b}"))
                elif a < b:
                    devs.append((f"missing:{what}-listener", f"op {idx}: {what}[{ty}] = {a}, expected {b}"))
        if o["svc"] != x["svc"]:
            extra = sorted(set(o["svc"]) - set(x["svc"]))
            devs.append(("leak:service" if extra else "missing:service",
                         f"op {idx}: services {o['svc']} expected {x['svc']}"))
        if sorted(tuple(t) for t in o["log"]) != sorted(x["log"]):
            devs.append(("startup-shutdown", f"op {idx}: startup/shutdown runs {o['log']} expected {x['log']}"))
        if x["final"] and o["trigger_tasks"]:
            devs.append(("leak:trigger-task", f"op {idx}: {o['trigger_tasks']} trigger tasks pending after unload"))
    return devs


ORDER = ["harness", "raise", "ran-inactive", "active-not-run", "ran-twice", "missing-subscription", "leak:state-subscription",
         "leak:ev-listener", "leak:bus-listener", "missing:ev-listener", "missing:bus-listener", "leak:service",
         "missing:service", "startup-shutdown", "leak:trigger-task"]


def verdict(c):
    devs = deviations(c.payload)
    if not devs:
        return None
    devs.sort(key=lambda d: ORDER.index(d[0]) if d[0] in ORDER else -1)
    c.payload["_deviations"] = sorted({d[0] for d in devs})
    return devs[0][0] + " | " + devs[0][1]


def classify(c, reason):
    return reason.split(" | ")[0]


def replay_cases(obj):
    import common
    p = {k: v for k, v in obj["case"].items() if not k.startswith("_")}
    return [common.Case(p, None, tags=(p.get("family", "replay"), "legacy" if p["legacy"] else "new"))]


def shrink(c, reason):
    """drop single operations while the same kind of deviation remains"""
    import common
    kind = classify(c, reason)
    best = {k: v for k, v in c.payload.items() if not k.startswith("_")}
    budget = 6
    changed = True
    while changed and budget > 0:
        changed = False
        for i in range(len(best["ops"]) - 1, -1, -1):
            if len(best["ops"]) <= 1:
                break
            cand = json.loads(json.dumps(best))
            del cand["ops"][i]
            trial = common.Case(cand, None)
            budget -= 1
            run_impl([trial])
            if any(d[0] == kind for d in deviations(trial.payload)):
                best = {k: v for k, v in trial.payload.items() if not k.startswith("_")}
                changed = True
                break
            if budget <= 0:
                break
    out = common.Case(best, None, tags=c.tags)
    run_impl([out])
    if out.line:
        o = common.drive([out.line])
        out.model = o[0] if o else None
    return out


def extra_coverage(cases):
    ops, devk, fam, subs = {}, {}, {}, {}
    deact = 0
    for c in cases:
        fam[c.payload["family"]] = fam.get(c.payload["family"], 0) + 1
        subs["legacy" if c.payload["legacy"] else "new"] = subs.get("legacy" if c.payload["legacy"] else "new", 0) + 1
        for o in c.payload["ops"]:
            ops[o["op"]] = ops.get(o["op"], 0) + 1
        for k in c.payload.get("_deviations", []):
            devk[k] = devk.get(k, 0) + 1
        try:
            x = oracle(c.payload)
            for a, b in zip(x, x[1:]):
                deact += len(set(a["active"]) - set(b["active"]))
        except Exception:
            pass
    return {"families": fam, "subsystems": subs, "ops": ops, "deactivations_exercised": deact,
            "hash_seeds": HASHSEEDS, "deviation_kinds_seen": devk}


if __name__ == "__main__" and "--worker" in sys.argv:
    _worker_main()
