"""C18 correspondence: script errors are contained and attributed to the right file, function, line.

Family "tb" (interpreter level, real files, real GlobalContextMgr.load_file / module_import / EvalFunc.call):
  generated call chains of depth 1-5 across functions, methods, decorator wrappers, comprehensions, nested and
  multi-line call expressions, an imported module; a fault of a chosen exception kind at a chosen statement position.
  impl   = the (file, function, line) entries of EvalExceptionFormatter(exc).stack (+ chained causes) and the
           formatted last line (type: message);
  model  = `fmt` of the REAL frame-kind sequence dumped from exc.__traceback__ (classified the way _build_stack
           classifies frames) – must equal pyscript's own stack, and the frame grammar must accept the sequence;
  oracle = CPython executing the same files: traceback.extract_tb restricted to the script files.
Family "entry" (real Home Assistant, both decorator subsystems): a fault reaches every kind of entry point (trigger
  function, trigger expression, @state_active expression, service, task.create, done-callback, load time of a file
  and of an imported module); observed: error records on the script's loggers, the triples parsed from the logged
  traceback, that a later occurrence is still served, that other files still load.
"""
import asyncio
import os
import re
import shutil
import sys
import tempfile
import traceback
import types

import common
from common import Case, sx

PROP = "C18"
RULE = ("tb family: call chains f0->..->fk (k<=5) whose links are drawn from {expression statement, assignment, return, "
        "if/for/while/try-finally bodies, nested call argument, multi-line call, binop/augassign/compare/ifexp/subscript/"
        "dict/f-string operands, list comprehension, method call on an instance, decorator wrapper, module function}, a "
        "fault drawn from {ZeroDivisionError, KeyError, IndexError, TypeError, ValueError, AttributeError, NameError, "
        "AssertionError, user exception class, RuntimeError, `raise .. from ..`, exception raised while handling another, "
        "`raise .. from None` inside a handler (suppressed context), "
        "OverflowError, and three faults whose innermost node spans several lines} at every statement position of the deepest function or of an "
        "intermediate one, entered by call_func, by a direct EvalFunc.call or at file load; direct recursion and a failing "
        "module import at load time as fixed shapes.  entry family: the same fault kinds through 8 entry-point kinds x 2 "
        "subsystems, plus trigger expressions that raise on their first (start-up) evaluation with state_hold_false / "
        "state_check_now / both / neither.  Distinct by payload; non-trivial when the exception crosses at least one script frame.")
ASSUMPTIONS = [
    "the frame-kind sequence is read off exc.__traceback__ by the harness with the same tests _build_stack uses "
    "(co_filename, co_qualname, first AST-valued local)",
    "records on logger custom_components.pyscript.eval are the DEBUG-only duplicate emitted by log_exception and are not "
    "counted",
    "column offsets and the source-line text of traceback entries are not compared",
]
TRUSTED = ["harness/run_C18.py (generator, frame dump, log parsing)", "CPython's traceback module as the oracle",
           "modelled not verified: the logging framework, Home Assistant's service/event dispatch"]

FAULTS = {
    "zerodiv": (["1 / 0"], "ZeroDivisionError"),
    "key": (["{}['k']"], "KeyError"),
    "index": (["[][1]"], "IndexError"),
    "type": (["1 + 'a'"], "TypeError"),
    "value": (["int('x')"], "ValueError"),
    "attr": (["None.foo"], "AttributeError"),
    "name": (["undefined_name_zz"], "NameError"),
    "assert": (["assert False, 'no'"], "AssertionError"),
    "user": (["raise MyErr('boom')"], "MyErr"),
    "runtime": (["raise RuntimeError('r')"], "RuntimeError"),
    "from": (["raise RuntimeError('r') from ValueError('v')"], "RuntimeError"),
    "from_caught": (["try:", "    1 / 0", "except ZeroDivisionError as exc0:", "    raise KeyError('k') from exc0"], "KeyError"),
    "context": (["try:", "    1 / 0", "except ZeroDivisionError:", "    {}['x']"], "KeyError"),
    # the context is suppressed: Python prints ONE traceback
    "from_none": (["try:", "    1 / 0", "except ZeroDivisionError:", "    raise KeyError('k') from None"], "KeyError"),
    "from_none_nested": (["try:", "    try:", "        1 / 0", "    except ZeroDivisionError as exc0:",
                          "        raise ValueError('v') from exc0", "except ValueError:", "    raise KeyError('k') from None"],
                         "KeyError"),
    "overflow": (["10.0 ** 1000"], "OverflowError"),
    # faults whose innermost AST node spans several lines (Python names the node's first line)
    "zerodiv_ml": (["y = (1 /", "     0)"], "ZeroDivisionError"),
    "arity_ml": (["y = ident2(", "    1,", ")"], "TypeError"),
    "key_ml": (["y = {", "    1: 2,", "}[", "    5", "]"], "KeyError"),
}
LINKS = ["expr", "assign", "return", "if", "for", "while", "tryfinally", "nested", "multiline", "binop", "augassign",
         "compare", "ifexp", "subscript", "dict", "fstring", "listcomp", "method", "decorated", "assert", "boolop"]


def link_lines(kind, call):
    """statements of a function body that call `call` (a call expression text)"""
    if kind == "expr":
        return [call]
    if kind == "assign":
        return [f"y = {call}"]
    if kind == "return":
        return [f"return {call}"]
    if kind == "if":
        return ["if x >= 0:", f"    {call}"]
    if kind == "for":
        return ["for i in range(1):", f"    {call}"]
    if kind == "while":
        return ["n = 0", "while n < 1:", "    n += 1", f"    {call}"]
    if kind == "tryfinally":
        return ["try:", f"    {call}", "finally:", "    z = 1"]
    if kind == "nested":
        return [f"y = ident({call})"]
    if kind == "multiline":
        return ["y = ident2(", "    1,", f"    {call},", ")"]
    if kind == "binop":
        return [f"y = 1 + {call}"]
    if kind == "augassign":
        return ["y = 0", f"y += {call}"]
    if kind == "compare":
        return [f"y = 0 < {call}"]
    if kind == "ifexp":
        return [f"y = {call} if x >= 0 else 0"]
    if kind == "subscript":
        return [f"y = [5, 6][{call}]"]
    if kind == "dict":
        return ["y = {", f"    1: {call},", "}"]
    if kind == "fstring":
        return [f"y = f'{{{call}}}'"]
    if kind == "listcomp":
        return [f"ys = [{call} for _ in range(1)]"]
    if kind == "assert":
        return [f"assert {call} == 0"]
    if kind == "boolop":
        return [f"y = x >= 0 and {call}"]
    return [call]


PRELUDE = ["class MyErr(Exception):", "    pass", "", "def ident(v):", "    return v", "", "def ident2(a, b):", "    return b", "",
           "def deco(fn):", "    def wrapper(x):", "        return fn(x)", "    return wrapper", ""]


def build_tb_case(rng, depth, links, fault, pos, nfill, fault_level, nmod, entry, same_name=False):
    """-> payload with the two source files.  Functions f0..f{depth-1}; the last `nmod` of them live in modules/m.py.
    same_name: the first module function carries the NAME of its caller in a.py (two adjacent activations with one
    function name in different files - Python reports both)"""
    files = {"a": list(PRELUDE), "m": list(PRELUDE)}
    names = []
    for i in range(depth):
        where = "m" if i >= depth - nmod else "a"
        names.append((where, f"f{i}"))
    same_name = bool(same_name and nmod >= 1 and depth - nmod >= 1)
    if same_name:
        j = depth - nmod
        names[j] = ("m", names[j - 1][1])
    for i in reversed(range(depth)):
        where, fn = names[i]
        kind = links[i]
        body = []
        is_last = i == depth - 1
        fill = [f"a{j} = {j}" for j in range(nfill)]
        if i < depth - 1:
            nwhere, nfn = names[i + 1]
            nkind = links[i + 1]
            if nkind == "method":
                tgt = f"K{i + 1}().{nfn}(x)" if nwhere == where else f"m.K{i + 1}().{nfn}(x)"
            else:
                tgt = f"{nfn}(x)" if nwhere == where else f"m.{nfn}(x)"
            call = link_lines(kind if kind not in ("method", "decorated") else "expr", tgt)
        else:
            call = []
        if i == fault_level:
            p = min(pos, len(fill))
            body = fill[:p] + FAULTS[fault][0] + fill[p:] + call
        else:
            body = fill + call
        if not body:
            body = ["pass"]
        if kind == "method":
            files[where] += [f"class K{i}:", f"    def {fn}(self, x):"] + ["        " + b for b in body] + [""]
        else:
            if kind == "decorated":
                files[where].append("@deco")
            files[where] += [f"def {fn}(x):"] + ["    " + b for b in body] + [""]
    first = names[0]
    kind0 = links[0]
    call0 = (f"K0().f0(1)" if kind0 == "method" else "f0(1)")
    if first[0] == "m":
        call0 = "m." + call0
        if entry == "direct":
            entry = "call"          # f0 lives in the module: reached through the call expression m.f0(1)
    src_a = (["import m"] if nmod else []) + files["a"]
    if entry == "load":
        src_a += ["loaded_marker = 1", call0]
    src_m = files["m"]
    return {"kind": "tb", "entry": entry, "call0": call0, "src": {"a.py": "\n".join(src_a) + "\n",
            "modules/m.py": "\n".join(src_m) + "\n"}, "depth": depth, "links": links, "fault": fault,
            "fault_level": fault_level, "nmod": nmod, "same_name": same_name}


def fixed_tb_cases():
    out = []
    # two adjacent functions with one name in DIFFERENT files: both frames must be reported
    out.append({"kind": "tb", "entry": "call", "call0": "f0(1)", "src": {
        "a.py": "import m\n\ndef check(x):\n    y = 1\n    return m.check(x)\n\ndef f0(x):\n    return check(x)\n",
        "modules/m.py": "def check(x):\n    z = 2\n    return 1 / 0\n"},
        "depth": 3, "links": ["same-name-other-file"], "fault": "zerodiv", "fault_level": 2, "nmod": 1,
        "tag": "same-name-other-file"})
    # direct recursion (finding #21)
    src = "def rec1(n):\n    if n == 0:\n        raise ValueError('deep')\n    rec1(n - 1)\n\ndef f0(x):\n    rec1(2)\n"
    out.append({"kind": "tb", "entry": "call", "call0": "f0(1)", "src": {"a.py": src, "modules/m.py": "\n"},
                "depth": 4, "links": ["recursion"], "fault": "value", "fault_level": 3, "nmod": 0, "tag": "recursion"})
    src = "class K:\n    def run(self, x):\n        return L().run(x)\nclass L:\n    def run(self, x):\n        return 1 / 0\n" \
          "def f0(x):\n    K().run(x)\n"
    out.append({"kind": "tb", "entry": "call", "call0": "f0(1)", "src": {"a.py": src, "modules/m.py": "\n"},
                "depth": 3, "links": ["same-name-methods"], "fault": "zerodiv", "fault_level": 2, "nmod": 0,
                "tag": "same-name"})
    # a module that fails while it is imported at load time (finding: frames attributed to the importer)
    out.append({"kind": "tb", "entry": "load", "call0": "", "src": {"a.py": "x = 1\nimport m\ny = 2\n",
                "modules/m.py": "z = 1\n\n\ndef g():\n    return 1 / 0\n\ng()\n"},
                "depth": 2, "links": ["nested-load"], "fault": "zerodiv", "fault_level": 1, "nmod": 1, "tag": "nested-load"})
    # the same from inside a function (lazy import)
    out.append({"kind": "tb", "entry": "call", "call0": "f0(1)", "src": {"a.py": "def f0(x):\n    import m\n    return 1\n",
                "modules/m.py": "z = 1\n\n1 / 0\n"},
                "depth": 2, "links": ["nested-load"], "fault": "zerodiv", "fault_level": 1, "nmod": 1, "tag": "nested-load"})
    # wrong number of arguments: the error belongs to the caller's line
    out.append({"kind": "tb", "entry": "call", "call0": "f0(1)", "src": {"a.py": "def g(a, b):\n    return a\n\ndef f0(x):\n    y = 1\n    g(x)\n",
                "modules/m.py": "\n"}, "depth": 1, "links": ["arity"], "fault": "type", "fault_level": 0, "nmod": 0,
                "tag": "arity"})
    return out


EXPR_FAULTS = {"zerodiv": "1 / 0", "key": "{}['k']", "index": "[][1]", "type": "1 + 'a'", "value": "int('x')",
               "attr": "None.foo", "name": "undefined_name_zz", "overflow": "10.0 ** 1000"}
SHAPES = ["line1-load", "lastline-nonl", "backslash", "decorator-expr", "default-arg", "class-body", "class-body-load",
          "listcomp", "dictcomp", "setcomp", "genexpr", "fstring", "lambda", "nested-other-file", "method-default"]


def shape_case(shape, fault):
    """a fault expression at a boundary position of the source"""
    e = EXPR_FAULTS[fault]
    msrc, entry, call0, inl = "\n", "call", "f0(1)", []
    if shape == "line1-load":
        src, entry, call0 = f"{e}\n", "load", ""
    elif shape == "lastline-nonl":
        src = f"x = 1\ndef f0(x):\n    return {e}"                      # no newline at the end of the file
    elif shape == "backslash":
        src = f"def f0(x):\n    y = 1 + \\\n        {e}\n"
    elif shape == "decorator-expr":
        src = f"def dec(v):\n    def d(fn):\n        return fn\n    return d\n\ndef f0(x):\n    @dec({e})\n    def g():\n        pass\n    return g\n"
    elif shape == "default-arg":
        src = f"def f0(x):\n    def g(a=1,\n          b={e}):\n        pass\n    return g\n"
    elif shape == "method-default":
        src = f"def f0(x):\n    class K:\n        def m(self, a={e}):\n            pass\n    return K\n"
        inl = ["K"]
    elif shape == "class-body":
        src, inl = f"def f0(x):\n    class K:\n        y = 2\n        z = {e}\n    return K\n", ["K"]
    elif shape == "class-body-load":
        src, entry, call0, inl = f"x = 1\nclass K:\n    def m(self):\n        return 1\n    z = {e}\n", "load", "", ["K"]
    elif shape == "listcomp":
        src = f"def f0(x):\n    return [{e} for _ in range(1)]\n"
    elif shape == "dictcomp":
        src = f"def f0(x):\n    return {{1: {e} for _ in range(1)}}\n"
    elif shape == "setcomp":
        src = f"def f0(x):\n    return {{{e} for _ in range(1)}}\n"
    elif shape == "genexpr":
        src, inl = f"def f0(x):\n    return list({e} for _ in range(1))\n", ["<genexpr>"]
    elif shape == "fstring":
        # (blanks around the expression: `{{` would be an escaped brace)
        src = f"def f0(x):\n    return f'a{{ {e} }}b'\n" if "'" not in e else f'def f0(x):\n    return f"a{{ {e} }}b"\n'
    elif shape == "lambda":
        src = f"def f0(x):\n    g = lambda: {e}\n    return g()\n"
    elif shape == "nested-other-file":
        src = "import m\ndef f0(x):\n    g = m.make()\n    return g(x)\n"
        msrc = f"def make():\n    def inner(x):\n        return {e}\n    return inner\n"
    else:
        raise ValueError(shape)
    return {"kind": "tb", "entry": entry, "call0": call0, "src": {"a.py": src, "modules/m.py": msrc}, "depth": 1,
            "links": ["shape:" + shape], "fault": fault, "fault_level": 0, "nmod": 1 if shape == "nested-other-file" else 0,
            "shape": shape, "inlined": inl}


EXC_VARIANTS = {
    "baseexception-class": "class MyB(BaseException):\n    pass\ndef f0(x):\n    raise MyB('b')\n",
    "str-raises": "class Bad(Exception):\n    def __str__(self):\n        raise RuntimeError('s')\ndef f0(x):\n    raise Bad()\n",
    "str-custom": "class Cus(Exception):\n    def __str__(self):\n        return 'custom text'\ndef f0(x):\n    raise Cus(1)\n",
    "noargs-class": "def f0(x):\n    raise ValueError\n",
    "noargs-instance": "def f0(x):\n    raise ValueError()\n",
    "two-args": "def f0(x):\n    raise ValueError('a', 2)\n",
    "multiline-message": "def f0(x):\n    raise ValueError('first line\\nsecond line')\n",
    "unicode-message": "def f0(x):\n    raise ValueError('\u00fcn\u00efc\u00f6de \u2713 \u65e5\u672c')\n",
    "keyerror-repr": "def f0(x):\n    raise KeyError('quoted key')\n",
    "oserror-errno": "def f0(x):\n    raise OSError(2, 'No such file')\n",
    "exception-group-free": "def f0(x):\n    raise Exception\n",
}


EXC_VARIANTS.update({
    "str-attr": "class Cus(Exception):\n    def __init__(self, a, b):\n        self.a = a\n        self.b = b\n"
                "    def __str__(self):\n        return f'{self.a}-{self.b}'\ndef f0(x):\n    raise Cus(1, 'q')\n",
    "str-empty": "class Cus(Exception):\n    def __str__(self):\n        return ''\ndef f0(x):\n    raise Cus(1)\n",
    "str-nonstr": "class Cus(Exception):\n    def __str__(self):\n        return 5\ndef f0(x):\n    raise Cus(1)\n",
    "str-inherited": "class Base(Exception):\n    def __str__(self):\n        return 'base ' + helper(self.args[0])\n"
                     "class Cus(Base):\n    pass\ndef helper(v):\n    return str(v * 2)\ndef f0(x):\n    raise Cus(21)\n",
    "str-of-cause": "class Cus(Exception):\n    def __str__(self):\n        return 'c text'\ndef f0(x):\n    try:\n"
                    "        raise Cus(1)\n    except Cus as e:\n        raise ValueError('v') from e\n",
    # a __str__ that waits: cannot be completed by the synchronous formatter (model: suspends); CPython has no
    # task.sleep, its __str__ fails with NameError - the two last lines agree by construction of the case
    "str-sleeps": "class Cus(Exception):\n    def __str__(self):\n        task.sleep(0.01)\n        return 'late'\n"
                  "def f0(x):\n    raise Cus(1)\n",
})
# how the model sees the __str__ of each variant (default: native, the text is Python's)
STR_KIND = {"str-raises": "raises", "str-custom": "returns", "str-attr": "returns", "str-empty": "returns",
            "str-nonstr": "nonstring", "str-inherited": "returns", "str-sleeps": "suspends"}
NL = "\u23ce"


def last_line_driver(p, r):
    """driver line for the last line of the report of an exception-class variant: (last NAME KIND TEXT)"""
    name = p["shape"][len("exc:"):]
    kind = STR_KIND.get(name, "native")
    last = _unq(r.get("last", ""))
    cls, sep, text = last.partition(": ")
    if kind == "suspends":
        text = "late"
    elif kind in ("raises", "nonstring"):
        text = ""
    return "C18 " + sx(["last", cls, kind, text.replace("\n", NL)])


def exc_variant_case(name, entry):
    src = EXC_VARIANTS[name]
    if entry == "load":
        src = src + "f0(1)\n"
    return {"kind": "tb", "entry": entry, "call0": "" if entry == "load" else "f0(1)", "src": {"a.py": src, "modules/m.py": "\n"},
            "depth": 1, "links": ["exc:" + name], "fault": "user", "fault_level": 0, "nmod": 0, "shape": "exc:" + name, "inlined": []}


# --------------------------------------------------------------------------------------------- pyscript side (tb)
_ready = False


def _setup(loop, root):
    global _ready
    import interp_env
    from custom_components.pyscript.global_ctx import GlobalContextMgr
    from custom_components.pyscript.function import Function
    hass = interp_env.setup_stub(loop, {"allow_all_imports": True})
    hass.loop = loop
    hass.config.path = lambda *a: os.path.join(root, *a)
    hass.config.config_dir = root
    if not _ready:
        GlobalContextMgr.init()
        _ready = True
    GlobalContextMgr.contexts.clear()
    Function.our_tasks.clear()
    return hass


def _rel(root, fn):
    base = os.path.join(root, "pyscript") + os.sep
    if fn and fn.startswith(base):
        return fn[len(base):]
    return None


def dump_frames(exc, root):
    """the traceback as _build_stack sees it: one tagged tuple per frame"""
    import ast as _ast
    from custom_components.pyscript import eval as ev
    out = []
    ctx_ids = {}                       # identity of the evaluators, numbered in order of appearance
    tb = exc.__traceback__
    while tb:
        fr = tb.tb_frame
        code = fr.f_code
        if code.co_filename == ev.__file__:
            q = code.co_qualname
            if q == ev.EvalFunc.call.__qualname__:
                f = fr.f_locals.get("self")
                if isinstance(f, ev.EvalFunc):
                    out.append(["efc", f.get_name(), _short(root, f.global_ctx.get_file_path())])
                else:
                    out.append(["o"])
            elif q == ev.AstEval.call_func.__qualname__:
                out.append(["cf", str(fr.f_locals.get("func_name", None))])
            elif q in (ev.AstEval.aeval.__qualname__, ev.AstEval.recurse_assign.__qualname__):
                ctx = fr.f_locals.get("self")
                line = "none"
                for v in fr.f_locals.values():
                    if isinstance(v, (_ast.expr, _ast.stmt)) and hasattr(v, "lineno"):
                        line = v.lineno
                        break
                out.append(["ae", ctx_ids.setdefault(id(ctx), len(ctx_ids) + 1),
                            _short(root, ctx.global_ctx.get_file_path() or ctx.filename), ctx.name, line])
            else:
                out.append(["o"])
        else:
            out.append(["real", _short(root, code.co_filename), code.co_name, tb.tb_lineno])
        tb = tb.tb_next
    return out


def _short(root, fn):
    if fn is None:
        return "None"
    r = _rel(root, fn)
    return r if r is not None else os.path.basename(fn)


def _stack_entries(fmt, root):
    out = []
    for fs in fmt.stack:
        r = _rel(root, fs.filename) if fs.filename else None
        real = r is None and fs.filename is not None      # not a script file: a frame of real Python code
        out.append((("R:" if real else "") + _short(root, fs.filename), fs.name if fs.name is not None else "-", fs.lineno))
    return out


def _last_lines(text):
    """the `Type: message` part that ends a formatted report (all lines after the last traceback entry)"""
    lines = text.rstrip("\n").split("\n")
    k = len(lines)
    while k > 0 and not lines[k - 1].startswith("  "):
        k -= 1
    return "\n".join(lines[k:]).strip()


def _chain_kinds(text):
    """which chained sections a formatted report has, in order: 'cause' / 'context' per joining sentence"""
    out = []
    for line in text.splitlines():
        if line.startswith("The above exception was the direct cause"):
            out.append("cause")
        elif line.startswith("During handling of the above exception"):
            out.append("context")
    return out


def _chain(exc):
    """exceptions in the order the formatter prints them (causes first)"""
    seq = []
    e = exc
    while e is not None:
        seq.append(e)
        if e.__cause__ is not None:
            e = e.__cause__
        elif e.__context__ is not None and not e.__suppress_context__:
            e = e.__context__
        else:
            e = None
    return list(reversed(seq))


async def ps_tb(p, root):
    from custom_components.pyscript.eval import AstEval, EvalExceptionFormatter
    from custom_components.pyscript.function import Function
    from custom_components.pyscript.global_ctx import GlobalContext, GlobalContextMgr
    _setup(asyncio.get_running_loop(), root)
    path = os.path.join(root, "pyscript", "a.py")
    g = GlobalContext("file.a", global_sym_table={"__name__": "a"}, manager=GlobalContextMgr)
    exc = None
    try:
        await GlobalContextMgr.load_file(g, path)
        if p["entry"] != "load":
            a = AstEval("file.a.f0", g)
            Function.install_ast_funcs(a)
            if p["entry"] == "call" and p["call0"] in ("f0(1)", "m.f0(1)"):
                # the way a trigger calls its function: ast_ctx.call_func(func, None, **kwargs)
                func = g.global_sym_table["f0"] if p["call0"] == "f0(1)" else getattr(g.global_sym_table["m"], "f0")
                await a.call_func(func, None, 1)
            elif p["entry"] == "call":
                a.parse(p["call0"])                        # (a method: through a call expression of the harness)
                await a.eval()
            else:
                func = g.global_sym_table["f0"]
                await func.call(a, 1)                      # the way a service handler calls it
    except asyncio.CancelledError:
        raise
    except BaseException as e:  # pylint: disable=broad-except   (user classes derived from BaseException only)
        exc = e
    if exc is None:
        return {"impl": "no-exception", "lines": []}
    parts, lines = [], []
    top = EvalExceptionFormatter(exc)
    sections = []                      # the formatter's own chain: innermost printed first
    f = top
    while f is not None:
        sections.insert(0, f)
        f = f.chained_exc
    for fmt in sections:
        ents = _stack_entries(fmt, root)
        parts.append("[" + " ".join(f"{f}|{n}|{l}" for f, n, l in ents) + "]")
        lines.append("C18 " + sx(["fmt", dump_frames(fmt.exc, root)]))
    text = "".join(top.format())
    return {"impl": " ; ".join(parts), "lines": lines, "last_ps": _last_lines(text),
            "chain_impl": _chain_kinds(text)}


def py_tb(p, root):
    """CPython on the same files"""
    base = os.path.join(root, "pyscript")
    sys.dont_write_bytecode = True
    before = set(sys.modules)
    old = list(sys.path)
    sys.path.insert(0, os.path.join(base, "modules"))
    import importlib
    importlib.invalidate_caches()
    exc = None
    try:
        path = os.path.join(base, "a.py")
        ns = {"__name__": "a"}
        try:
            exec(compile(open(path).read(), path, "exec"), ns)  # noqa: S102
            if p["entry"] != "load":
                exec(compile(p["call0"] if p["entry"] == "call" else "f0(1)", "<harness>", "exec"), ns)  # noqa: S102
        except BaseException as e:  # pylint: disable=broad-except
            exc = e
        if exc is None:
            return {"oracle": "no-exception"}
        parts = []
        for e in _chain(exc):
            ents = []
            for fs in traceback.extract_tb(e.__traceback__):
                r = _rel(root, fs.filename)
                if r is not None:
                    ents.append(f"{r}|{fs.name}|{fs.lineno}")
            parts.append("[" + " ".join(ents) + "]")
        text = "".join(traceback.format_exception(exc))
        return {"oracle": " ; ".join(parts), "last": _last_lines(text), "chain_py": _chain_kinds(text)}
    finally:
        sys.path[:] = old
        for k in set(sys.modules) - before:
            sys.modules.pop(k, None)


def script_only(s):
    """keep the script frames, call the module level `<module>` on both sides"""
    out = []
    for part in s.split(" ; "):
        ents = [e for e in part.strip("[]").split(" ") if e and not e.startswith("R:")]
        norm = []
        for e in ents:
            f, n, l = e.split("|")
            if n == "file.a.f0" and l == "1":
                continue                                   # the harness's own call expression `K0().f0(1)`
            if n == "-" or re.fullmatch(r"(file|modules)\.\w+", n):
                n = "<module>"                             # a file body: the context's name stands for `<module>`
            norm.append(f"{f}|{n}|{l}")
        out.append("[" + " ".join(norm) + "]")
    return " ; ".join(out)


def run_tb(p):
    import warnings
    warnings.simplefilter("ignore", RuntimeWarning)      # str() of a script exception class leaves a coroutine behind
    root = tempfile.mkdtemp(prefix="pysc_c18_")
    try:
        for rel, src in p["src"].items():
            fn = os.path.join(root, "pyscript", rel)
            os.makedirs(os.path.dirname(fn), exist_ok=True)
            with open(fn, "w") as f:
                f.write(src)
        loop = asyncio.new_event_loop()
        asyncio.set_event_loop(loop)
        try:
            r = loop.run_until_complete(ps_tb(p, root))
        finally:
            loop.close()
        r.update(py_tb(p, root))
        return r
    finally:
        shutil.rmtree(root, ignore_errors=True)


# --------------------------------------------------------------------------------------------- entry family (HA)
ENTRY_SRC = '''import m

class MyErr(Exception):
    pass

def g(x):
    FAULT
    return x

def f(x):
    y = g(x)
    return y

@event_trigger("ev_trig")
def t_func(a=1, **kw):
    f(a)
    rec("t_func", a)

@state_trigger("pyscript.v1 == 'go' and f(int(pyscript.d1)) > 0")
def t_expr(**kw):
    rec("t_expr")

@event_trigger("ev_act")
@state_active("f(int(pyscript.d2)) > 0")
def t_act(**kw):
    rec("t_act")

@service
def svc(a=1):
    f(a)
    rec("svc", a)

def f_task(a):
    m.h(a)
    rec("task", a)

@service
def mk_task(a=1):
    task.create(f_task, a)

def idle():
    pass

def cb(a):
    f(a)
    rec("cb", a)

@service
def mk_cb(a=1):
    t = task.create(idle)
    task.add_done_callback(t, cb, a)

@event_trigger("ev_f", "f(int(a)) > 0")
def t_evf(a=None, **kw):
    rec("t_evf", a)

@mqtt_trigger("t/x", "f(int(payload)) > 0")
def t_mq(payload=None, **kw):
    rec("t_mq", payload)

@webhook_trigger("hook1", "f(int(payload['a'])) > 0")
def t_wh(payload=None, **kw):
    rec("t_wh", payload)

@service(supports_response="optional")
def svc_r(a=1):
    f(a)
    rec("svc_r", a)
    return {"a": a}

ERR = ValueError('pre-built')

def pre_a(x):
    if x == 0:
        raise ERR
    return x

def pre_b(x):
    y = x
    if y == 0:
        raise ERR
    return y

@service
def svc_pre_a(a=1):
    pre_a(a)
    rec("svc_pre_a", a)

@service
def svc_pre_b(a=1):
    z = a
    pre_b(z)
    rec("svc_pre_b", a)
'''
MOD_SRC = '''def h(x):
    y = h2(x)
    return y

def h2(x):
    FAULT
    return x
'''
ENTRY_KINDS = ["trig_func", "trig_expr", "active_expr", "service", "task_create", "done_callback",
               "event_expr", "mqtt_expr", "webhook_expr", "svc_response", "trig_func_x3", "service_x3", "same_instance"]
EXPR_KINDS = ("trig_expr", "active_expr", "event_expr", "mqtt_expr", "webhook_expr")
FAULT_REPEAT = {"trig_func_x3": 3, "service_x3": 3, "same_instance": 2}
# same_instance: ONE exception object built at file level is raised from two different functions by two services: every
# report must show the frames of ITS raise (Python chains the earlier traceback of the object behind them)     # the same error several times in a row: every one is reported
# trigger expressions that raise on their FIRST evaluation, the one done when the trigger starts (the entity they read
# does not exist yet): (function, state variable, is the expression evaluated at start-up?)
STARTUP_KINDS = [("t_hold", "lvl_h", True), ("t_hold_now", "lvl_hn", True), ("t_now", "lvl_n", True),
                 ("t_plain", "lvl_p", False)]
STARTUP_SRC = '''@state_trigger("int(pyscript.lvl_h) > 5", state_hold_false=0.05)
def t_hold(**kw):
    rec("t_hold")

@state_trigger("int(pyscript.lvl_hn) > 5", state_hold_false=0.05, state_check_now=True)
def t_hold_now(**kw):
    rec("t_hold_now")

@state_trigger("int(pyscript.lvl_n) > 5", state_check_now=True)
def t_now(**kw):
    rec("t_now")

@state_trigger("int(pyscript.lvl_p) > 5")
def t_plain(**kw):
    rec("t_plain")
'''


def entry_fault_lines(fault):
    lines, _ = FAULTS[fault]
    body = ["if x == 0:"] + ["    " + l for l in lines]
    return body


def entry_sources(p):
    fl = entry_fault_lines(p["fault"])
    a = ENTRY_SRC.replace("    FAULT\n", "".join("    " + l + "\n" for l in fl))
    m = "class MyErr(Exception):\n    pass\n\n" + MOD_SRC.replace("    FAULT\n", "".join("    " + l + "\n" for l in fl))
    files = {"a.py": a, "modules/m.py": m,
             "bad.py": "ok_before = 1\n\n@service\ndef bad_svc():\n    rec('bad_svc')\n\n"
                       "@event_trigger(\"ev_bad\")\ndef bad_trig(**kw):\n    rec('bad_trig')\n\n"
                       "@state_trigger(\"pyscript.bad_v == '1'\")\ndef bad_st(**kw):\n    rec('bad_st')\n\n"
                       "@time_trigger(\"shutdown\")\ndef bad_shutdown():\n    rec('bad_shutdown')\n\n"
                       "@time_trigger(\"startup\")\ndef bad_startup():\n    rec('bad_startup')\n\n"
                       "@service\ndef shared_svc():\n    rec('bad_shared')\n\n"
                       "def boom(x):\n" + "".join("    " + l + "\n" for l in fl) + "    return x\n\nboom(0)\n",
             "badimp.py": "import badmod\n\n@service\ndef never():\n    rec('never')\n",
             "modules/badmod.py": "q = 1\n\n1 / 0\n",
             "good.py": "@service\ndef good_svc():\n    rec('good')\n\n@service\ndef shared_svc():\n    rec('shared_good')\n",
             "c.py": STARTUP_SRC,
             # syntax errors: in a main file, in an imported module, in a trigger expression string
             "syn.py": "x = 1\ny = (2 +\n",
             "synimp.py": "import synmod\n\n@service\ndef synimp_svc():\n    rec('synimp_svc')\n",
             "modules/synmod.py": "q = 1\ndef h(:\n    pass\n",
             "synexpr.py": "@service\ndef synexpr_before():\n    rec('synexpr_before')\n\n"
                           "@state_trigger(\"pyscript.zz == \")\ndef t_synbad(**kw):\n    rec('t_synbad')\n\n"
                           "@service\ndef synexpr_after():\n    rec('synexpr_after')\n",
             # a file that fails in the middle of a class body, after a service was defined
             "badcls.py": "@service\ndef bc_svc():\n    rec('bc_svc')\n\nclass K:\n    def m(self):\n        return 1\n"
                          + "".join("    " + l + "\n" for l in FAULTS[p["fault"]][0]) + "    w = 3\n"}
    return files


TB_RE = re.compile(r'File "([^"]+)", line (\d+), in (.*)')


CHAIN_RE = re.compile(r"The above exception was the direct cause of the following exception:|"
                      r"During handling of the above exception, another exception occurred:")


def parse_tb(msg, cfgdir):
    """script frames of the LAST traceback of a logged message (chained causes come first; see parse_causes)"""
    return _parse_part(CHAIN_RE.split(msg)[-1], cfgdir)


def parse_causes(msg, cfgdir):
    return [_parse_part(x, cfgdir) for x in CHAIN_RE.split(msg)[:-1]]


def _parse_part(msg, cfgdir):
    base = os.path.join(cfgdir, "pyscript") + os.sep
    out = []
    for fn, ln, name in TB_RE.findall(msg):
        if fn.startswith(base):
            out.append(f"{fn[len(base):]}|{name.strip()}|{ln}")
    return out


class _FakeRequest:
    """what the webhook handlers read from an aiohttp request"""

    def __init__(self, data):
        self.headers = {"Content-Type": "application/json"}
        self._data = data

    async def json(self):
        return self._data

    async def post(self):
        raise RuntimeError("not a form")


def run_entry(p):
    import ha_env
    legacy = p["legacy"]
    files = entry_sources(p)

    async def body(env):
        res = {}

        def errs(n0):
            script, other = [], []
            for name, lvl, msg in env.log[n0:]:
                if lvl != "ERROR" or name == "custom_components.pyscript.eval":
                    continue
                tail = name[len("custom_components.pyscript."):] if name.startswith("custom_components.pyscript.") else name
                if tail.split(".")[0] in ("file", "apps", "modules", "scripts"):
                    script.append((tail, msg))
                else:
                    other.append((tail, msg))
            return script, other

        async def trigger(kind, a):
            if kind == "trig_func":
                await env.fire("ev_trig", {"a": a})
            elif kind == "trig_expr":
                await env.set_state("pyscript.v1", "idle")
                await env.set_state("pyscript.d1", str(a))
                await env.set_state("pyscript.v1", "go")
            elif kind == "active_expr":
                await env.set_state("pyscript.d2", str(a))
                await env.fire("ev_act", {})
            elif kind == "service":
                await env.call("pyscript", "svc", {"a": a})
            elif kind == "task_create":
                await env.call("pyscript", "mk_task", {"a": a})
            elif kind == "done_callback":
                await env.call("pyscript", "mk_cb", {"a": a})
            elif kind == "event_expr":
                await env.fire("ev_f", {"a": a})
            elif kind == "mqtt_expr":
                for topic, cbk in list(mqtt_subs):
                    if topic == "t/x":
                        await cbk(types.SimpleNamespace(topic="t/x", payload=str(a), qos=0, retain=False))
            elif kind == "webhook_expr":
                h = env.hass.data.get("webhook", {}).get("hook1")
                if h is not None:
                    await h["handler"](env.hass, "hook1", _FakeRequest({"a": a}))
            elif kind == "svc_response":
                try:
                    await env.call("pyscript", "svc_r", {"a": a}, return_response=True)
                except Exception as e:  # pylint: disable=broad-except
                    # a failed run has no response: Home Assistant itself reports that to the caller
                    if "reponse" not in str(e) and "response" not in str(e):
                        raise
            elif kind == "trig_func_x3":
                for _ in range(3 if a == 0 else 1):
                    await env.fire("ev_trig", {"a": a})
                    await env.settle(0.05)
            elif kind == "service_x3":
                for _ in range(3 if a == 0 else 1):
                    await env.call("pyscript", "svc", {"a": a})
            elif kind == "same_instance":
                await env.call("pyscript", "svc_pre_a", {"a": a})
                await env.settle(0.05)
                await env.call("pyscript", "svc_pre_b", {"a": a})
            await env.settle(0.2)

        # ---- load time and trigger start-up
        await env.settle(0.3)
        script, other = errs(0)
        res["startup"] = {}
        for fn, var, _evaluated in STARTUP_KINDS:
            pat = re.compile(r"\b%s\b" % fn)
            res["startup"][fn] = {
                "script": [(n, parse_tb(m, env.cfgdir), m.strip().splitlines()[-1] if m.strip() else "")
                           for n, m in script if pat.search(n + " " + m)],
                "other": [(n, m.strip().splitlines()[0][:120] if m.strip() else "") for n, m in other if pat.search(n + " " + m)]}
        loaded = sorted(k for k in __import__("custom_components.pyscript.global_ctx", fromlist=["x"]).GlobalContextMgr.contexts)
        res["load"] = {"loaded": loaded,
                       "script": [(n, parse_tb(m, env.cfgdir), m.strip().splitlines()[-1] if m.strip() else "") for n, m in script],
                       "other": [(n, m.strip().splitlines()[0][:80] if m.strip() else "") for n, m in other]}
        # ---- syntax errors and the class-body failure
        svcs = set(env.hass.services.async_services().get("pyscript", {}))
        res["load"]["services"] = sorted(x for x in svcs if x.startswith(("syn", "bc_")))
        r0 = len(env.records)
        await env.set_state("pyscript.zz", "1")
        for sv in ("synexpr_before", "synexpr_after"):
            try:
                await env.call("pyscript", sv)
            except Exception:  # pylint: disable=broad-except
                pass
        await env.settle(0.1)
        res["load"]["syn_recs"] = sorted(str(r[1]) for r in env.records[r0:])
        res["load"]["syn_script"] = [(n, parse_tb(m, env.cfgdir), m.strip().splitlines()[-1] if m.strip() else "")
                                     for n, m in script if n.split(".")[1] in ("syn", "synimp", "synmod", "synexpr", "badcls")]
        # ---- nothing of the file that failed to load may be left behind
        left = []
        # no function of the file that failed to load may ever have run (not even by the clean-up after the failure)
        ran_at_load = sorted({str(r[1]) for r in env.records if str(r[1]).startswith("bad_")}
                             | {n.split(".")[2] for n, _m in script if n.startswith("file.bad.")})
        res["load"]["ran_at_load"] = ran_at_load
        left += [f"{x} ran during the load pass" for x in ran_at_load]
        r0 = len(env.records)
        if env.hass.services.has_service("pyscript", "bad_svc"):
            left.append("service pyscript.bad_svc is registered")
        try:
            await env.call("pyscript", "shared_svc")     # defined by bad.py (failed) and by good.py: good.py's must serve
        except Exception:  # pylint: disable=broad-except
            pass
        await env.settle(0.1)
        shared = [str(r[1]) for r in env.records[r0:] if "shared" in str(r[1])]
        if shared != ["shared_good"]:
            left.append(f"service shared_svc (also defined by good.py) served by {shared}")
        if any(n.startswith("file.good") for n, _m in script):
            left.append("error record on the logger of good.py")
        try:
            await env.call("pyscript", "bad_svc")
        except Exception:  # pylint: disable=broad-except
            pass
        await env.fire("ev_bad", {})
        await env.set_state("pyscript.bad_v", "0")
        await env.set_state("pyscript.bad_v", "1")
        await env.settle(0.2)
        left += [f"{r[1]} ran" for r in env.records[r0:] if str(r[1]).startswith("bad_") and r[1] != "bad_shared"]
        res["load"]["leftover"] = left
        for kind in ENTRY_KINDS:
            await env.set_state("pyscript.d1", "1")
            await env.set_state("pyscript.d2", "1")
            await env.set_state("pyscript.v1", "idle")
            await env.settle(0.05)
            n0, r0 = len(env.log), len(env.records)
            raised = None
            try:
                await trigger(kind, 0)                       # the fault
            except Exception as e:  # pylint: disable=broad-except
                raised = type(e).__name__
            script, other = errs(n0)
            recs_fault = len(env.records) - r0
            r1 = len(env.records)
            raised2 = None
            try:
                await trigger(kind, 1)                       # a later, healthy occurrence
            except Exception as e:  # pylint: disable=broad-except
                raised2 = type(e).__name__
            res[kind] = {"script": [(n, parse_tb(m, env.cfgdir), m.strip().splitlines()[-1] if m.strip() else "") for n, m in script],
                         "causes": [parse_causes(m, env.cfgdir) for n, m in script],
                         "other": [(n, m.strip().splitlines()[0][:80] if m.strip() else "") for n, m in other],
                         "recs_fault": recs_fault, "recs_after": len(env.records) - r1,
                         "propagated": raised, "propagated_after": raised2}
        # ---- the triggers whose start-up evaluation failed must serve a later occurrence
        for fn, var, _evaluated in STARTUP_KINDS:
            n0, r0 = len(env.log), len(env.records)
            await env.set_state("pyscript." + var, "2")
            await env.settle(0.3)
            await env.set_state("pyscript." + var, "8")
            await env.settle(0.3)
            s2, o2 = errs(n0)
            res["startup"][fn]["recs_after"] = sum(1 for r in env.records[r0:] if r[1] == fn)
            res["startup"][fn]["errors_after"] = len(s2) + len(o2)
        try:
            await env.call("pyscript", "good_svc")
        except Exception:  # pylint: disable=broad-except   (a healthy file that was not loaded has no service)
            pass
        res["good_served"] = any(r[1] == "good" for r in env.records)
        return res

    mqtt_subs = []

    async def fake_subscribe(hass, topic, msg_callback, *a, **kw):
        mqtt_subs.append((topic, msg_callback))
        return lambda: mqtt_subs.remove((topic, msg_callback)) if (topic, msg_callback) in mqtt_subs else None

    from unittest.mock import patch
    # no broker here: MQTT messages and webhook requests are injected at the hand-over callbacks
    with patch("homeassistant.components.mqtt.async_subscribe", fake_subscribe):
        return ha_env.run_ha(files, legacy, body)


def entry_expected(p):
    """CPython: expected triples for a fault reached from a.py's f / modules/m.py's h / bad.py"""
    root = tempfile.mkdtemp(prefix="pysc_c18e_")
    try:
        files = entry_sources(p)
        for rel, src in files.items():
            fn = os.path.join(root, "pyscript", rel)
            os.makedirs(os.path.dirname(fn), exist_ok=True)
            # the oracle only needs the plain functions: drop decorators and pyscript builtins
            with open(fn, "w") as f:
                f.write(src)
        base = os.path.join(root, "pyscript")
        out = {}

        def triples(exc):
            parts = []
            for e in _chain(exc):
                parts.append([f"{_rel(root, fs.filename)}|{fs.name}|{fs.lineno}" for fs in traceback.extract_tb(e.__traceback__)
                              if _rel(root, fs.filename) is not None])
            return parts
        sys.dont_write_bytecode = True
        old = list(sys.path)
        before = set(sys.modules)
        sys.path.insert(0, os.path.join(base, "modules"))
        import builtins
        import importlib
        importlib.invalidate_caches()
        ident = lambda *a, **k: (lambda fn: fn)  # noqa: E731

        def plain(fn=None, *a, **k):
            return fn if callable(fn) else (lambda f: f)
        shim = {"event_trigger": ident, "state_trigger": ident, "state_active": ident, "service": plain,
                "mqtt_trigger": ident, "webhook_trigger": ident, "time_trigger": ident,
                "rec": lambda *a: None, "task": types.SimpleNamespace(create=lambda *a: None, add_done_callback=lambda *a: None)}
        for k, v in shim.items():
            setattr(builtins, k, v)
        try:
            ns = {"__name__": "a"}
            pa = os.path.join(base, "a.py")
            exec(compile(open(pa).read(), pa, "exec"), ns)  # noqa: S102
            for key, call in (("f", "f(0)"), ("f_task", "f_task(0)"), ("cb", "cb(0)"), ("t_func", "t_func(0)"), ("svc", "svc(0)"),
                              ("svc_r", "svc_r(0)"), ("svc_pre_a", "svc_pre_a(0)"), ("svc_pre_b", "svc_pre_b(0)")):
                try:
                    exec(compile(call, "<harness>", "exec"), ns)  # noqa: S102
                except Exception as e:  # pylint: disable=broad-except
                    out[key] = triples(e)
                    out[key + "_last"] = traceback.format_exception_only(e)[-1].strip()
            pb = os.path.join(base, "bad.py")
            try:
                exec(compile(open(pb).read(), pb, "exec"), {"__name__": "bad"})  # noqa: S102
            except Exception as e:  # pylint: disable=broad-except
                out["bad"] = triples(e)
            for nm in ("syn.py", "modules/synmod.py"):
                try:
                    compile(open(os.path.join(base, nm)).read(), os.path.join(base, nm), "exec")
                except SyntaxError as e:
                    out["syntax:" + nm] = [e.lineno, f"SyntaxError: {e.msg}"]
            pc = os.path.join(base, "badcls.py")
            try:
                exec(compile(open(pc).read(), pc, "exec"), {"__name__": "badcls"})  # noqa: S102
            except Exception as e:  # pylint: disable=broad-except
                out["badcls"] = triples(e)
            pi = os.path.join(base, "badimp.py")
            try:
                exec(compile(open(pi).read(), pi, "exec"), {"__name__": "badimp"})  # noqa: S102
            except Exception as e:  # pylint: disable=broad-except
                out["badimp"] = triples(e)
        finally:
            for k in shim:
                delattr(builtins, k)
            sys.path[:] = old
            for k in set(sys.modules) - before:
                sys.modules.pop(k, None)
        return out
    finally:
        shutil.rmtree(root, ignore_errors=True)


def entry_line(p):
    """the containment model's view: per entry kind a fault occurrence and a healthy one"""
    # trigger functions: the model knows per subsystem whether the call has its own handler (both have one since the
    # repair of finding C18-F2)
    caught_fn = "legacy" if p["legacy"] else "new"
    lg = "script"
    ok = "ok"
    R = ["raise", 1]
    loops = [
        [caught_fn, lg, [[ok, True, ok, True, R], [ok, True, ok, True, ok]]],       # trigger function
        [True, lg, [[R, True, ok, True, ok], [ok, True, ok, True, ok]]],            # trigger expression
        [True, lg, [[ok, True, R, True, ok], [ok, True, ok, True, ok]]],            # @state_active expression
        [True, lg, [[ok, True, ok, True, R], [ok, True, ok, True, ok]]],            # service
        [True, lg, [[ok, True, ok, True, R], [ok, True, ok, True, ok]]],            # task.create
        [True, lg, [[ok, True, ok, True, R], [ok, True, ok, True, ok]]],            # done-callback
        [True, lg, [[R, True, ok, True, ok], [ok, True, ok, True, ok]]],            # event trigger filter expression
        [True, lg, [[R, True, ok, True, ok], [ok, True, ok, True, ok]]],            # mqtt trigger filter expression
        [True, lg, [[R, True, ok, True, ok], [ok, True, ok, True, ok]]],            # webhook trigger filter expression
        [True, lg, [[ok, True, ok, True, R], [ok, True, ok, True, ok]]],            # service called with return_response
        [caught_fn, lg, [[ok, True, ok, True, R]] * 3 + [[ok, True, ok, True, ok]]],  # the same error three times
        [True, lg, [[ok, True, ok, True, R]] * 3 + [[ok, True, ok, True, ok]]],
        [True, lg, [[ok, True, ok, True, R]] * 2 + [[ok, True, ok, True, ok]] * 2],   # one exception object, two services
    ]
    F, T = False, True
    for _fn, _var, evaluated in STARTUP_KINDS:
        occs = ([[R, T, ok, T, ok]] if evaluated else []) + [[ok, F, ok, T, ok], [ok, T, ok, T, ok]]
        loops.append([True, lg, occs])
    return ["C18 " + sx(["loops"] + loops), "C18 " + sx(["load"] + [[n, (ok if good else R), k] for n, good, k in LOAD_PLAN])]


# the planned files of an entry case in load order (load_scripts: sorted by context name): (context, loads?, number of
# @time_trigger("shutdown") functions defined before the failure)
LOAD_PLAN = [("file.a", True, 0), ("file.bad", False, 1), ("file.badcls", False, 0), ("file.badimp", False, 0),
             ("file.c", True, 0), ("file.good", True, 0), ("file.syn", False, 0), ("file.synexpr", True, 0),
             ("file.synimp", False, 0)]


def load_impl_string(res):
    """the load pass as the model prints it: registered contexts | files with a record on their own logger | functions run"""
    ld = res["load"]
    names = [n for n, _g, _k in LOAD_PLAN]
    loaded = [n for n in names if n in ld["loaded"]]
    recs = []
    for n, _tb, _last in ld["script"]:
        if n in names and n not in recs and n not in loaded:      # (the record of the failure that unloaded the file)
            recs.append(n)
    ran = ["file.bad" for _ in ld.get("ran_at_load", []) if _ == "bad_shutdown"]
    fmt = lambda xs: "[" + ", ".join(xs) + "]"  # noqa: E731
    return f"{fmt(loaded)}|{fmt(recs)}|{fmt(ran)}"


def entry_impl_string(res):
    if "setup_failed" in res:
        return "setup-failed"
    parts = []
    for kind in ENTRY_KINDS:
        r = res[kind]
        log = [f"script:1:tb" for _ in r["script"]] + [f"function:1:plain" for n, _ in r["other"]]
        done = r["recs_fault"] + r["recs_after"]
        parts.append(f"done:{done},log:({' '.join(log)})")
    for fn, _var, _evaluated in STARTUP_KINDS:
        r = res["startup"][fn]
        log = ["script:1:tb" for _ in r["script"]] + [f"{n.split('.')[0]}:1:plain" for n, _ in r["other"]]
        parts.append(f"done:{r['recs_after']},log:({' '.join(log)})")
    return " ; ".join(parts) + " ;; load=" + load_impl_string(res)


def entry_model_string(out):
    parts = []
    for seg in out.split(" ; "):
        m = re.search(r"done:(\d+),subs:\d+,log:\(([^)]*)\)", seg)
        if not m:
            return out
        parts.append(f"done:{m.group(1)},log:({m.group(2)})")
    return " ; ".join(parts)


# --------------------------------------------------------------------------------------------- the check
def gen_cases(rng, tier, search):
    n_tb = 500 if tier == "quick" else 5000
    n_entry = 6 if tier == "quick" else 15
    if search:
        n_tb *= 3
    cases = []
    for p in fixed_tb_cases():
        cases.append(Case(p, None, tags=("tb", p.get("tag", "fixed"))))
    # boundary positions x expression faults; exception-class variants (in a function and at load time)
    shapes = [(sh, f) for sh in SHAPES for f in sorted(EXPR_FAULTS)]
    if tier == "quick":
        rng.shuffle(shapes)
        keep, seen = [], set()
        for sh, f in shapes:                      # every shape twice, every fault at least once per run
            if sum(1 for a, _ in keep if a == sh) < 2:
                keep.append((sh, f))
        shapes = keep
    for sh, f in shapes:
        p = shape_case(sh, f)
        cases.append(Case(p, None, tags=("tb", "shape:" + sh, "fault:" + f)))
    for name in sorted(EXC_VARIANTS):
        for entry in ("call", "load"):
            p = exc_variant_case(name, entry)
            cases.append(Case(p, None, tags=("tb", "exc:" + name, "entry:" + entry)))
    fl = sorted(FAULTS)
    # every fault kind x every link kind at least once, then random combinations
    combos = [(f, l) for f in fl for l in LINKS]
    rng.shuffle(combos)
    for i in range(n_tb):
        depth = rng.randrange(1, 6)
        if i < len(combos):
            fault, l0 = combos[i]
            links = [rng.choice(LINKS) for _ in range(depth)]
            links[rng.randrange(depth)] = l0
        else:
            fault = rng.choice(fl)
            links = [rng.choice(LINKS) for _ in range(depth)]
        # two consecutive decorated functions put two `wrapper` frames of one file next to each other only through f_i
        nfill = rng.randrange(0, 4)
        fault_level = depth - 1 if rng.random() < 0.75 else rng.randrange(depth)
        nmod = rng.choice([0, 0, 1, 2]) if depth > 1 else rng.choice([0, 1])
        nmod = min(nmod, depth)
        entry = rng.choice(["call", "call", "direct", "load"])
        if links[0] == "method" and entry == "direct":
            entry = "call"
        p = build_tb_case(rng, depth, links, fault, rng.randrange(0, nfill + 1), nfill, fault_level, nmod, entry,
                          same_name=rng.random() < 0.3)
        cases.append(Case(p, None, tags=("tb", "fault:" + fault, "entry:" + entry, "depth:%d" % depth)
                          + (("same-name-other-file",) if p["same_name"] else ())
                          + tuple("link:" + l for l in set(links))))
    for i in range(n_entry):
        fault = fl[(i * 7 + rng.randrange(len(fl))) % len(fl)] if i >= 2 else ["zerodiv", "user"][i]
        for legacy in (True, False):
            foci = ["main"] + (["load-import"] if i < 2 else [])
            for focus in foci:
                p = {"kind": "entry", "fault": fault, "legacy": legacy, "focus": focus}
                cases.append(Case(p, entry_line(p), tags=("entry", "fault:" + fault, "legacy" if legacy else "new",
                                                          "focus:" + focus)))
    return cases


def _in_child(fn, arg, timeout):
    """run fn(arg) in a forked child; a child that does not finish is killed (asyncio swallows exceptions raised by
    signal handlers inside callbacks, so an alarm cannot stop a Home Assistant instance that never settles)"""
    import pickle
    import select
    import signal
    import time
    r, w = os.pipe()
    pid = os.fork()
    if pid == 0:
        try:
            os.close(r)
            try:
                data = pickle.dumps(fn(arg))
            except BaseException as e:  # pylint: disable=broad-except
                data = pickle.dumps({"child_exc": f"{type(e).__name__}: {e}", "tb": traceback.format_exc()[-2000:]})
            off = 0
            while off < len(data):
                off += os.write(w, data[off:off + 65536])
        finally:
            os._exit(0)
    os.close(w)
    buf = b""
    deadline = time.time() + timeout
    timed_out = False
    while True:
        left = deadline - time.time()
        if left <= 0:
            timed_out = True
            break
        ready, _, _ = select.select([r], [], [], min(left, 5.0))
        if ready:
            chunk = os.read(r, 1 << 20)
            if not chunk:
                break
            buf += chunk
    os.close(r)
    if timed_out:
        try:
            os.kill(pid, signal.SIGKILL)
        except OSError:
            pass
    os.waitpid(pid, 0)
    if timed_out or not buf:
        return {"timeout": True}
    return pickle.loads(buf)


HA_WALL = 240.0          # a whole Home Assistant case takes 3-20 s; the kill is only a safety net


def _run_one(p, scale=1):
    try:
        if p["kind"] == "tb":
            return run_tb(p)
        res = _in_child(run_entry, p, HA_WALL * scale)
        if res.get("timeout"):
            # a wall-clock kill says nothing by itself (the machine may just be busy): run_impl runs the case again,
            # alone, with a larger limit; a case that only ever times out is inconclusive, not a verdict
            return {"guard": "wall", "expected": None, "res": None}
        elif "child_exc" in res:
            if "pyscript setup failed" in res["child_exc"]:
                res = {"setup_failed": "pyscript setup failed"}
            else:
                return {"crash": res["child_exc"], "tb": res["tb"]}
        return {"res": res, "expected": entry_expected(p)}
    except BaseException as e:  # pylint: disable=broad-except
        return {"crash": f"{type(e).__name__}: {e}", "tb": traceback.format_exc()[-2000:]}


GUARD_STATS = {"killed_in_first_run": 0, "resolved_by_rerun_alone": 0, "inconclusive": 0}


def run_impl(cases):
    res = common.pmap(_run_one, [c.payload for c in cases], chunk=4)
    for k, (c, r) in enumerate(zip(cases, res)):
        if r.get("guard"):
            GUARD_STATS["killed_in_first_run"] += 1
            r2 = _run_one(c.payload, scale=4)          # alone (the pool is gone), 16 minutes
            if r2.get("guard"):
                GUARD_STATS["inconclusive"] += 1
                r2["inconclusive"] = "the Home Assistant instance did not finish twice (second time alone, 4x the limit)"
            else:
                GUARD_STATS["resolved_by_rerun_alone"] += 1
            res[k] = r2
    for c, r in zip(cases, res):
        if "crash" in r:
            raise RuntimeError(f"harness crash: {r['crash']}\n{r['tb']}")
        c.payload["_run"] = r
        if r.get("inconclusive"):
            c.line = None                # no tie, no verdict
            c.impl = c.model = "inconclusive"
            continue
        if c.payload["kind"] == "tb":
            c.impl = r["impl"]
            c.line = r["lines"]
            if str(c.payload.get("shape", "")).startswith("exc:") and r["impl"] != "no-exception" and "last" in r:
                c.impl += " ; last=" + _unq(r.get("last_ps", "")).replace("\n", NL)
                c.line = list(c.line) + [last_line_driver(c.payload, r)]
        else:
            c.impl = entry_impl_string(r["res"])


_orig_execute = common._execute


def _execute(mod, cases, br):
    if mod.PROP != PROP:
        return _orig_execute(mod, cases, br)
    run_impl(cases)
    ok = br.driver_ok and common.DRV.exists()
    lines, owners = [], []
    for c in cases:
        ls = c.line if isinstance(c.line, list) else ([c.line] if c.line else [])
        for l in ls:
            lines.append(l)
            owners.append(c)
    outs = common.drive(lines) if ok else ["err driver-not-built"] * len(lines)
    acc = {}
    for o, c in zip(outs, owners):
        acc.setdefault(id(c), []).append(o)
    for c in cases:
        o = acc.get(id(c), [])
        if c.payload["kind"] == "tb":
            models, specs, accepts = [], [], []
            for x in o:
                m = re.match(r"model=(\[.*?\]) accept=(\d) spec=(\[.*?\]) pre=(\[.*\])$", x)
                if not m:
                    ml = re.match(r"model=(.*) spec=(.*) pre=(.*)$", x)
                    if ml:                                  # the last line of the report (exception-class variants)
                        models.append("last=" + ml.group(1))
                        c.payload["_last_spec"] = ml.group(2)
                        c.payload["_last_pre"] = ml.group(3)
                    else:
                        models.append(x)
                    continue
                models.append(m.group(1))
                accepts.append(m.group(2))
                specs.append(m.group(3))
                c.payload.setdefault("_pre", []).append(m.group(4))
            c.model = " ; ".join(models) if o else (None if not c.line else "err")
            c.spec = " ; ".join(specs)
            c.payload["_accept"] = accepts
            if not c.line:
                c.model = c.impl        # nothing was raised: nothing to format
            c.line = " ;; ".join(c.line) if isinstance(c.line, list) else c.line
        else:
            if o:
                i = o[0].rfind(" spec=")
                c.model = entry_model_string(o[0][len("model="):i])
                c.spec = entry_model_string(o[0][i + len(" spec="):])
                if len(o) > 1:
                    ml = re.match(r"model=(.*) spec=(.*) pre=(.*)$", o[1])
                    c.model += " ;; load=" + (ml.group(1) if ml else o[1])
                    c.spec += " ;; load=" + (ml.group(2) if ml else "")
                    c.payload["_load_pre"] = ml.group(3) if ml else None
            c.line = " ;; ".join(c.line) if isinstance(c.line, list) else c.line


common._execute = _execute


def verdict(c):
    p = c.payload
    r = p.get("_run", {})
    if r.get("inconclusive"):
        return None
    if p["kind"] == "tb":
        if r["impl"] == "no-exception" or r.get("oracle") == "no-exception":
            return None if r["impl"] == r.get("oracle") else f"exception raised on one side only: pyscript {r['impl'][:40]} CPython {r.get('oracle', '')[:40]}"
        if any(a != "1" for a in p.get("_accept", [])):
            return "frame sequence outside the frame grammar"
        if r.get("chain_impl") != r.get("chain_py"):
            return (f"chained sections of the report differ: pyscript prints {r.get('chain_impl')} "
                    f"({len(r['impl'].split(' ; '))} tracebacks), CPython {r.get('chain_py')} ({len(r['oracle'].split(' ; '))})")
        a, b = script_only(r["impl"]), r["oracle"]
        if a != b:
            return f"traceback differs from CPython: pyscript {a} CPython {b}"
        lp, lc = _unq(r.get("last_ps", "")), _unq(r.get("last", ""))
        if p.get("tag") == "arity" or p.get("fault") == "arity_ml":
            lp, lc = lp.split(":")[0], lc.split(":")[0]   # the wording of the argument binder's TypeError is C03's topic
        if lp != lc:
            return f"exception type/message differs: pyscript {r.get('last_ps')!r} CPython {r.get('last')!r}"
        return None
    res, exp = r["res"], r["expected"]
    if "setup_failed" in res:
        return f"load: a file that raises at load time takes the whole integration down ({res['setup_failed']})"
    focus = p.get("focus", "main")
    # one deviation is systematic (every run shows it): it is judged by its own cases (focus), so that it cannot mask
    # a different violation in the same run
    if focus == "load-import":
        by = {}
        for n, tb, last in res["load"]["script"]:
            by.setdefault(n, []).append(tb)
        if len(by.get("file.badimp", [])) != 1:
            return f"load: {len(by.get('file.badimp', []))} records for file.badimp"
        got = [t.replace("|file.badimp|", "|<module>|").replace("|modules.badmod|", "|<module>|") for t in by["file.badimp"][0]]
        if got != exp["badimp"][-1]:
            return f"load-import: traceback of badimp.py {got} differs from CPython {exp['badimp'][-1]}"
        return None
    for need in ("file.a", "file.good"):
        if need not in res["load"]["loaded"]:
            return f"load: {need} is not loaded although only other files fail"
    want = {"trig_func": ("t_func", 0), "trig_expr": ("f", None), "active_expr": ("f", None), "service": ("svc", 0),
            "task_create": ("f_task", 0), "done_callback": ("cb", 0), "event_expr": ("f", None), "mqtt_expr": ("f", None),
            "webhook_expr": ("f", None), "svc_response": ("svc_r", 0), "trig_func_x3": ("t_func", 0),
            "service_x3": ("svc", 0), "same_instance": ("svc_pre_a", 0)}
    deferred = None
    for kind in ENTRY_KINDS:
        k = res[kind]
        if k["propagated"] or k["propagated_after"]:
            return f"{kind}: exception propagated to the caller ({k['propagated'] or k['propagated_after']})"
        if k["recs_after"] < 1:
            return f"{kind}: the occurrence after the fault was not served"
        if k["recs_fault"] != 0:
            return f"{kind}: the faulty run completed"
        nrep = FAULT_REPEAT.get(kind, 1)
        if len(k["script"]) != nrep or k["other"]:
            return (f"{kind}: {len(k['script'])} error record(s) on the script's logger, {len(k['other'])} on "
                    f"{sorted({n for n, _ in k['other']})} (expected exactly {nrep}, on the script's logger)")
        if kind == "same_instance":
            gots = [tb for _n, tb, _last in k["script"]]
            wants = [exp.get("svc_pre_a", [[]])[-1], exp.get("svc_pre_b", [[]])[-1]]
            if gots != wants:
                return (f"same_instance: the reports of ONE exception object raised from two places are {gots}, "
                        f"CPython reports {wants}")
            continue
        if len({(tuple(tb), last) for _n, tb, last in k["script"]}) != 1:
            return f"{kind}: the {nrep} reports of the same error differ from each other"
        name, tb, last = k["script"][0]
        key, _ = want[kind]
        expect = exp[key][-1] if key in exp else None
        # expressions are evaluated on their own evaluator: the expression frame itself has no CPython counterpart
        got = [t for t in tb if not (t.split("|")[1].startswith("file.a.") and "@" in t)]
        got = [t for t in got if "@" not in t.split("|")[1] and not t.split("|")[1].endswith(" state_trigger")]
        if kind in EXPR_KINDS:
            got = [t for t in got if t.split("|")[1] in ("f", "g")]
        if expect is not None and got != expect:
            return f"{kind}: logged traceback {got} differs from CPython {expect}"
        if exp.get(key + "_last") and _unq(last) != _unq(exp[key + "_last"]) and kind not in EXPR_KINDS:
            return f"{kind}: logged exception line {last!r} differs from {exp[key + '_last']!r}"
        if key in exp and kind not in EXPR_KINDS:
            causes = k.get("causes", [[]])[0]
            if causes != exp[key][:-1] and deferred is None:
                # judged last: a deviation in the cause part must not hide anything else in this run
                deferred = f"{kind}: logged cause traceback {causes} differs from CPython {exp[key][:-1]}"
    for fn, _var, evaluated in STARTUP_KINDS:
        k = res["startup"][fn]
        if k["other"]:
            return (f"startup {fn}: the error of the trigger expression's first evaluation is reported on "
                    f"{sorted({n for n, _ in k['other']})}, not on the script's logger")
        if len(k["script"]) != (1 if evaluated else 0):
            return f"startup {fn}: {len(k['script'])} error record(s) on the script's logger for the start-up evaluation"
        for n, tb, last in k["script"]:
            if not last.startswith("TypeError") or not any(t.startswith("c.py|") for t in tb):
                return f"startup {fn}: record without exception type / script frame: {last[:60]!r} {tb}"
        if k["recs_after"] != 1 or k["errors_after"]:
            return (f"startup {fn}: after the failed start-up evaluation a later occurrence was served {k['recs_after']} "
                    f"time(s) with {k['errors_after']} error(s) (expected once, none)")
    ld = res["load"]
    for need in ("file.a", "file.good"):
        if need not in ld["loaded"]:
            return f"load: {need} is not loaded although only other files fail"
    for bad in ("file.bad", "file.badimp"):
        if bad in ld["loaded"]:
            return f"load: {bad} raised at load time but is registered"
    # ---- syntax errors / class-body failure
    for bad in ("file.syn", "file.synimp", "file.badcls"):
        if bad in ld["loaded"]:
            return f"load: {bad} failed at load time but is registered"
    if "file.synexpr" not in ld["loaded"]:
        return "load: a syntax error in ONE trigger expression string unloaded the whole file synexpr.py"
    if ld["services"] != ["synexpr_after", "synexpr_before"]:
        return f"load: services left/missing after the syntax-error files: {ld['services']}"
    if ld["syn_recs"] != ["synexpr_after", "synexpr_before"]:
        return f"load: runs after the syntax-error files: {ld['syn_recs']} (the trigger with the broken expression must not run)"
    byn = {}
    for n, tb, last in ld["syn_script"]:
        byn.setdefault(n.split(".")[1], []).append((n, tb, last))
    for key, rel, nrec in (("syn", "syn.py", 1), ("synmod", "modules/synmod.py", 1)):
        recs = byn.get(key, [])
        lineno, msg = exp["syntax:" + rel]
        if len(recs) != nrec:
            return f"load: {len(recs)} error record(s) on the logger of {rel} for its syntax error"
        n, tb, last = recs[0]
        if last != msg or not tb or tb[-1].split("|")[0] != rel or tb[-1].split("|")[2] != str(lineno):
            return f"load: syntax error of {rel} reported as {last!r} at {tb[-1:]} (CPython: {msg!r}, line {lineno})"
    if len(byn.get("synimp", [])) != 1 or byn["synimp"][0][2] != exp["syntax:modules/synmod.py"][1]:
        return f"load: importer of the module with the syntax error: {len(byn.get('synimp', []))} record(s)"
    se = byn.get("synexpr", [])
    if len(se) != 1 or not se[0][2].startswith("SyntaxError"):
        return f"load: syntax error in a trigger expression string: {len(se)} record(s) {[x[2] for x in se]}"
    bc = byn.get("badcls", [])
    if len(bc) != 1:
        return f"load: {len(bc)} records for badcls.py"
    got_last, want_last = bc[0][1][-1:], exp["badcls"][-1][-1:]
    if [x.split("|")[0::2] for x in got_last] != [x.split("|")[0::2] for x in want_last]:
        return f"load: class-body failure of badcls.py reported at {got_last}, CPython {want_last}"
    if ld.get("leftover"):
        return f"load: file.bad raised at load time but parts of it are still live: {ld['leftover']}"
    by = {}
    for n, tb, last in ld["script"]:
        by.setdefault(n, []).append(tb)
    if len(by.get("file.bad", [])) != 1:
        return f"load: {len(by.get('file.bad', []))} records for file.bad"
    got = [t.replace("|file.bad|", "|<module>|") for t in by["file.bad"][0]]
    if got != exp["bad"][-1]:
        return f"load: traceback of bad.py {got} differs from CPython {exp['bad'][-1]}"
    if len(by.get("file.badimp", [])) != 1:
        return f"load: {len(by.get('file.badimp', []))} records for file.badimp"
    if not res["good_served"]:
        return "load: a healthy file's service does not work"
    return deferred


def _ents(part):
    return [x for x in part.strip("[]").split(" ") if x]


def _explain(ea, eb, last, p):
    """why pyscript's entries `ea` differ from CPython's `eb` for one exception of the chain (None = unexplained)"""
    if ea == eb:
        return "same"
    if len(ea) < len(eb) and _merged(ea, eb):
        return "adjacent-same-function-frames-merged"
    if len(ea) < len(eb) and "decorated" in p["links"] and _merged(ea, _rename_wrappers(eb)):
        return "decorator-wrapper-frame-renamed-and-merged"
    if len(ea) == len(eb) and all(x.split("|")[2] == y.split("|")[2] for x, y in zip(ea, eb)) and all(
            x == y or (y.split("|")[1] == "<module>" and y.split("|")[0].startswith("modules/")) for x, y in zip(ea, eb)):
        return "imported-module-load-frames-attributed-to-importing-file"
    for nm in p.get("inlined", []):
        if len(ea) < len(eb) and _inline(eb, nm) == ea:
            return "genexpr-frame-missing" if nm == "<genexpr>" else "class-body-frame-missing"
    if len(ea) < len(eb) and [y for y in eb if y.split("|")[1] != "<lambda>"] == ea:
        # a lambda is compiled natively as `__lambda_defn_temp__` with the evaluator's NAME as file name: its frame is
        # not a script frame
        return "lambda-frame-not-a-script-frame"
    if not last and len(ea) == 1 and len(eb) == 1 and ea[0].split("|")[2] == eb[0].split("|")[2] and \
            ea[0].split("|")[1] in ("<module>", "file.a.f0"):
        # the traceback of a cause/context starts inside a function body: there is no EvalFunc.call frame in it
        return "chained-cause-attributed-to-the-evaluator-not-the-function"
    return None


def _unq(line):
    """`pkg.mod.Class: msg` -> `Class: msg` (a class defined in a script has eval.py's module name: C03, not C18)"""
    head, sep, rest = line.partition(":")
    return head.split(".")[-1] + sep + rest


def classify(c, reason):
    p = c.payload
    if p["kind"] == "tb":
        r = p["_run"]
        if "differs from CPython" in reason:
            pa, pb = script_only(r["impl"]).split(" ; "), r["oracle"].split(" ; ")
            if len(pa) != len(pb):
                return "tb-differs:chain-length"
            why = [_explain(_ents(x), _ents(y), i == len(pa) - 1, p) for i, (x, y) in enumerate(zip(pa, pb))]
            if all(w is not None for w in why):
                labels = sorted({w for w in why if w != "same"})
                if labels:
                    return labels[0]
            return "tb-differs:frames"
        if reason.startswith("exception type/message differs") and "<exception str() failed>" in r.get("last_ps", "") \
                and "<exception str() failed>" not in r.get("last", ""):
            return "script-exception-class-__str__-not-usable"
        return "tb:" + re.sub(r"\d+", "N", reason)[:50]
    if reason.startswith(("trig_func:", "trig_func_x3:")) and not p["legacy"] and "on ['function']" in reason:
        return "new-subsystem-trigger-function-error-not-on-script-logger"
    if reason.startswith("load: file.bad raised at load time but parts of it are still live: ['bad_shutdown ran during the load pass']") \
            and p["legacy"]:
        return "failed-load-runs-its-shutdown-trigger-function"
    if reason.startswith("load-import:"):
        return "imported-module-load-frames-attributed-to-importing-file"
    m = re.search(r"logged cause traceback (\[.*\]) differs from CPython (\[.*\])$", reason)
    if m:
        import ast as _ast
        got, want = _ast.literal_eval(m.group(1)), _ast.literal_eval(m.group(2))
        if len(got) == len(want) and all(len(a) == 1 and len(b) == 1 and a[0].split("|")[2] == b[0].split("|")[2]
                                         and a[0].split("|")[1].startswith(("file.", "modules.", "apps."))
                                         for a, b in zip(got, want)):
            return "chained-cause-attributed-to-the-evaluator-not-the-function"
    return "entry:" + re.sub(r"\d+", "N", reason.split(":")[0] + ":" + reason.split(":", 1)[1][:40])


def _inline(eb, name):
    """CPython runs a class body / generator expression as its own code object (frame `name`); pyscript evaluates it
    inline: the enclosing frame's entry disappears and the inner entry carries the enclosing function's name"""
    out = []
    for e in eb:
        f, n, l = e.split("|")
        if n == name and out:
            pf, pn, _pl = out.pop().split("|")
            out.append(f"{f}|{pn}|{l}")
        else:
            out.append(e)
    return out


def _rename_wrappers(eb):
    """CPython's `wrapper` frame carries the decorated function's name in pyscript"""
    out = list(eb)
    for i in range(len(out) - 1):
        f, n, l = out[i].split("|")
        if n == "wrapper":
            out[i] = f"{f}|{out[i + 1].split('|')[1]}|{l}"
    return out


def _merged(ea, eb):
    """ea is eb with runs of adjacent entries of one (file, function) collapsed to their last element"""
    out = []
    for e in eb:
        if out and out[-1].rsplit("|", 1)[0] == e.rsplit("|", 1)[0]:
            out[-1] = e
        else:
            out.append(e)
    return out == ea


def replay_cases(obj):
    p = obj["case"]
    p.pop("_run", None)
    for k in ("_accept", "_pre", "_last_spec", "_last_pre", "_load_pre"):
        p.pop(k, None)
    return [Case(p, entry_line(p) if p["kind"] == "entry" else None)]


def extra_coverage(cases):
    faults, links, entries, depth = {}, {}, {}, {}
    for c in cases:
        for t in c.tags:
            for d, pre in ((faults, "fault:"), (links, "link:"), (entries, "entry:"), (depth, "depth:")):
                if t.startswith(pre):
                    d[t[len(pre):]] = d.get(t[len(pre):], 0) + 1
    acc = sum(1 for c in cases if c.payload["kind"] == "tb" for a in c.payload.get("_accept", []) if a == "1")
    return {"guards": dict(GUARD_STATS, note="a Home Assistant case killed by the wall-clock net is run again alone; "
                                               "if it is killed again it is inconclusive (no verdict, no tie)"),
            "fault_kinds": faults, "link_kinds": links, "tb_entry": entries, "chain_depth": depth,
            "frame_sequences_accepted_by_grammar": acc,
            "entry_kinds_per_ha_case": ENTRY_KINDS + ["load", "load-import", "load-syntax-main", "load-syntax-module", "load-syntax-trigger-expression", "load-class-body"] + ["startup:" + k[0] for k in STARTUP_KINDS],
            "spec_column_equals_cpython": sum(1 for c in cases if c.payload["kind"] == "tb" and c.spec is not None
                                              and script_only(c.spec) == c.payload["_run"].get("oracle"))}


if __name__ == "__main__":
    import random
    rng = random.Random(int(sys.argv[1]) if len(sys.argv) > 1 else 0)
    for p in fixed_tb_cases() + [build_tb_case(rng, 3, ["method", "multiline", "decorated"], "from_caught", 1, 2, 2, 1, "call")]:
        r = run_tb(p)
        print("==", p.get("tag"), p["entry"])
        print(" impl  ", r["impl"], "|", r.get("last_ps"))
        for l in r["lines"]:
            print(" model ", common.drive([l])[0])
        print(" oracle", r["oracle"])
