"""Run pyscript's interpreter in-process with a stub hass (no Home Assistant instance)."""
import asyncio
import logging
import types

import common  # noqa: F401  (puts REPO on sys.path)

from custom_components.pyscript.const import CONFIG_ENTRY, DOMAIN
from custom_components.pyscript.eval import AstEval
from custom_components.pyscript.function import Function
from custom_components.pyscript.global_ctx import GlobalContext, GlobalContextMgr
from custom_components.pyscript.state import State


class _CfgEntry:
    def __init__(self, data=None):
        self.data = dict(data or {})


_inited = False


def setup_stub(loop=None, config=None):
    """Idempotent: install a stub hass good enough for AstEval (imports, functions, log)."""
    global _inited
    logging.disable(logging.CRITICAL)
    loop = loop or asyncio.get_event_loop()
    hass = types.SimpleNamespace(
        data={DOMAIN: {CONFIG_ENTRY: _CfgEntry(config or {})}}, loop=loop,
        states=types.SimpleNamespace(get=lambda n: None, async_entity_ids=lambda *a: [], async_all=lambda *a: []),
        services=types.SimpleNamespace(has_service=lambda d, s: False, async_services=lambda: {}),
        config=types.SimpleNamespace(config_dir="/nonexistent", path=lambda *a: "/nonexistent"),
    )

    async def _exec_job(func, *args):
        return func(*args)

    hass.async_add_executor_job = _exec_job
    Function.hass = hass
    State.hass = hass
    GlobalContextMgr.hass = hass if hasattr(GlobalContextMgr, "hass") else None
    from custom_components.pyscript.decorator import DecoratorRegistry
    if not _inited:
        Function.functions.update({
            "task.sleep": Function.async_sleep,
        })
        Function.ast_functions.update({
            "log.debug": lambda ast_ctx: ast_ctx.get_logger().debug,
            "log.error": lambda ast_ctx: ast_ctx.get_logger().error,
            "log.info": lambda ast_ctx: ast_ctx.get_logger().info,
            "log.warning": lambda ast_ctx: ast_ctx.get_logger().warning,
            "print": lambda ast_ctx: ast_ctx.get_logger().debug,
        })
        try:
            DecoratorRegistry.init(hass)
        except Exception:
            pass
        _inited = True
    return hass


def set_allow_all_imports(flag):
    Function.hass.data[DOMAIN][CONFIG_ENTRY].data["allow_all_imports"] = flag


def new_ctx(name="test", gsym=None):
    g = GlobalContext(name, global_sym_table=gsym if gsym is not None else {}, manager=GlobalContextMgr)
    a = AstEval(name, global_ctx=g)
    Function.install_ast_funcs(a)
    return g, a


async def run_src(src, gsym=None, name="test"):
    """Parse+eval `src`; returns (result, exception-or-None, globals)."""
    g, a = new_ctx(name, gsym)
    exc = None
    res = None
    try:
        a.parse(src)
        res = await a.eval()
    except BaseException as e:  # pylint: disable=broad-except
        exc = e
    return res, exc, g.global_sym_table
