"""Virtual-clock asyncio loop (see DESIGN.md Appendix B)."""
import asyncio
import heapq


class VirtualLoop(asyncio.SelectorEventLoop):
    """time() is virtual; when nothing is ready and no executor job is in flight the clock jumps to the next timer
    that is not beyond `horizon` (set by settle())."""

    T0 = 1000.0

    def __init__(self):
        super().__init__()
        self._vt = self.T0
        self._clock_resolution = 1e-6
        self.horizon = self.T0
        self._idle_waiter = None
        self._inflight = 0

    def time(self):
        return self._vt

    def vnow(self):
        """virtual seconds since start, rounded to the millisecond grid"""
        return round(self._vt - self.T0, 3)

    def run_in_executor(self, executor, func, *args):
        self._inflight += 1
        fut = super().run_in_executor(executor, func, *args)

        def _done(_f):
            self._inflight -= 1
        fut.add_done_callback(_done)
        return fut

    def _run_once(self):
        while self._scheduled and self._scheduled[0]._cancelled:
            h = heapq.heappop(self._scheduled)
            h._scheduled = False
        if not self._ready and self._inflight == 0:
            nxt = self._scheduled[0]._when if self._scheduled else None
            if nxt is not None and nxt <= self.horizon:
                if nxt > self._vt:
                    self._vt = nxt
            else:
                if self._vt < self.horizon:
                    self._vt = self.horizon
                if self._idle_waiter is not None and not self._idle_waiter.done():
                    self._idle_waiter.set_result(None)
        super()._run_once()

    async def settle(self, dt=0.0):
        """Advance virtual time by dt seconds (relative to now), running everything that becomes due."""
        self.horizon = max(self.horizon, self._vt) if dt <= 0 else self._vt + dt
        if dt <= 0:
            self.horizon = self._vt
        for _ in range(3):
            self._idle_waiter = self.create_future()
            await self._idle_waiter
        self._idle_waiter = None

    async def settle_until(self, t):
        """Advance to absolute virtual time t (seconds since start)."""
        dt = self.T0 + t - self._vt
        await self.settle(dt if dt > 0 else 0)
