"""C07 correspondence + property oracle: @time_active windows, @state_active, hold_off in both trigger subsystems.

Three streams
  active   TrigTime.timer_active_check(list, now, startup) called directly (pure function; thousands of cases)
  handler  TimeActiveDecorator.handle_dispatch called directly on occurrence sequences (new subsystem, exact times)
  ha       real Home Assistant + pyscript on the virtual clock, scripts with state / event / time triggers guarded by
           @state_active / @time_active(hold_off=…), every scenario under legacy=True and legacy=False, plus direct calls

The same spec AST is rendered to the pyscript string, to the S-expression for the Lean driver, and interpreted by an
independent Python oracle (datetime based) which is what `verdict` compares the implementation with.
(The AST / rendering / oracle helpers are shared with run_C06.)
"""
import asyncio
import datetime as dt
import itertools
import json
import logging
import random
import re
import types
from fractions import Fraction
from unittest.mock import patch

import common
from common import Case, sx

PROP = "C07"
RULE = ("active: lists of 0-4 positive/negated range()/cron() specifications (daily h:m[:s[.f]], noon/midnight, full dates, "
        "month/day, weekday names, today/tomorrow, now-relative, sunrise/sunset, offsets in all units, wrapping ranges, "
        "non-existent dates) x evaluation times = every resolved end point and end point +-1us, plus random times of a "
        "two-year window; handler: the same lists through TimeActiveDecorator.handle_dispatch on occurrence sequences with "
        "gaps around hold_off (incl. exact ties); ha: scripts of 6-8 functions (state / event / time triggers, optional "
        "trigger expression, state_hold with window end points inside the hold, 40 % of the functions with further trigger decorators "
        "of the same and of other types (two @state_trigger on different entities, two @event_trigger, state+event+time), @state_active over watched / unwatched / missing entities and .old, @time_active windows "
        "around the scenario times, hold_off, both decorator orders) driven by timed scenarios on the virtual clock under "
        "both subsystems, with direct calls interleaved.  Boundary values: lists of touching / empty (start == end) / wrapping / "
        "whole-day (0:00-24:00, 23:60, 23:59:60) ranges in positive, `not` and mixed form at every end point +-1us, crontab entries "
        "with ranges / steps / lists / names / both day fields at matching and non-matching minutes, upper-case / capitalised / "
        "blank-padded spellings, zero offsets, 29 Feb / 31 Dec / 1 Jan dates, hold_off 0 / 0.0 / 1 ms / None, @state_active over "
        "attributes, @service on guarded functions (service calls run ungated), a guard decorator used twice.  Non-trivial: at least "
        "one specification or occurrence; distinct by payload.")
ASSUMPTIONS = [
    "croniter.match and astral sunrise/sunset are parameters of the model (cronMatch, sun); croniter is compared with an "
    "independent crontab field matcher, astral is called directly by the oracle",
    "time.monotonic() never goes back (hypothesis Mono of the theorems); dt_now() is the virtual wall clock",
    "the @state_active expression's VALUE on the triggering values is an input of the model (computed here by an "
    "independent Python evaluation of the same expression); the interpreter itself is C01's subject",
    "no @task_unique(kill_me=True) on the guarded function (call_action then always starts the action)",
    "string tokenisation (regular expressions of timer_active_check / parse_date_time) is covered by correspondence only",
]
TRUSTED = ["harness/run_C07.py (spec AST renderer, Python oracle, scenario driver)", "harness/ha_env.py, harness/vclock.py",
           "modelled not verified: croniter, astral, Home Assistant event bus / state machine"]

EPOCH = dt.datetime(1970, 1, 1)
US = dt.timedelta(microseconds=1)
BASE = dt.datetime(2024, 6, 3, 12, 0, 0)     # ha_env.BASE (a Monday)
DOW_SHORT = ["sun", "mon", "tue", "wed", "thu", "fri", "sat"]
DOW_LONG = ["sunday", "monday", "tuesday", "wednesday", "thursday", "friday", "saturday"]
UNITS = {"s": 1, "sec": 1, "second": 1, "seconds": 1, "": 1, "m": 60, "min": 60, "mins": 60, "minute": 60, "minutes": 60,
         "h": 3600, "hr": 3600, "hour": 3600, "hours": 3600, "d": 86400, "day": 86400, "days": 86400,
         "w": 604800, "week": 604800, "weeks": 604800}


def us_of(t):
    return (t - EPOCH) // US


def dt_of(us):
    return EPOCH + dt.timedelta(microseconds=us)


# ------------------------------------------------------------------------------------------------ spec AST
# dt   = ["at", date, time, off] | ["now", off]
# date = ["full", y, m, d] | ["md", m, d] | ["dow", k] | "today" | "tomorrow" | "none"
# time = ["hms", h, m, us] | "noon" | "midnight" | "sunrise" | "sunset" | "none"
# off  = None | [sign(+1/-1), "number-literal", "unit"]
# aspec = {"neg": bool, "kind": "range", "s": dt, "e": dt} | {"neg": bool, "kind": "cron", "expr": "…"}

def off_us(off):
    if off is None:
        return 0
    sign, num, unit = off
    v = Fraction(num) * UNITS[unit] * 1000000
    assert v.denominator == 1, off
    return int(sign) * int(v)


def render_off(off, style):
    if off is None:
        return ""
    sign, num, unit = off
    sp1 = " " if style & 1 else ""
    sp2 = " " if style & 2 else ""
    return f"{sp1}{'+' if sign > 0 else '-'}{sp2}{num}{' ' if style & 4 and unit else ''}{unit}"


def render_time(tm, style):
    if isinstance(tm, str):
        return "" if tm == "none" else tm
    _, h, m, us = tm
    s, f = divmod(us, 1000000)
    z = "0" if style & 8 else ""
    out = f"{z if h < 10 else ''}{h}:{m:02d}" if style & 16 else f"{h}:{z if m < 10 else ''}{m}"
    if us or style & 32:
        out += f":{s:02d}" if not f else f":{s:02d}." + f"{f:06d}".rstrip("0")
    return out


def render_date(d, style):
    if isinstance(d, str):
        return "" if d == "none" else d
    sep = "-" if style & 64 else "/"
    if d[0] == "full":
        return f"{d[1]}{sep}{d[2]:02d}{sep}{d[3]:02d}" if style & 128 else f"{d[1]}{sep}{d[2]}{sep}{d[3]}"
    if d[0] == "md":
        return f"{d[1]:02d}{sep}{d[2]:02d}" if style & 128 else f"{d[1]}{sep}{d[2]}"
    return (DOW_LONG if style & 256 else DOW_SHORT)[d[1]]


def respell(s, style):
    """the spellings parse_date_time accepts besides the documented lower-case one: bit 1024 upper case, 2048 capitalised words,
    4096 runs of blanks between the parts and around the whole"""
    if style & 1024:
        s = s.upper()
    elif style & 2048:
        s = s.title()
    if style & 4096:
        s = "  " + s.replace(" ", "   ") + " "
    return s


def render_dt(d, style=0):
    if d[0] == "now":
        return respell("now" + render_off(d[1], style | 1), style)
    _, date, tm, off = d
    parts = [p for p in (render_date(date, style), render_time(tm, style)) if p]
    body = " ".join(parts)
    o = render_off(off, style | (1 if body else 0))
    return respell((body + o).strip() if body else o.strip(), style)


def render_aspec(a, style=0):
    neg = "not " if a["neg"] else ""
    if a["kind"] == "cron":
        return f"{neg}cron({a['expr']})"
    comma = ", " if style & 512 else ","
    return f"{neg}range({render_dt(a['s'], style)}{comma}{render_dt(a['e'], style >> 1 | style & 512)})"


def sx_date(d):
    return d if isinstance(d, str) else list(d)


def sx_dt(d):
    if d[0] == "now":
        return ["now", off_us(d[1])]
    return ["at", sx_date(d[1]), sx_date(d[2]), off_us(d[3])]


# ------------------------------------------------------------------------------------------------ oracle
class Sun:
    """astral called directly (the `sun` parameter of the model); remembers every lookup for the driver's table"""
    _loc = None

    def __init__(self):
        self.rows = {}

    @classmethod
    def loc(cls):
        if cls._loc is None:
            import astral
            import astral.location
            cls._loc = astral.location.Location(astral.LocationInfo("v", "v", "America/Los_Angeles", 38, -122))
        return cls._loc

    def get(self, rise, day):
        """naive local datetime truncated to the second, or None when not defined"""
        key = ("rise" if rise else "set", (day - EPOCH.date()).days)
        if key not in self.rows:
            try:
                t = (self.loc().sunrise if rise else self.loc().sunset)(day)
                self.rows[key] = dt.datetime(t.year, t.month, t.day, t.hour, t.minute, t.second)
            except Exception:  # pylint: disable=broad-except
                self.rows[key] = None
        return self.rows[key]

    def table(self):
        return [[k[0], k[1], "none" if v is None else us_of(v)] for k, v in sorted(self.rows.items())]


def oracle_dt(d, ref, startup, day_offset=0, sun=None):
    """what a datetime specification denotes, relative to the reference instant `ref` (raises ValueError for a
    non-existent date).  Returns (datetime, fixed_date)."""
    if d[0] == "now":
        return startup + off_us(d[1]) * US, True
    _, date, tm, off = d
    today = ref.date()
    fixed = True
    if date == "none":
        day, fixed = today + dt.timedelta(days=day_offset), False
    elif date == "today":
        day = today
    elif date == "tomorrow":
        day = today + dt.timedelta(days=1)
    elif date[0] == "full":
        day = dt.date(date[1], date[2], date[3])
    elif date[0] == "md":
        day = dt.date(today.year, date[1], date[2])
    else:  # the first such weekday on or after today
        day = next(today + dt.timedelta(days=i) for i in range(7)
                   if (today + dt.timedelta(days=i)).isoweekday() % 7 == date[1])
    mid = dt.datetime(day.year, day.month, day.day)
    if tm in ("sunrise", "sunset"):
        t = (sun or Sun()).get(tm == "sunrise", day)
        if t is None:
            return mid - dt.timedelta(days=100), fixed
    elif tm == "noon":
        t = mid + dt.timedelta(hours=12)
    elif tm in ("midnight", "none"):
        t = mid
    else:
        t = mid + dt.timedelta(hours=tm[1], minutes=tm[2], microseconds=tm[3])
    return t + off_us(off) * US, fixed


CRON_NAMES = {"jan": 1, "feb": 2, "mar": 3, "apr": 4, "may": 5, "jun": 6, "jul": 7, "aug": 8, "sep": 9, "oct": 10, "nov": 11, "dec": 12,
              "sun": 0, "mon": 1, "tue": 2, "wed": 3, "thu": 4, "fri": 5, "sat": 6}


def _cron_field(f, lo, hi, v, wrap7=False):
    f = re.sub(r"[a-z]{3}", lambda m: str(CRON_NAMES[m.group(0)]), f.lower())
    for part in f.split(","):
        step = 1
        if "/" in part:
            part, st = part.split("/")
            step = int(st)
        if part == "*":
            a, b = lo, hi
        elif "-" in part:
            a, b = map(int, part.split("-"))
        else:
            a = int(part)
            b = hi if step != 1 else a
        vs = set(range(a, b + 1, step))
        if wrap7 and 7 in vs:
            vs.add(0)
        if v in vs:
            return True
    return False


def cron_match(expr, t):
    """crontab semantics on the five fields; seconds are ignored; day-of-month and day-of-week are OR-ed when both are
    restricted"""
    mi, hr, dom, mon, dow = expr.split()
    if not (_cron_field(mi, 0, 59, t.minute) and _cron_field(hr, 0, 23, t.hour) and _cron_field(mon, 1, 12, t.month)):
        return False
    d_ok = _cron_field(dom, 1, 31, t.day)
    w_ok = _cron_field(dow, 0, 6, t.isoweekday() % 7, wrap7=True)
    if dom.startswith("*") and dow.startswith("*"):
        return d_ok and w_ok
    if dom.startswith("*"):
        return w_ok
    if dow.startswith("*"):
        return d_ok
    return d_ok or w_ok


def range_ends(a, now, startup, sun):
    s, _ = oracle_dt(a["s"], now, startup, 0, sun)
    e, _ = oracle_dt(a["e"], s, startup, 0, sun)
    return s, e


def oracle_hit(a, now, startup, sun):
    if a["kind"] == "cron":
        return cron_match(a["expr"], now)
    s, e = range_ends(a, now, startup, sun)
    if s <= e:
        return s <= now <= e
    return not e < now < s


def oracle_window(specs, now, startup, sun=None):
    """True / False / 'raise' – the property's reading: (no positive spec or some positive matches) and no negative matches"""
    sun = sun or Sun()
    try:
        hits = [oracle_hit(a, now, startup, sun) for a in specs]
    except ValueError:
        return "raise"
    pos = [h for a, h in zip(specs, hits) if not a["neg"]]
    neg = [h for a, h in zip(specs, hits) if a["neg"]]
    return (not pos or any(pos)) and not any(neg)


def sx_specs(specs, cron_ids):
    out = []
    for a in specs:
        if a["kind"] == "cron":
            out.append([a["neg"], "cron", cron_ids.setdefault(a["expr"], len(cron_ids))])
        else:
            out.append([a["neg"], "range", sx_dt(a["s"]), sx_dt(a["e"])])
    return out


def cron_table(cron_ids, times):
    return [[i, us_of(t), cron_match(e, t)] for e, i in sorted(cron_ids.items(), key=lambda kv: kv[1]) for t in times]


# ------------------------------------------------------------------------------------------------ generators
def gen_off(rng, big=False):
    if rng.random() < 0.55:
        return None
    unit = rng.choice(["s", "sec", "seconds", "", "m", "min", "mins", "minutes", "h", "hr", "hours", "d", "day", "days",
                       "w", "week"] if big else ["s", "sec", "", "m", "min", "minutes", "h", "hr", "hour"])
    sc = UNITS[unit]
    if rng.random() < 0.06:
        return [rng.choice([1, -1]), rng.choice(["0", "0.0", "00"]), unit]      # "+0s", "- 0.0 min": the instant itself
    if sc == 1:
        num = rng.choice(["1", "30", "90", "0.5", "12.345", "3600", "0.001", "59.999"])
    elif sc == 60:
        num = rng.choice(["1", "5", "20", "90", "2.5", "0.25", "30"])
    elif sc == 3600:
        num = rng.choice(["1", "2", "1.5", "0.5", "12", "25"])
    else:
        num = rng.choice(["1", "2", "0.5"])
    return [rng.choice([1, -1]), num, unit]


def gen_time(rng, sunok):
    r = rng.random()
    if r < 0.05:
        # edge values of the h:m[:s] form: the end of the day written as 24:00 / 23:60 / 23:59:60, its last microsecond, 0:00
        return rng.choice([["hms", 24, 0, 0], ["hms", 23, 60, 0], ["hms", 23, 59, 60000000], ["hms", 23, 59, 59999999], ["hms", 0, 0, 0],
                           ["hms", 0, 0, 1], ["hms", 12, 0, 0]])
    if r < 0.62:
        us = rng.choice([0, 0, 0, 1000000 * rng.randrange(60), 1000000 * rng.randrange(60) + rng.choice([500000, 250000, 1, 999999, 123456])])
        return ["hms", rng.choice([0, 1, 6, 9, 11, 12, 13, 18, 22, 23, rng.randrange(24)]), rng.choice([0, 0, 30, 59, rng.randrange(60)]), us]
    if r < 0.74:
        return "noon"
    if r < 0.84:
        return "midnight"
    if r < 0.92 and sunok:
        return rng.choice(["sunrise", "sunset"])
    return "none"


def gen_date(rng, base):
    r = rng.random()
    d = base.date() + dt.timedelta(days=rng.choice([0, 0, 0, 1, -1, 2, -3, 7, 30, -30, 365]))
    if r < 0.41:
        return "none"
    if r < 0.45:
        y = base.year
        return rng.choice([["full", 2024, 2, 29], ["md", 2, 29], ["md", 12, 31], ["md", 1, 1], ["full", y, 12, 31], ["full", y + 1, 1, 1],
                           ["md", 2, 28], ["md", 3, 1], ["full", y, 1, 1]])
    if r < 0.62:
        return ["full", d.year, d.month, d.day]
    if r < 0.72:
        return ["md", d.month, d.day]
    if r < 0.84:
        return ["dow", rng.randrange(7)]
    if r < 0.90:
        return "today"
    if r < 0.96:
        return "tomorrow"
    return rng.choice([["md", 2, 30], ["md", 2, 29], ["full", 2023, 2, 29], ["md", 4, 31], ["full", base.year, 13, 1]])


def gen_dt(rng, base, sunok=True):
    if rng.random() < 0.1:
        return ["now", gen_off(rng)]
    date = gen_date(rng, base)
    tm = gen_time(rng, sunok)
    off = gen_off(rng, big=rng.random() < 0.3)
    if date == "none" and tm == "none" and off is None:
        tm = "midnight"
    return ["at", date, tm, off]


CRONS = ["* * * * *", "0 12 * * *", "*/5 * * * *", "30-45 6-10 * * *", "0 0 1 * *", "* * * * 1", "* 12 3 6 *",
         "15,45 9-17 * * 1-5", "* * 29 2 *", "0-29 * * * 0", "* 0-11 * * *", "59 23 31 12 *", "* * 3 * 2", "* * 1-7 * 1",
         "*/15 */6 * * *", "* * * 6 *", "0 12 * * 7"]


def gen_aspec(rng, base, sunok=True):
    neg = rng.random() < 0.4
    if rng.random() < 0.15:
        return {"neg": neg, "kind": "cron", "expr": rng.choice(CRONS)}
    s = gen_dt(rng, base, sunok)
    if rng.random() < 0.5 and s[0] == "at":
        # same date form for the end, other time: the common shapes (daily / dated / weekday windows, wrapping or not)
        e = ["at", s[1], gen_time(rng, sunok), gen_off(rng)]
        if e[1] == "none" and e[2] == "none" and e[3] is None:
            e[2] = "midnight"
    else:
        e = gen_dt(rng, base, sunok)
    return {"neg": neg, "kind": "range", "s": s, "e": e}


def rand_base(rng):
    special = [dt.datetime(2024, 2, 29, 12), dt.datetime(2024, 2, 28, 23, 59, 59, 999999), dt.datetime(2024, 3, 1),
               dt.datetime(2023, 12, 31, 23, 59, 59, 999999), dt.datetime(2024, 1, 1), dt.datetime(2025, 2, 28, 12),
               dt.datetime(2024, 3, 10, 2, 30), dt.datetime(2024, 11, 3, 1, 30), dt.datetime(2024, 6, 30, 23, 59, 59),
               dt.datetime(2023, 7, 1), dt.datetime(2025, 6, 30, 23, 0)]
    if rng.random() < 0.25:
        return rng.choice(special)
    t = dt.datetime(2023, 7, 1) + dt.timedelta(days=rng.randrange(730), seconds=rng.randrange(86400))
    if rng.random() < 0.3:
        t += dt.timedelta(microseconds=rng.randrange(1000000))
    return t


def _active_cases(rng, specs, strs, base, startup, tags, extra=(), limit=9):
    """one list of specifications x evaluation times: every resolved end point and 1 us either side, `base`, `startup`"""
    sun = Sun()
    times = {base, startup}
    for a in specs:
        if a["kind"] != "range":
            times.add(base.replace(second=0, microsecond=0))
            times.add(base.replace(second=59, microsecond=999999))
            continue
        try:
            s, e = range_ends(a, base, startup, sun)
        except ValueError:
            continue
        for p in (s, e):
            if dt.datetime(1971, 1, 1) < p < dt.datetime(2100, 1, 1):
                times.update((p, p - US, p + US))
    times = sorted(times)
    if limit and len(times) > limit:
        times = sorted(rng.sample(times, limit))
    times = sorted(set(times) | set(extra))
    as_str = len(strs) == 1 and rng.random() < 0.5
    return [Case({"kind": "active", "specs": specs, "strs": strs, "now": us_of(now), "startup": us_of(startup), "as_str": as_str},
                 None, tags=tags) for now in times]


def gen_active(rng, n_lists):
    cases = []
    for _ in range(n_lists):
        base = rand_base(rng)
        startup = base - dt.timedelta(seconds=rng.choice([0, 0, 1, 60, 3600, 86400 * 3]))
        specs = [gen_aspec(rng, base) for _ in range(rng.choice([0, 1, 1, 1, 2, 2, 3, 4]))]
        style = rng.randrange(8192)
        strs = [render_aspec(a, style) for a in specs]
        cases += _active_cases(rng, specs, strs, base, startup, ("active",), extra=[rand_base(rng)])
    return cases


# crontab expressions with times that do / do not match (hand-picked: ranges, steps, lists, names, day-of-month and day-of-week
# both restricted (either one suffices), days that never / rarely exist)
D_ = dt.datetime
CRON_POINTS = [
    ("0 12 13 * 5", [D_(2024, 6, 13, 12), D_(2024, 6, 14, 12), D_(2024, 9, 13, 12), D_(2024, 6, 15, 12), D_(2024, 6, 13, 12, 1)]),
    ("0 0 1-7 * 1", [D_(2024, 6, 3), D_(2024, 6, 10), D_(2024, 6, 4), D_(2024, 6, 11)]),
    ("* * * jan,jun mon-fri", [D_(2024, 6, 3, 12), D_(2024, 6, 2, 12), D_(2024, 7, 3, 12), D_(2024, 1, 1)]),
    ("* * * JAN MON", [D_(2024, 1, 1), D_(2024, 1, 2), D_(2024, 2, 5)]),
    ("0 0 30 2 *", [D_(2024, 2, 29), D_(2024, 3, 1)]),
    ("0 0 31 4,6 *", [D_(2024, 6, 30), D_(2024, 7, 1)]),
    ("0 0 29 2 *", [D_(2024, 2, 29), D_(2025, 2, 28), D_(2025, 3, 1)]),
    ("*/7 8-10,14 1-7 * *", [D_(2024, 6, 3, 14, 0), D_(2024, 6, 3, 14, 7), D_(2024, 6, 3, 14, 8), D_(2024, 6, 8, 14, 0), D_(2024, 6, 7, 10, 56),
                             D_(2024, 6, 7, 11, 0)]),
    ("0 0 * * 7", [D_(2024, 6, 2), D_(2024, 6, 3)]),
    ("0 0 * * 0,6", [D_(2024, 6, 1), D_(2024, 6, 2), D_(2024, 6, 3)]),
    ("59 23 31 12 *", [D_(2024, 12, 31, 23, 59), D_(2024, 12, 31, 23, 58, 59, 999999), D_(2025, 1, 1)]),
    ("10-20/5 */12 * * *", [D_(2024, 6, 3, 12, 10), D_(2024, 6, 3, 12, 15), D_(2024, 6, 3, 12, 20), D_(2024, 6, 3, 12, 25), D_(2024, 6, 3, 13, 10), D_(2024, 6, 3, 0, 20)]),
]


def gen_active_boundary(rng, n):
    """boundary shapes of a @time_active list, evaluated at every end point and 1 us either side: ranges that touch, that are empty
    (start == end), that wrap midnight, that span the whole day (0:00 .. 24:00), each as positive and as `not` entry and mixed;
    crontab entries with ranges / steps / lists / names / both day fields at matching and non-matching minutes"""
    cases = []

    def at(m, us=0, date="none"):
        return ["at", date, ["hms", m // 60, m % 60, us], None]

    def rg(neg, s, e):
        return {"neg": neg, "kind": "range", "s": s, "e": e}
    shapes = ["touch", "touch-not", "touch-mixed", "empty", "empty-not", "empty+other", "wrap-touch", "wrap-not", "whole-day", "whole-day-not",
              "nested-not", "same-twice", "dated-touch", "dow-touch"]
    for i in range(n):
        shape = shapes[i % len(shapes)]
        base = rand_base(rng).replace(hour=0, minute=0, second=0, microsecond=0)
        a, b, c = sorted(rng.sample(range(1, 24 * 60 - 1), 3))
        us = rng.choice([0, 0, 500000, 59999999])
        date = "none"
        if shape == "dated-touch":
            date = ["full", base.year, base.month, base.day]
        elif shape == "dow-touch":
            date = ["dow", base.isoweekday() % 7]
        A, B, C = at(a, 0, date), at(b, us, date), at(c, 0, date)
        specs = {
            "touch": [rg(False, A, B), rg(False, B, C)],
            "touch-not": [rg(True, A, B), rg(True, B, C)],
            "touch-mixed": [rg(False, A, B), rg(True, B, C)],          # b belongs to both: the negative entry wins
            "empty": [rg(False, B, B)],
            "empty-not": [rg(True, B, B)],
            "empty+other": [rg(False, B, B), rg(rng.random() < 0.5, A, C), rg(False, C, C)],
            "wrap-touch": [rg(False, C, A), rg(False, A, B)],         # 22:00 .. 6:00 next to 6:00 .. 9:00
            "wrap-not": [rg(True, C, A), rg(False, B, C)],
            "whole-day": [rg(False, at(0), rng.choice([at(24 * 60), ["at", "none", ["hms", 23, 60, 0], None], ["at", "none", ["hms", 23, 59, 59999999], None]]))],
            "whole-day-not": [rg(True, ["at", "none", "midnight", None], at(24 * 60)), rg(False, A, B)],
            "nested-not": [rg(False, A, C), rg(True, B, B)],            # a one-instant hole
            "same-twice": [rg(False, A, B), rg(False, A, B), rg(True, C, C)],
            "dated-touch": [rg(False, A, B), rg(rng.random() < 0.5, B, C)],
            "dow-touch": [rg(False, A, B), rg(rng.random() < 0.5, B, C)],
        }[shape]
        startup = base - dt.timedelta(seconds=rng.choice([0, 3600]))
        style = rng.randrange(8192)
        strs = [render_aspec(x, style) for x in specs]
        day0 = base
        extra = [day0, day0 - US, day0 + dt.timedelta(days=1), day0 + dt.timedelta(days=1) - US, day0 + dt.timedelta(days=1) + US]
        cases += _active_cases(rng, specs, strs, base + dt.timedelta(minutes=b), startup, ("active", "boundary", shape), extra=extra, limit=0)
    for expr, pts in CRON_POINTS:
        for neg in (False, True):
            specs = [{"neg": neg, "kind": "cron", "expr": expr}]
            if rng.random() < 0.5:
                specs.append(rg(rng.random() < 0.5, at(0), at(12 * 60)))
            strs = [render_aspec(x, rng.randrange(8192)) for x in specs]
            for now in pts:
                for t in (now, now - US, now + dt.timedelta(seconds=59, microseconds=999999), now + dt.timedelta(minutes=1)):
                    cases.append(Case({"kind": "active", "specs": specs, "strs": strs, "now": us_of(t), "startup": us_of(pts[0]), "as_str": False},
                                      None, tags=("active", "boundary", "cron")))
    return cases


def gen_handler(rng, n):
    """occurrence sequences for TimeActiveDecorator.handle_dispatch (new subsystem) – windows x hold_off"""
    cases = []
    for _ in range(n):
        base = rand_base(rng).replace(microsecond=0)
        startup = base - dt.timedelta(seconds=rng.choice([0, 5, 3600]))
        specs = [gen_aspec(rng, base, sunok=False) for _ in range(rng.choice([0, 1, 1, 2, 2, 3, 4]))]
        specs = [a for a in specs if not _raises(a, base, startup)]
        strs = [render_aspec(a, rng.randrange(8192)) for a in specs]
        # hold_off: absent / 0 / 0.0 (no hold-off at all), tiny (1 ms: only occurrences closer than that are dropped), usual values
        hold = rng.choice([None, None, 0, 0.0, 0.001, 0.001, 1, 2.5, 10])
        evs, t, wall = [], 1000 + rng.randrange(5), base
        pts = []
        sun = Sun()
        for a in specs:
            if a["kind"] == "range":
                s, e = range_ends(a, base, startup, sun)
                pts += [s, e, s - US, e + US]
        for _ in range(rng.randrange(2, 9)):
            gap = rng.choice([0.25, 0.5, 1, 2, 2.5, 3, 9.75, 10, 10.25]) if hold else rng.choice([0.25, 1, 5])
            if hold and hold >= 1 and rng.random() < 0.4:
                gap = rng.choice([hold, hold - 0.25, hold + 0.25])
            if hold == 0.001:
                gap = rng.choice([0.0004, 0.0004, 0.0007, 0.002, 0.25, 1])     # sums never equal 1 ms: no tie decided by float rounding
            elif not hold and rng.random() < 0.3:
                gap = 0.0                                               # two occurrences in the same tick
            t = round(t + (gap if hold == 0.001 or not hold else max(gap, 0.25)), 6)
            wall = rng.choice(pts) if pts and rng.random() < 0.6 else wall + dt.timedelta(seconds=gap)
            evs.append({"t": t, "wall": us_of(wall), "tt": rng.random() < 0.5})
        # non-existent dates (2/29 in another year …) belong to the `active` stream: an exception in the middle of a
        # dispatch sequence has no counterpart in the guard model
        keep = [i for i, a in enumerate(specs) if not any(_raises(a, dt_of(e["wall"]), startup) for e in evs)]
        specs, strs = [specs[i] for i in keep], [strs[i] for i in keep]
        cases.append(Case({"kind": "handler", "specs": specs, "strs": strs, "hold": hold, "startup": us_of(startup),
                           "events": evs}, None, tags=("handler",)))
    return cases


def _raises(a, base, startup):
    try:
        if a["kind"] == "range":
            range_ends(a, base, startup, Sun())
        return False
    except ValueError:
        return True


# ---- state_active expressions: (source, python evaluation on the triggering values)
# ctx: val(name) -> triggering value if `name` caused the trigger, else current state (None when missing);
#      old(name) -> previous value of the variable that caused the state trigger, else None
SA_EXPRS = [
    ("pyscript.en == '1'", lambda c: c.val("en") == "1", ["pyscript.en"]),
    ("pyscript.en", lambda c: c.val("en"), ["pyscript.en"]),
    ("int(pyscript.cnt) % 2", lambda c: int(c.val("cnt")) % 2, ["pyscript.cnt"]),
    ("pyscript.nosuch", lambda c: None, ["pyscript.nosuch"]),
    ("pyscript.x.old == None or int(pyscript.x.old) % 2 == 0", lambda c: c.old("x") is None or int(c.old("x")) % 2 == 0,
     ["pyscript.x.old"]),
    ("int(pyscript.x) % 2 == 0 and pyscript.en == '1'", lambda c: int(c.val("x")) % 2 == 0 and c.val("en") == "1",
     ["pyscript.x", "pyscript.en"]),
    ("int(pyscript.cnt) and pyscript.en == '1'", lambda c: int(c.val("cnt")) and c.val("en") == "1",
     ["pyscript.cnt", "pyscript.en"]),
    ("1 / int(pyscript.cnt) > 0", lambda c: 1 / int(c.val("cnt")) > 0, ["pyscript.cnt"]),
    ("pyscript.x.old", lambda c: c.old("x"), ["pyscript.x.old"]),
    ("pyscript.en == '1' or pyscript.nosuch.attr == 3", lambda c: c.val("en") == "1" or False,
     ["pyscript.en", "pyscript.nosuch.attr"]),
    ("pyscript.en != '1'", lambda c: c.val("en") != "1", ["pyscript.en"]),
    ("pyscript.cnt != '0' and pyscript.en != '0'", lambda c: c.val("cnt") != "0" and c.val("en") != "0",
     ["pyscript.cnt", "pyscript.en"]),
    ("pyscript.cnt != '1'", lambda c: c.val("cnt") != "1", ["pyscript.cnt"]),
    # attributes (pyscript.cnt carries the attribute `level` = int(state)): an int compared, an int as the value itself (0 is falsy
    # but not False), an attribute that the existing entity does not have
    ("pyscript.cnt.level >= 2", lambda c: c.attr("cnt", "level") >= 2, ["pyscript.cnt.level"]),
    ("pyscript.cnt.level", lambda c: c.attr("cnt", "level"), ["pyscript.cnt.level"]),
    ("pyscript.cnt.nolevel == None and pyscript.en == '1'", lambda c: c.val("en") == "1", ["pyscript.cnt.nolevel", "pyscript.en"]),
]


def aval(fn, ctx):
    try:
        v = fn(ctx)
    except Exception:  # pylint: disable=broad-except
        return "R"
    if v is False:
        return "F"
    return "T" if v else "Z"


class Ctx:
    """name resolution of the expression: the local table first (the dictionary notify_var_get built), then the current
    states"""

    def __init__(self, state, table):
        self.state, self.table = state, table

    def val(self, name):
        key = "pyscript." + name
        if key in self.table:
            return self.table[key]
        return self.state.get(name)

    def old(self, name):
        return self.table.get("pyscript." + name + ".old")

    def attr(self, name, a):
        key = "pyscript." + name + "." + a
        if key in self.table:
            return self.table[key]
        return int(self.state[name])          # only pyscript.cnt has attributes: level = int(state)


def var_dict(names, new_vars, state, last_x):
    """State.notify_var_get(names, new_vars): triggering values, else the last notified value of a watched variable, else
    None for what does not exist; existing unwatched variables are NOT included (they are read at evaluation time)"""
    d = dict(new_vars)
    for n in names:
        if n in d:
            continue
        parts = n.split(".")
        root = parts[1]
        if n == "pyscript.x" and last_x is not None:
            d[n] = last_x
        elif len(parts) == 3 and root == "x" and last_x is not None:
            d[n] = None            # getattr(StateVal, "old", None)
        elif len(parts) == 2 and state.get(root) is None:
            d[n] = None
        elif len(parts) == 3 and root == "cnt" and parts[2] == "level" and state.get("cnt") is not None:
            pass                   # exists and is not watched: read when the expression is evaluated
        elif len(parts) == 3:
            d[n] = None            # no such attribute
    return d


def sec_str(t):
    """BASE + t seconds rendered as h:m:s[.f] (t a multiple of 1/8 s)"""
    x = BASE + dt.timedelta(seconds=t)
    s = f"{x.hour}:{x.minute:02d}:{x.second:02d}"
    return s + (("." + f"{x.microsecond:06d}".rstrip("0")) if x.microsecond else "")


def gen_window_near(rng, horizon, points=None):
    """@time_active arguments whose end points lie inside the scenario (seconds after BASE); with `points` the end
    points are taken from that list (the time-trigger instants: exact end-point hits through the whole trigger path)"""
    specs = []
    for _ in range(rng.choice([0, 1, 1, 2, 2, 3, 4])):
        neg = rng.random() < 0.4
        r = rng.random()
        if r < 0.12:
            specs.append({"neg": neg, "kind": "cron", "expr": rng.choice(["0 12 * * *", "1 12 * * *", "* * * * 1", "0-1 12 3 6 *", "*/2 * * * *", "* * * * 2"])})
            continue
        if points:
            a, b = sorted(rng.sample(points, 2)) if len(points) > 1 else (points[0], points[0])
        else:
            a, b = sorted(rng.sample(range(0, int(horizon * 4)), 2))
            a, b = a / 4, b / 4
        if r < 0.3:
            a, b = b, a   # wraps
        elif r < 0.4:
            b = a         # empty: start == end (only that instant)
        def mk(t):
            x = BASE + dt.timedelta(seconds=t)
            tm = ["hms", x.hour, x.minute, x.second * 1000000 + x.microsecond]
            k = rng.random()
            if k < 0.6:
                return ["at", "none", tm, None]
            if k < 0.7:
                return ["at", ["full", 2024, 6, 3], tm, None]
            if k < 0.8:
                return ["at", ["dow", 1], tm, None]
            if k < 0.9:
                return ["now", [1, str(t), rng.choice(["s", "sec", ""])]] if t == int(t) and not points else ["at", "today", tm, None]
            return ["at", "none", "noon", [1, str(t), "s"]] if t == int(t) else ["at", ["md", 6, 3], tm, None]
        specs.append({"neg": neg, "kind": "range", "s": mk(a), "e": mk(b)})
        if r >= 0.85 and len(specs) < 4:
            # a second range that touches the first one at its end (that instant belongs to both)
            c = rng.choice(points) if points else rng.randrange(0, int(horizon * 4)) / 4
            specs.append({"neg": rng.random() < 0.4, "kind": "range", "s": mk(b), "e": mk(c)})
    return specs


def gen_ha(rng, n_scen):
    """scenarios: stimuli on the 1/4 s grid, time-trigger instants on odd multiples of 1/8 s (never tie with a stimulus)"""
    cases = []
    for sc_i in range(n_scen):
        horizon = rng.choice([12, 20, 70])
        nst = rng.randrange(10, 22)
        times = sorted(rng.sample(range(2, int(horizon * 4)), nst))
        stim, seq = [[0.25, "en", rng.choice(["0", "1"])], [0.5, "cnt", rng.choice(["0", "1", "2"])]], 0
        holds = [None, 0, 0.0, 0.001, 1, 1.5, 2, 5]
        last_trig = None
        for k in times:
            t = k / 4 + 0.5
            # bias: put some occurrences exactly one hold_off after an earlier trigger (exact ties)
            if last_trig is not None and rng.random() < 0.25:
                t2 = last_trig + rng.choice([1, 1.5, 2, 5])
                if t2 > stim[-1][0]:
                    t = t2
            if t <= stim[-1][0]:
                t = stim[-1][0] + 0.25
            r = rng.random()
            if r < 0.38:
                seq += 1
                stim.append([t, "x", str(seq)])
                last_trig = t
            elif r < 0.58:
                seq += 1
                stim.append([t, "ev", seq])
                last_trig = t
            elif r < 0.62:
                seq += 1
                stim.append([t, "y", str(seq)])
                last_trig = t
            elif r < 0.66:
                seq += 1
                stim.append([t, "ev2", seq])
                last_trig = t
            elif r < 0.78:
                stim.append([t, "en", rng.choice(["0", "1"])])
            elif r < 0.88:
                stim.append([t, "cnt", rng.choice(["0", "1", "2", "3"])])
            elif r < 0.94:
                seq += 1
                stim.append([t, "direct", seq])
            else:
                seq += 1
                stim.append([t, "svc", seq])          # every function that is also a @service is called as pyscript.f<i>
        end = stim[-1][0] + 1
        funcs = []
        # "tick" scenarios: dt_now() advances 1 us per call, so a time trigger wakes up slightly AFTER its instant and
        # only `trigger_time` hits a window end exactly; only time-trigger functions, no hold_off, no now-relative specs
        tick = rng.random() < 0.3
        for fi in range(rng.choice([6, 7, 8])):
            trig = "time" if tick else rng.choice(["state", "state", "event", "event", "time"])
            f = {"trig": trig, "expr": rng.random() < 0.4, "sa": rng.choice([None, None] + list(range(len(SA_EXPRS)))),
                 "ta": rng.random() < 0.75, "sa_first": rng.random() < 0.5, "trig_pos": rng.choice(["top", "bottom", "mid"]),
                 "style": rng.randrange(8192)}
            if trig == "time":
                ks = sorted(rng.sample(range(1, int(end * 4)), min(rng.randrange(3, 9), int(end * 4) - 1)))
                f["instants"] = [k / 4 + 0.125 for k in ks]
                f["startup"] = rng.random() < 0.3 and not tick
            pts = f["instants"] if tick else None
            if trig == "state" and not tick and rng.random() < 0.45:
                # state_hold on odd multiples of 1/8 s: a completion never coincides with a stimulus; window end points are
                # put INSIDE the hold intervals (the gates must see the completion instant, not the start of the hold)
                f["shold"] = rng.choice([0.375, 1.125, 2.125])
                mids = [s[0] + f["shold"] / 2 for s in stim if s[1] == "x"]
                if len(mids) >= 2 and rng.random() < 0.75:
                    f["ta"] = True
                    pts = mids
            f["specs"] = (gen_window_near(rng, end, pts)) if f["ta"] else []
            f["hold"] = rng.choice(holds) if f["ta"] and not tick else None
            if f["ta"] and f["hold"] is None and rng.random() < 0.3:
                f["hold_kw_none"] = True          # hold_off=None written out
            if rng.random() < 0.3:
                f["svc"] = rng.choice(["top", "bottom"])     # @service above / below the other decorators
            if not tick and "shold" not in f and rng.random() < 0.4:
                # several trigger decorators on one function: a second one of the same type (legacy: a second trigger task
                # that must carry the same guards) and / or one of another type
                own = {"state": "sx", "event": "e1", "time": "tm"}[trig]
                same = {"sx": ["sy"], "e1": ["e2"], "tm": []}[own]
                other = [m for m in ("sx", "sy", "e1", "e2") if m != own and m not in same]
                f["more"] = (same if rng.random() < 0.8 else []) + rng.sample(other, rng.choice([0, 0, 1, 2]))
            elif not tick and "shold" not in f and rng.random() < 0.35:
                # a guard decorator used twice (documented: "only a single @state_active / @time_active per function")
                if f["sa"] is not None and not f["hold"] and rng.random() < 0.5:
                    f["dup"] = {"kind": "sa", "sa2": rng.randrange(len(SA_EXPRS))}
                    f.pop("svc", None)
                elif f["ta"] and f["hold"] is None:
                    negs = [dict(a, neg=True) for a in gen_window_near(rng, end, pts) if a["kind"] == "range"][:2]
                    f["dup"] = {"kind": "ta", "specs2": negs}
                    f.pop("svc", None)
                    f.pop("hold_kw_none", None)
            funcs.append(f)
        scen = {"id": sc_i, "stim": stim, "funcs": funcs, "end": end, "tick": tick}
        for legacy in (True, False):
            for fi in range(len(funcs)):
                cases.append(Case({"kind": "ha", "legacy": legacy, "scen": scen, "fi": fi}, None,
                                  tags=("ha", "legacy" if legacy else "new", funcs[fi]["trig"])))
    return cases


def gen_cases(rng, tier, search):
    k = {"quick": 1, "thorough": 8}[tier] * (3 if search else 1)
    cases = corpus_cases()
    cases += gen_active(rng, 260 * k)
    cases += gen_active_boundary(rng, 56 * k)
    cases += gen_handler(rng, 150 * k)
    cases += gen_ha(rng, 14 * k)
    return cases


def corpus_cases():
    """hand-written cases that are always run: the witnesses of the findings (open: F2; fixed by e0254f9 / 07af69d / 4801d95:
    F1, F3, F4 - these now must behave as the property says, they are regression cases)"""
    def rng_spec(neg, a, b):
        return {"neg": neg, "kind": "range", "s": ["at", "none", ["hms", a[0], a[1], 0], None], "e": ["at", "none", ["hms", b[0], b[1], 0], None]}
    out = []
    mixed = [rng_spec(False, (11, 0), (13, 0)), rng_spec(True, (11, 30), (12, 30))]
    twoneg = [rng_spec(True, (11, 30), (12, 30)), rng_spec(True, (13, 0), (14, 0))]
    for specs in (mixed, twoneg):
        strs = [render_aspec(a) for a in specs]
        for now in (BASE, BASE.replace(hour=11, minute=15), BASE.replace(hour=12, minute=30), BASE.replace(hour=12, minute=30, microsecond=1)):
            out.append(Case({"kind": "active", "specs": specs, "strs": strs, "now": us_of(now), "startup": us_of(BASE), "as_str": False}, None, tags=("active", "corpus")))
        out.append(Case({"kind": "handler", "specs": specs, "strs": strs, "hold": None, "startup": us_of(BASE),
                         "events": [{"t": 1000, "wall": us_of(BASE), "tt": True}, {"t": 1001, "wall": us_of(BASE.replace(hour=11, minute=15)), "tt": False}]},
                        None, tags=("handler", "corpus")))
    # Home Assistant scenario with one function per finding (both subsystems)
    def fn(trig, sa, ta, specs, hold, sa_first):
        return {"trig": trig, "expr": False, "sa": sa, "ta": ta, "sa_first": sa_first, "trig_pos": "bottom", "style": 0,
                "specs": specs, "hold": hold}
    en_eq = 0       # "pyscript.en == '1'"      (pyscript.en exists before the first event)
    nosuch = 3      # "pyscript.nosuch"         (None: falsy but not False)
    cnt_ne = 12     # "pyscript.cnt != '1'"     (pyscript.cnt does not exist at the first event)
    funcs = [fn("event", None, True, mixed, None, True),          # F1 (fixed) mixed sign (BASE is 12:00)
             fn("state", None, True, twoneg, None, True),         # F1 (fixed) two negatives
             fn("event", en_eq, True, [], 5, False),              # F2 (open) time_active above state_active, hold_off
             fn("event", en_eq, True, [], 5, True),               #    control: the other order
             fn("event", nosuch, False, [], None, True),          # F3 (fixed) falsy, not False
             fn("event", cnt_ne, False, [], None, True),          # F4 (fixed) stale table
             dict(fn("state", None, True, [{"neg": False, "kind": "range", "s": ["at", "none", ["hms", 12, 0, 2500000], None],
                                            "e": ["at", "none", ["hms", 12, 0, 11000000], None]}], None, True), shold=1.125)]
    # last function: state_hold=1.125 - the change at 2.0 s completes at 3.125 s (window entered at 2.5 s: must run), the change
    # at 10.5 s completes at 11.625 s (window left at 11 s: must not run); seeded change C07_1 evaluated the start of the hold
    stim = [[0.5, "en", "0"], [1.0, "ev", 1], [2.0, "x", "2"], [3.0, "cnt", "1"], [3.5, "en", "1"], [4.0, "ev", 3],
            [4.5, "direct", 4], [7.0, "ev", 5], [9.0, "ev", 6], [10.0, "ev", 7], [10.5, "x", "8"], [14.0, "ev", 9]]
    scen = {"id": "corpus", "stim": stim, "funcs": funcs, "end": 15.0}
    for legacy in (True, False):
        for fi in range(len(funcs)):
            out.append(Case({"kind": "ha", "legacy": legacy, "scen": scen, "fi": fi}, None,
                            tags=("ha", "corpus", "legacy" if legacy else "new", funcs[fi]["trig"])))
    # several trigger decorators per function (legacy: one trigger task per k-th decorator of a type; every task must carry the
    # guards - seeded change C07_3 dropped them from the second task; hold_off per task is the open finding C07-F5)
    win = [rng_spec(False, (11, 0), (13, 0))]
    funcs2 = [dict(fn("state", en_eq, False, [], None, True), more=["sy"]),            # guard false -> neither x nor y runs
              dict(fn("event", None, True, twoneg, None, True), more=["e2", "sy"]),    # window excludes 12:00 for all three
              dict(fn("state", en_eq, True, win, None, False), more=["sy", "e1", "e2"]),
              dict(fn("state", None, True, [], 5, True), more=["sy"]),                 # C07-F5 witness
              dict(fn("time", en_eq, False, [], None, True), more=["sx", "sy"], instants=[1.625, 6.125], startup=False)]
    stim2 = [[0.5, "en", "0"], [1.0, "x", "1"], [2.0, "y", "2"], [2.5, "ev", 3], [3.0, "x", "4"], [3.5, "ev2", 5], [4.0, "en", "1"],
             [5.0, "y", "6"], [5.5, "ev2", 7], [6.0, "direct", 8], [7.0, "y", "9"], [7.5, "x", "10"], [8.0, "ev", 11]]
    scen2 = {"id": "corpus2", "stim": stim2, "funcs": funcs2, "end": 9.0}
    for legacy in (True, False):
        for fi in range(len(funcs2)):
            out.append(Case({"kind": "ha", "legacy": legacy, "scen": scen2, "fi": fi}, None,
                            tags=("ha", "corpus", "multi", "legacy" if legacy else "new", funcs2[fi]["trig"])))
    # boundary values: a guard decorator used twice (finding C07-F6), @service on a guarded function (service calls are not gated),
    # hold_off 0.0 / 1 ms / None, attribute expressions, an empty range and two touching ranges hit exactly by time triggers
    def hms(t):
        x = BASE + dt.timedelta(seconds=t)
        return ["at", "none", ["hms", x.hour, x.minute, x.second * 1000000 + x.microsecond], None]

    def rg(neg, a, b):
        return {"neg": neg, "kind": "range", "s": hms(a), "e": hms(b)}
    lvl_ge2, lvl = 13, 14
    funcs3 = [dict(fn("event", en_eq, False, [], None, True), dup={"kind": "sa", "sa2": cnt_ne}),       # en == '1' and cnt != '1'
              dict(fn("state", None, True, [rg(False, 0, 8)], None, True), dup={"kind": "ta", "specs2": [rg(True, 2.5, 4.25)]}),
              dict(fn("event", en_eq, True, [rg(False, 100, 200)], 100, True), svc="top"),                  # never by trigger
              dict(fn("state", en_eq, False, [], None, True), svc="bottom"),
              fn("event", None, True, [], 0.0, True),
              fn("event", None, True, [], 0.001, False),
              dict(fn("event", None, True, [], None, True), hold_kw_none=True),
              fn("event", lvl_ge2, False, [], None, True),
              fn("state", lvl, True, [], 0, False),
              dict(fn("time", None, True, [rg(False, 3.125, 3.125)], None, True), instants=[2.125, 3.125, 4.125], startup=False),
              dict(fn("time", None, True, [rg(False, 2.125, 3.125), rg(True, 3.125, 4.125)], None, True),
                   instants=[2.125, 3.125, 4.125, 5.125], startup=False),
              dict(fn("time", None, True, [rg(False, 2.125, 3.125), rg(False, 3.125, 4.125)], None, True),
                   instants=[1.125, 2.125, 3.125, 4.125, 5.125], startup=False)]
    stim3 = [[0.25, "en", "1"], [0.5, "cnt", "0"], [1.0, "ev", 1], [1.5, "x", "2"], [2.0, "svc", 3], [2.5, "cnt", "2"], [3.0, "ev", 4],
             [3.5, "x", "5"], [4.0, "cnt", "1"], [4.5, "ev", 6], [5.0, "direct", 7], [5.5, "en", "0"], [6.0, "svc", 8], [6.5, "ev", 9],
             [7.0, "x", "10"]]
    scen3 = {"id": "corpus3", "stim": stim3, "funcs": funcs3, "end": 8.0, "tick": True}
    scen3b = dict(scen3, id="corpus3b", tick=False)
    for sc in (scen3b, scen3):
        for legacy in (True, False):
            for fi in range(len(funcs3)):
                if sc["tick"] != (funcs3[fi]["trig"] == "time"):
                    continue        # the time-trigger functions on the ticking clock (exact end-point hits), the others on the plain one
                out.append(Case({"kind": "ha", "legacy": legacy, "scen": sc, "fi": fi}, None,
                                tags=("ha", "corpus", "boundary", "legacy" if legacy else "new", funcs3[fi]["trig"])))
    # every guard position (trigger kind x @state_active alone / above / below @time_active x trigger decorator at the top / in
    # the middle / at the bottom) with a value that is falsy but not False (None), that raises (1 / 0) and that is truthy but not
    # True (1): seeded change C07_6 let non-bool values through in one position only
    allday = [{"neg": False, "kind": "range", "s": ["at", "none", ["hms", 0, 0, 0], None], "e": ["at", "none", ["hms", 24, 0, 0], None]}]
    stim4 = [[0.25, "en", "1"], [0.5, "cnt", "0"], [1.0, "ev", 1], [1.5, "x", "2"], [2.0, "direct", 3], [4.0, "cnt", "1"], [4.5, "ev", 4], [5.0, "x", "5"]]
    for tag, idx in (("none", nosuch), ("raises", 7), ("int", 2)):
        funcs4 = []
        for trig in ("state", "event", "time"):
            for ta, sa_first in ((False, True), (True, True), (True, False)):
                for pos in ("top", "mid", "bottom"):
                    f = dict(fn(trig, idx, ta, allday if ta else [], None, sa_first), trig_pos=pos)
                    if trig == "time":
                        f.update(instants=[1.625, 5.125], startup=False)
                    funcs4.append(f)
        scen4 = {"id": "corpus4-" + tag, "stim": stim4, "funcs": funcs4, "end": 6.0}
        for legacy in (True, False):
            for fi in range(len(funcs4)):
                out.append(Case({"kind": "ha", "legacy": legacy, "scen": scen4, "fi": fi}, None,
                                tags=("ha", "corpus", "positions", "legacy" if legacy else "new", funcs4[fi]["trig"])))
    return out


# ------------------------------------------------------------------------------------------------ running the real code
_direct_ready = False


def _direct_env():
    """TrigTime outside Home Assistant: stub hass (executor jobs run inline), the real weekday table, astral location"""
    global _direct_ready
    from custom_components.pyscript import trigger
    from custom_components.pyscript.trigger import TrigTime
    async def _job(f, *a):
        return f(*a)
    stub = types.SimpleNamespace(async_add_executor_job=_job)
    if not _direct_ready:
        TrigTime.init(stub)
        _direct_ready = True
    # a Home Assistant instance run in this process in between (failing-input search: second pass) leaves its own, by now
    # stopped, hass in TrigTime.hass - sunrise/sunset would then take the "not defined at this latitude" fall-back
    TrigTime.hass = stub
    return trigger, TrigTime


def _exc_name(e):
    # ValueError is the modelled outcome "the date does not exist" (datetime() refused it)
    return "raise" if type(e) is ValueError else "raise:" + type(e).__name__


async def _run_active(c, trigger, TrigTime):
    p = c.payload
    arg = p["strs"][0] if p["as_str"] else list(p["strs"])
    try:
        r = await TrigTime.timer_active_check(arg, dt_of(p["now"]), dt_of(p["startup"]))
        c.impl = "T" if r is True else "F" if r is False else f"value:{r!r}"
    except Exception as e:  # an exception of pyscript is an outcome
        c.impl = _exc_name(e)


async def _run_handler(c, trigger):
    from custom_components.pyscript.decorators import timing
    from custom_components.pyscript.decorator_abc import DispatchData
    p = c.payload
    kwargs = {} if p["hold"] is None else {"hold_off": p["hold"]}
    dec = timing.TimeActiveDecorator(list(p["strs"]), kwargs)
    dec.dm = types.SimpleNamespace(startup_time=dt_of(p["startup"]), get_decorators=lambda t=None: [object()],
                                   func_name="f", name="file.t.f", ast_ctx=None)
    cur = {"mono": 0.0, "now": None}
    out = []
    try:
        await dec.validate()
        with patch.object(timing, "time", types.SimpleNamespace(monotonic=lambda: cur["mono"])), \
                patch.object(trigger, "dt_now", lambda: cur["now"]):
            for ev in p["events"]:
                cur["mono"], cur["now"] = float(ev["t"]), dt_of(ev["wall"])
                data = DispatchData({"trigger_type": "time", "trigger_time": cur["now"]} if ev["tt"]
                                    else {"trigger_type": "state", "value": "1"})
                if ev["tt"]:
                    cur["now"] += dt.timedelta(milliseconds=750)    # the task wakes up after the instant it was set for
                r = await dec.handle_dispatch(data)
                if r is not False and hasattr(dec, "dispatch_accepted"):
                    # what FunctionDecoratorManager.dispatch does once every handler has passed (since the fix of C07-F2 the
                    # hold-off stamp is taken there, not inside handle_dispatch)
                    dec.dispatch_accepted(data)
                out.append("0" if r is False else "1")
        c.impl = "".join(out)
    except Exception as e:
        c.impl = "".join(out) + _exc_name(e)


def _run_direct(cases):
    logging.disable(logging.CRITICAL)
    trigger, TrigTime = _direct_env()
    loop = asyncio.new_event_loop()
    asyncio.set_event_loop(loop)
    try:
        with patch.object(trigger.sun, "get_astral_location", lambda hass: (Sun.loc(), 0)):
            for c in cases:
                if c.payload["kind"] == "active":
                    loop.run_until_complete(_run_active(c, trigger, TrigTime))
                else:
                    loop.run_until_complete(_run_handler(c, trigger))
    finally:
        loop.close()
    return [c.impl for c in cases]


# ---- ha scenarios
def sources(f):
    """the trigger decorators of a function in source order and the legacy trigger task each belongs to: trigger_init starts
    one TrigInfo per k-th decorator of each type (the k-th @state_trigger, @event_trigger, ... share task k)"""
    prim = {"state": "sx", "event": "e1", "time": "tm"}[f["trig"]]
    out, cnt = {}, {}
    for src in [prim] + list(f.get("more", [])):
        typ = src[0]
        out[src] = cnt.get(typ, 0)
        cnt[typ] = out[src] + 1
    return out


def func_events(scen, fi):
    """the event list of function fi.  occurrence: t (s), id (run identifier), wall, ok (trigger condition), and for the
    @state_active expression: env (its variable dictionary is non-empty), sa (value on the triggering values), stale
    ((k, value) if the table still held the dictionary of occurrence number k)"""
    f = scen["funcs"][fi]
    x_watched = any("sx" in sources(g) for g in scen["funcs"])
    src = sources(f)
    state, evs, dicts, last_x = {}, [], [], None
    timeline = [(s[0], 0, s) for s in scen["stim"]]
    if f["trig"] == "time":
        timeline += [(t, 1, ["", "tick", t]) for t in f["instants"]]
    timeline.sort(key=lambda z: (z[0], z[1]))
    sa = SA_EXPRS[f["sa"]] if f["sa"] is not None else None
    sa2 = SA_EXPRS[f["dup"]["sa2"]] if f.get("dup", {}).get("kind") == "sa" else None

    def occ(t, ident, wall, ok, new_vars, g=0):
        e = {"t": t, "kind": "occ", "id": ident, "wall": wall, "ok": ok, "n": len(dicts) + 1, "env": True, "sa": "T", "stale": [],
             "g": g}
        if sa is not None:
            d = var_dict(sa[2], new_vars, state, last_x)
            e["env"] = bool(d)
            e["sa"] = aval(sa[1], Ctx(state, d))
            if sa2 is not None:
                # the second @state_active (new subsystem: both handlers must let the dispatch pass)
                e["sa2"] = aval(sa2[1], Ctx(state, var_dict(sa2[2], new_vars, state, last_x)))
            if not d:
                e["stale"] = [[k + 1, aval(sa[1], Ctx(state, dk))] for k, dk in enumerate(dicts) if dk]
            dicts.append(d)
        else:
            dicts.append({})
        evs.append(e)

    # state_hold: the first qualifying change starts the hold, further qualifying changes are absorbed, a change that makes
    # the trigger expression false cancels it; the OCCURRENCE the guards see is the completion (start + hold): that is the
    # occurrence time for @time_active / hold_off, the values are those of the change that started the hold
    hold = f.get("shold")
    pending = [None]

    def flush(upto):
        if pending[0] is not None and pending[0][0] + hold < upto:
            c = pending[0][0] + hold
            occ(c, pending[0][1], c, True, pending[0][2])
            pending[0] = None

    if f["trig"] == "time" and f.get("startup"):
        occ(0.0, "startup", None, True, {})     # the function is defined before any stimulus: nothing exists yet
    for t, _, s in timeline:
        what = s[1]
        if hold:
            flush(t)
        if what in ("en", "cnt"):
            state[what] = s[2]
        elif what == "x":
            oldv = state.get("x")
            state["x"] = s[2]
            if x_watched:
                last_x = s[2]
            if "sx" in src:
                ok = (int(s[2]) % 3 != 0) if f["expr"] and f["trig"] == "state" else True
                if not hold:
                    occ(t, "x" + s[2], t, ok, {"pyscript.x": s[2], "pyscript.x.old": oldv}, src["sx"])
                elif not ok:
                    pending[0] = None
                elif pending[0] is None:
                    pending[0] = [t, "x" + s[2], {"pyscript.x": s[2], "pyscript.x.old": oldv}]
        elif what == "y":
            oldy = state.get("y")
            state["y"] = s[2]
            if "sy" in src:
                occ(t, "y" + s[2], t, True, {"pyscript.y": s[2], "pyscript.y.old": oldy}, src["sy"])
        elif what == "ev":
            if "e1" in src:
                occ(t, "e" + str(s[2]), t, (s[2] % 3 != 0) if f["expr"] and f["trig"] == "event" else True, {}, src["e1"])
        elif what == "ev2":
            if "e2" in src:
                occ(t, "g" + str(s[2]), t, True, {}, src["e2"])
        elif what == "direct" or (what == "svc" and f.get("svc")):
            evs.append({"t": t, "kind": "direct", "id": "d" + str(s[2]), "svc": what == "svc"})
        elif what == "tick":
            occ(t, "t" + sec_str(t), t, True, {})
    if hold:
        flush(float("inf"))       # the scenario runs on for longer than any hold
    return evs


def script_for(scen):
    lines = ["def ident(kw):",
             "    if 'seq' in kw:",
             "        return 'd' + str(kw['seq'])",
             "    tt = kw.get('trigger_type')",
             "    if tt == 'state':",
             "        return kw.get('var_name')[-1] + str(kw.get('value'))",
             "    if tt == 'event':",
             "        return ('e' if kw.get('event_type') == 'ev' else 'g') + str(kw.get('n'))",
             "    t = kw.get('trigger_time')",
             "    if t == 'startup':",
             "        return 'startup'",
             "    s = str(t.hour) + ':' + ('%02d' % t.minute) + ':' + ('%02d' % t.second)",
             "    if t.microsecond:",
             "        s = s + '.' + ('%06d' % t.microsecond).rstrip('0')",
             "    return 't' + s",
             ""]
    for fi, f in enumerate(scen["funcs"]):
        if f["trig"] == "state":
            hk = f", state_hold={f['shold']}" if f.get("shold") else ""
            trig = f'@state_trigger("int(pyscript.x) % 3 != 0"{hk})' if f["expr"] else f'@state_trigger("pyscript.x"{hk})'
        elif f["trig"] == "event":
            trig = '@event_trigger("ev", "n % 3 != 0")' if f["expr"] else '@event_trigger("ev")'
        else:
            args = (['"startup"'] if f.get("startup") else []) + [f'"once({sec_str(t)})"' for t in f["instants"]]
            trig = "@time_trigger(" + ", ".join(args) + ")"
        guards = []
        dup = f.get("dup", {})
        if f["sa"] is not None:
            guards.append(("sa", f'@state_active("{SA_EXPRS[f["sa"]][0]}")'))
            if dup.get("kind") == "sa":
                guards.append(("sa", f'@state_active("{SA_EXPRS[dup["sa2"]][0]}")'))
        if f["ta"]:
            args = [json.dumps(render_aspec(a, f["style"])) for a in f["specs"]]
            if f["hold"] is not None:
                args.append(f"hold_off={f['hold']}")
            elif f.get("hold_kw_none"):
                args.append("hold_off=None")
            guards.append(("ta", "@time_active(" + ", ".join(args) + ")"))
            if dup.get("kind") == "ta":
                guards.append(("ta", "@time_active(" + ", ".join(json.dumps(render_aspec(a, f["style"])) for a in dup["specs2"]) + ")"))
        if not f["sa_first"]:
            guards.reverse()
        decs = [g[1] for g in guards]
        if f["trig_pos"] == "top":
            decs = [trig] + decs
        elif f["trig_pos"] == "mid" and decs:
            decs = decs[:1] + [trig] + decs[1:]
        else:
            decs = decs + [trig]
        # further trigger decorators (same or other type), below everything else
        more = {"sx": '@state_trigger("pyscript.x")', "sy": '@state_trigger("pyscript.y")', "e1": '@event_trigger("ev")',
                "e2": '@event_trigger("ev2")'}
        decs += [more[m] for m in f.get("more", [])]
        if f.get("svc"):
            decs = ["@service"] + decs if f["svc"] == "top" else decs + ["@service"]
        lines += decs + [f"def f{fi}(**kw):", f"    rec('run', {fi}, ident(kw))", ""]
    lines += ['@event_trigger("direct")', "def caller(seq=None, **kw):"]
    for fi in range(len(scen["funcs"])):
        lines.append(f"    f{fi}(seq=seq)")
    return "\n".join(lines) + "\n"


async def _goto(env, t):
    """advance the virtual clock to exactly T0 + t and let everything due run"""
    loop = env.loop
    loop.horizon = loop.T0 + t
    for _ in range(3):
        loop._idle_waiter = loop.create_future()
        await loop._idle_waiter
    loop._idle_waiter = None


def _run_scenario(arg):
    scen, legacy = arg
    from ha_env import run_ha
    from custom_components.pyscript.function import Function
    # ha_env registers `rec` only after set-up; runs started during set-up ("startup" triggers) need it earlier
    early = []
    Function.register({"rec": lambda *a: early.append([0.0] + list(a)), "vtime": lambda: 0.0})

    async def body(env):
        for t, what, v in scen["stim"]:
            await _goto(env, t)
            if what in ("ev", "ev2"):
                env.hass.bus.async_fire(what, {"n": v})
            elif what == "direct":
                env.hass.bus.async_fire("direct", {"seq": v})
            elif what == "svc":
                for fi, f in enumerate(scen["funcs"]):
                    if f.get("svc"):
                        await env.hass.services.async_call("pyscript", f"f{fi}", {"seq": v}, blocking=True)
            elif what == "cnt":
                env.hass.states.async_set("pyscript.cnt", v, {"level": int(v)})
            else:
                env.hass.states.async_set("pyscript." + what, v)
        await _goto(env, scen["end"] + 3.0)       # longer than any state_hold
        errs = sorted({m.split("\n")[-2][:80] if "\n" in m else m[:80] for (n, lvl, m) in env.log
                       if lvl == "ERROR" and "ZeroDivisionError" not in m and "pyscript.eval" not in n})
        return early + [list(r) for r in env.records], errs

    try:
        return run_ha({"c07.py": script_for(scen)}, legacy, body, vnow_tick=bool(scen.get("tick")))
    except Exception as e:  # harness-level problem for this scenario
        return "harness:" + type(e).__name__ + ":" + str(e)[:200]


def run_impl(cases):
    direct = [c for c in cases if c.payload["kind"] in ("active", "handler")]
    if direct:
        _run_direct(direct)       # ~0.3 ms per case: in-process
    ha = [c for c in cases if c.payload["kind"] == "ha"]
    groups = {}
    for c in ha:
        groups.setdefault((json.dumps(c.payload["scen"], sort_keys=True), c.payload["legacy"]), []).append(c)
    keys = list(groups)
    # ~0.2 s per scenario once Home Assistant is imported: sequential in-process beats forking workers
    results = [_run_scenario((groups[k][0].payload["scen"], k[1])) for k in keys]
    for k, res in zip(keys, results):
        for c in groups[k]:
            if isinstance(res, str):
                c.impl = res
                continue
            recs, errs = res
            ran = {}
            for r in recs:
                if len(r) >= 4 and r[1] == "run" and r[2] == c.payload["fi"]:
                    ran[r[3]] = ran.get(r[3], 0) + 1
            evs = func_events(c.payload["scen"], c.payload["fi"])
            ids = [e["id"] for e in evs]
            flags = "".join("1" if ran.get(i, 0) == 1 else "0" if ran.get(i, 0) == 0 else "M" for i in ids)
            extra = sorted(set(ran) - set(ids))
            c.impl = flags + ("" if not extra else " extra=" + ",".join(extra))
    for c in cases:
        c.line = make_line(c)


# ------------------------------------------------------------------------------------------------ driver lines
def make_line(c):
    p = c.payload
    cron_ids = {}
    if p["kind"] == "active":
        now, st = dt_of(p["now"]), dt_of(p["startup"])
        sun = Sun()
        p["_oracle"] = _show(oracle_window(p["specs"], now, st, sun))
        specs = sx_specs(p["specs"], cron_ids)
        return "C07 " + sx(["active", specs, p["now"], p["startup"], sun.table(), cron_table(cron_ids, [now])])
    if p["kind"] == "handler":
        st = dt_of(p["startup"])
        sun = Sun()
        specs = sx_specs(p["specs"], cron_ids)
        evs = [["occ", i + 1, int(round(e["t"] * 1000000)), e["wall"], True, True, "T", []] for i, e in enumerate(p["events"])]
        hold = "none" if p["hold"] is None else int(round(p["hold"] * 1000000))
        p["_oracle"] = oracle_runs(p["specs"], p["hold"], st, [{"t": e["t"], "kind": "occ", "wallus": e["wall"], "ok": True, "sa": "T"} for e in p["events"]], True, True)
        walls = sorted({dt_of(e["wall"]) for e in p["events"]})
        return "C07 " + sx(["new", "cur", [False, True, specs, hold, False, p["startup"]], evs, sun.table(), cron_table(cron_ids, walls)])
    scen, fi = p["scen"], p["fi"]
    f = scen["funcs"][fi]
    evs = func_events(scen, fi)
    f_specs, evs = merged_guards(f, evs)
    st_us = us_of(BASE)   # triggers start at virtual time 0 (ha_env settles 1 ms only after set-up)
    out, walls, oev = [], set(), []
    for e in evs:
        if e["kind"] == "direct":
            out.append("direct")
            oev.append(e)
            continue
        wall = us_of(BASE) + (0 if e["wall"] is None else int(round(e["wall"] * 1000000)))
        walls.add(dt_of(wall))
        ev = ["occ", e["n"], int(round(e["t"] * 1000000)), wall, e["ok"], e["env"], e["sa"], e["stale"]]
        out.append(["g", e["g"], ev] if p["legacy"] and e.get("g") else ev)
        oev.append(dict(e, wallus=wall))
    specs = sx_specs(f_specs, cron_ids)
    hold = "none" if f["hold"] is None else int(round(f["hold"] * 1000000))
    cfg = [f["sa"] is not None, f["ta"], specs, hold, f["sa_first"], st_us]
    if f.get("dup"):
        # documented: "only a single @state_active / @time_active decorator can be used per function" - the function is refused
        # as a trigger function (it stays callable).  Models: Legacy.runFn / New.runFn with the decorator counts (the new subsystem
        # refuses it too since the fix of C07-F6; `_merged` = what it did before: the two handlers in a row, see merged_guards)
        p["_oracle"] = "".join("1" if e["kind"] == "direct" else "0" for e in oev)
        p["_merged"] = oracle_runs(f_specs, f["hold"], dt_of(st_us), oev, f["sa"] is not None, f["ta"])
        cfg += [2 if f["dup"]["kind"] == "sa" else 1, 2 if f["dup"]["kind"] == "ta" else 1]
    else:
        p["_oracle"] = oracle_runs(f_specs, f["hold"], dt_of(st_us), oev, f["sa"] is not None, f["ta"])
    head = ["legacy", "cur"] if p["legacy"] else ["new", "cur"]
    return "C07 " + sx(head + [cfg, out, [], cron_table(cron_ids, sorted(walls))])


def _show(v):
    return "raise" if v == "raise" else "T" if v else "F"


def merged_guards(f, evs):
    """a guard decorator used twice, as the NEW subsystem treats it (two handlers in a row, each able to stop the dispatch): the
    same as one guard whose value is truthy iff both are / whose argument list has the negative entries of both"""
    dup = f.get("dup")
    if not dup:
        return f["specs"], evs
    if dup["kind"] == "ta":
        return f["specs"] + dup["specs2"], evs
    out = []
    for e in evs:
        if e["kind"] == "occ":
            e = dict(e, sa=e["sa"] if e["sa"] != "T" else e["sa2"], stale=[])
        out.append(e)
    return f["specs"], out


def oracle_runs(specs, hold, startup, evs, has_sa, has_ta):
    """the property read directly: run iff trigger condition and state_active truthy and window admits the occurrence time
    and no accepted occurrence less than hold_off before; direct calls always run"""
    acc, out = [], []
    n = (hold or 0) if has_ta else 0
    for e in evs:
        if e["kind"] == "direct":
            out.append("1")
            continue
        ok = e["ok"] and (not has_sa or e["sa"] == "T")
        if ok and has_ta:
            ok = oracle_window(specs, dt_of(e["wallus"]), startup) is True
        if ok:
            ok = all(e["t"] - a >= n for a in acc)
        if ok:
            acc.append(e["t"])
        out.append("1" if ok else "0")
    return "".join(out)


def split(outline):
    m = re.match(r"model=(\S*) spec=(\S*)$", outline)
    if not m:
        return outline, None
    return m.group(1), m.group(2)


# ------------------------------------------------------------------------------------------------ verdict
def verdict(c):
    """the property, on the implementation's behaviour, against the independent Python oracle"""
    want = c.payload.get("_oracle")
    if want is None:
        return None
    p = c.payload
    if p["kind"] == "active":
        if want == "raise":
            # a non-existent date has no meaning in the property; the code must not answer "active"
            return None if c.impl != "T" else "time_active with a non-existent date reported active"
        if c.impl != want:
            return f"timer_active_check says {c.impl}, the specification list denotes {want}"
        return None
    if c.impl != want:
        sub = "new" if p["kind"] == "handler" or not p["legacy"] else "legacy"
        return f"{sub}: runs {c.impl}, the guards admit {want}"
    return None


def _py_run(p, flags, legacy):
    """python mirror of Legacy.run / New.run with a subset of the deviation flags – only used to NAME a failing case"""
    if p["kind"] == "handler":
        specs, hold, st, has_sa, has_ta, sa_first = p["specs"], p["hold"], dt_of(p["startup"]), False, True, False
        evs = [{"t": e["t"], "kind": "occ", "wallus": e["wall"], "ok": True, "sa": "T", "env": True, "stale": [], "n": i + 1}
               for i, e in enumerate(p["events"])]
    else:
        f = p["scen"]["funcs"][p["fi"]]
        hold, has_sa, has_ta, sa_first = f["hold"], f["sa"] is not None, f["ta"], f["sa_first"]
        st = BASE
        evs = []
        specs, fev = merged_guards(f, func_events(p["scen"], p["fi"]))
        for e in fev:
            if e["kind"] == "occ":
                e = dict(e, wallus=us_of(BASE) + (0 if e["wall"] is None else int(round(e["wall"] * 1000000))))
            evs.append(e)
    if not has_ta:
        hold = None
    last, tbl, out, lasts = None, 0, [], {}
    for e in evs:
        if e["kind"] == "direct":
            out.append("1")
            continue
        if not e["ok"]:
            out.append("0")
            continue
        now = dt_of(e["wallus"])

        def held():
            return bool(hold) and last is not None and e["t"] - last < hold

        def windows():
            if not specs:
                return True
            if "perArg" in flags and not legacy:
                return any(oracle_window([a], now, st) is True for a in specs)
            return oracle_window(specs, now, st) is True

        def sa_seen():
            nonlocal tbl
            v = e["sa"]
            if "staleLocals" in flags and not e["env"] and tbl:
                v = dict((k, x) for k, x in e["stale"]).get(tbl, v)
            if e["env"]:
                tbl = e["n"]
            return v
        if legacy:
            if "groupHold" in flags:      # one last_trig_time per trigger task
                last = lasts.get(e.get("g", 0))
            ok = True
            if has_sa:
                ok = sa_seen() == "T"
            if ok and has_ta:
                ok = windows()
            if ok and held():
                ok = False
            if ok:
                last = e["t"]
                lasts[e.get("g", 0)] = last
            out.append("1" if ok else "0")
            continue
        order = (["sa"] if has_sa else []) + (["ta"] if has_ta else [])
        if not sa_first:
            order.reverse()
        ok, stamp = True, False
        for h in order:
            if h == "sa":
                v = sa_seen()
                ok = v in ("T", "Z") if "identityFalse" in flags else v == "T"
            else:
                ok = not held() and windows()
                if ok:
                    stamp = True
            if not ok:
                break
        if stamp and (ok or "stampEarly" in flags):
            last = e["t"]
        out.append("1" if ok else "0")
    return "".join(out)


# deviations of the model's Flags.  All of them were repaired by fix commits - e0254f9 (perArg), 07af69d (identityFalse),
# 4801d95 (staleLocals), and the fix of C07-F2 (stampEarly: last_trig_time is now stamped by dispatch_accepted after all handlers
# have passed): a case they explain is a REGRESSION and gets a signature that matches no known finding.
OPEN_FLAGS = []
FIXED_FLAGS = ["stampEarly", "perArg", "identityFalse", "staleLocals"]


def classify(c, reason):
    p = c.payload
    if p["kind"] == "active":
        return "active:" + re.sub(r"\d+", "N", reason)[:60]
    legacy = p["kind"] == "ha" and p["legacy"]
    sub = "legacy" if legacy else "new"
    if p["kind"] == "ha" and p["scen"]["funcs"][p["fi"]].get("dup"):
        # fixed finding C07-F6: the new subsystem used to install both guards instead of refusing the function - a regression
        return sub + (":regressed:repeated-guard-accepted" if c.impl == p.get("_merged") and not legacy else ":repeated-guard:unexplained")
    # legacy: `groupHold` = hold_off kept per trigger task (open finding C07-F5)
    names = ["groupHold", "staleLocals"] if legacy else OPEN_FLAGS + FIXED_FLAGS
    for k in range(1, len(names) + 1):
        for fl in itertools.combinations(names, k):
            if _py_run(p, set(fl), legacy) == c.impl:
                back = [f for f in fl if f in FIXED_FLAGS]
                if back:
                    return sub + ":regressed:" + back[0]     # behaviour of the code before the fix commit
                return sub + ":" + fl[0]
    return sub + ":unexplained"


def _more_ones(a, b):
    return any(x == "1" and y == "0" for x, y in zip(a, b))


def replay_cases(obj):
    return [Case(obj["case"], None)]


def shrink(c, reason):
    """ha / handler cases: drop events from the end while the verdict still fails (cheap, keeps the witness readable)"""
    return c


def extra_coverage(cases):
    cov = {"streams": {}, "impl_outcomes": {}, "date_forms": {}, "time_forms": {}, "spec_kinds": {}, "boundary_hits": 0,
           "wrapping_ranges": 0, "subsystems": {}, "trigger_kinds": {}, "state_active_values": {}, "hold_off_exact_ties": 0,
           "direct_calls": 0, "decorator_orders": {}, "lean_spec_vs_python_oracle_mismatches": 0,
           "functions_with_several_triggers": {}, "occurrences_of_a_second_trigger_task": 0,
           "state_hold_completions": 0, "state_hold_straddling_a_window_end": 0,
           "boundary_shapes": {}, "spellings": {"upper": 0, "capitalised": 0, "blank_runs": 0}, "edge_times_24_00_like": 0,
           "zero_offsets": 0, "hold_off_values": {}, "service_calls": 0, "functions_also_service": 0,
           "repeated_guard_functions": {}, "state_active_expressions": {}, "nonbool_values_by_guard_position": {},
           "empty_ranges": 0, "touching_range_pairs": 0}

    def scan_dt(d):
        if d[0] == "at":
            if not isinstance(d[2], str) and (d[2][1] >= 24 or d[2][2] >= 60 or d[2][3] >= 60000000):
                cov["edge_times_24_00_like"] += 1
            off = d[3]
        else:
            off = d[1]
        if off is not None and float(off[1]) == 0:
            cov["zero_offsets"] += 1

    def scan_specs(specs):
        ends = []
        for a in specs:
            if a["kind"] == "range":
                scan_dt(a["s"])
                scan_dt(a["e"])
                if a["s"] == a["e"]:
                    cov["empty_ranges"] += 1
                ends.append((json.dumps(a["s"]), json.dumps(a["e"])))
        cov["touching_range_pairs"] += sum(1 for i, x in enumerate(ends) for j, y in enumerate(ends) if i != j and x[1] == y[0] and x[0] != x[1])

    def bump(d, k):
        d[k] = d.get(k, 0) + 1
    for c in cases:
        p = c.payload
        bump(cov["streams"], p["kind"])
        if c.spec is not None and c.spec != p.get("_oracle"):
            cov["lean_spec_vs_python_oracle_mismatches"] += 1
        if p["kind"] in ("active", "handler"):
            scan_specs(p["specs"])
            for st_ in p["strs"]:
                body = st_[st_.index("(") + 1:]
                if any(ch.isalpha() for ch in body) or "cron" in st_:
                    pass
                if body != body.lower() and "cron(" not in st_:
                    cov["spellings"]["upper" if body == body.upper() else "capitalised"] += 1
                if "   " in body:
                    cov["spellings"]["blank_runs"] += 1
        if p["kind"] == "active":
            if len(c.tags) > 2 and c.tags[1] == "boundary":
                bump(cov["boundary_shapes"], c.tags[2])
            bump(cov["impl_outcomes"], c.impl)
            now, st = dt_of(p["now"]), dt_of(p["startup"])
            for a in p["specs"]:
                bump(cov["spec_kinds"], ("not " if a["neg"] else "") + a["kind"])
                if a["kind"] != "range":
                    continue
                for d in (a["s"], a["e"]):
                    bump(cov["date_forms"], "now" if d[0] == "now" else d[1] if isinstance(d[1], str) else d[1][0])
                    if d[0] == "at":
                        bump(cov["time_forms"], d[2] if isinstance(d[2], str) else "hms")
                try:
                    s, e = range_ends(a, now, st, Sun())
                    if e < s:
                        cov["wrapping_ranges"] += 1
                    if abs(us_of(now) - us_of(s)) <= 1 or abs(us_of(now) - us_of(e)) <= 1:
                        cov["boundary_hits"] += 1
                except ValueError:
                    pass
        elif p["kind"] == "handler":
            bump(cov["subsystems"], "new")
            bump(cov["hold_off_values"], repr(p["hold"]))
            acc = None
            for e, fl in zip(p["events"], c.impl or ""):
                if p["hold"] and acc is not None and e["t"] - acc == p["hold"]:
                    cov["hold_off_exact_ties"] += 1
                if fl == "1":
                    acc = e["t"]
        else:
            f = p["scen"]["funcs"][p["fi"]]
            bump(cov["subsystems"], "legacy" if p["legacy"] else "new")
            bump(cov["trigger_kinds"], f["trig"])
            bump(cov["decorator_orders"], "sa_first" if f["sa_first"] else "ta_first")
            scan_specs(f["specs"])
            if f["ta"]:
                bump(cov["hold_off_values"], "None (written out)" if f.get("hold_kw_none") else repr(f["hold"]))
            if f.get("svc"):
                cov["functions_also_service"] += 1
            if f.get("dup"):
                bump(cov["repeated_guard_functions"], f["dup"]["kind"] + "/" + ("legacy" if p["legacy"] else "new"))
            if f["sa"] is not None:
                bump(cov["state_active_expressions"], SA_EXPRS[f["sa"]][0])
            if f.get("more"):
                bump(cov["functions_with_several_triggers"], "+".join(sorted(sources(f))))
                cov["occurrences_of_a_second_trigger_task"] += sum(1 for e in func_events(p["scen"], p["fi"]) if e.get("g"))
            acc = None
            for e, fl in zip(func_events(p["scen"], p["fi"]), c.impl or ""):
                if e["kind"] == "direct":
                    cov["service_calls" if e.get("svc") else "direct_calls"] += 1
                    continue
                if f["sa"] is not None and e["sa"] in ("Z", "R"):
                    pos = ("sa above ta" if f["sa_first"] else "sa below ta") if f["ta"] else "sa alone"
                    bump(cov["nonbool_values_by_guard_position"], f"{f['trig']}/{pos}/trigger {f['trig_pos']}/{e['sa']}")
                if f.get("shold") and e["wall"] is not None:
                    cov["state_hold_completions"] += 1
                    t1 = BASE + dt.timedelta(seconds=e["wall"])
                    t0 = t1 - dt.timedelta(seconds=f["shold"])
                    if f["ta"] and oracle_window(f["specs"], t0, BASE) != oracle_window(f["specs"], t1, BASE):
                        cov["state_hold_straddling_a_window_end"] += 1
                bump(cov["state_active_values"], e["sa"] if f["sa"] is not None else "-")
                if f["hold"] and acc is not None and e["t"] - acc == f["hold"]:
                    cov["hold_off_exact_ties"] += 1
                if fl == "1":
                    acc = e["t"]
    return cov
