"""C07 correspondence + property oracle: @time_active windows, @state_active, hold_off in both trigger subsystems.

Three streams
  active   TrigTime.timer_active_check(list, now, startup) called directly (pure function; thousands of cases)
  handler  TimeActiveDecorator.handle_dispatch called directly on occurrence sequences (new subsystem, exact times)
  ha       real Home Assistant + pyscript on the virtual clock, scripts with state / event / time triggers guarded by
           @state_active / @time_active(hold_off=…), every scenario under legacy=True and legacy=False, plus direct calls

The same spec AST is rendered to the pyscript string, to the S-expression for the Lean driver, and interpreted by an
independent Python oracle (datetime based) which is what `verdict` compares the implementation with.
(The AST / rendering / oracle helpers are shared with run_C06.)
"""
import asyncio
import datetime as dt
import itertools
import json
import logging
import random
import re
import types
from fractions import Fraction
from unittest.mock import patch

import common
from common import Case, sx

PROP = "C07"
RULE = ("active: lists of 0-4 positive/negated range()/cron() specifications (daily h:m[:s[.f]], noon/midnight, full dates, "
        "month/day, weekday names, today/tomorrow, now-relative, sunrise/sunset, offsets in all units, wrapping ranges, "
        "non-existent dates) x evaluation times = every resolved end point and end point +-1us, plus random times of a "
        "two-year window; handler: the same lists through TimeActiveDecorator.handle_dispatch on occurrence sequences with "
        "gaps around hold_off (incl. exact ties); ha: scripts of 6-8 functions (state / event / time triggers, optional "
        "trigger expression, state_hold with window end points inside the hold, 40 % of the functions with further trigger decorators "
        "of the same and of other types (two @state_trigger on different entities, two @event_trigger, state+event+time), @state_active over watched / unwatched / missing entities and .old, @time_active windows "
        "around the scenario times, hold_off, both decorator orders) driven by timed scenarios on the virtual clock under "
        "both subsystems, with direct calls interleaved.  Non-trivial: at least one specification or occurrence; distinct "
        "by payload.")
ASSUMPTIONS = [
    "croniter.match and astral sunrise/sunset are parameters of the model (cronMatch, sun); croniter is compared with an "
    "independent crontab field matcher, astral is called directly by the oracle",
    "time.monotonic() never goes back (hypothesis Mono of the theorems); dt_now() is the virtual wall clock",
    "the @state_active expression's VALUE on the triggering values is an input of the model (computed here by an "
    "independent Python evaluation of the same expression); the interpreter itself is C01's subject",
    "no @task_unique(kill_me=True) on the guarded function (call_action then always starts the action)",
    "string tokenisation (regular expressions of timer_active_check / parse_date_time) is covered by correspondence only",
]
TRUSTED = ["harness/run_C07.py (spec AST renderer, Python oracle, scenario driver)", "harness/ha_env.py, harness/vclock.py",
           "modelled not verified: croniter, astral, Home Assistant event bus / state machine"]

EPOCH = dt.datetime(1970, 1, 1)
US = dt.timedelta(microseconds=1)
BASE = dt.datetime(2024, 6, 3, 12, 0, 0)     # ha_env.BASE (a Monday)
DOW_SHORT = ["sun", "mon", "tue", "wed", "thu", "fri", "sat"]
DOW_LONG = ["sunday", "monday", "tuesday", "wednesday", "thursday", "friday", "saturday"]
UNITS = {"s": 1, "sec": 1, "second": 1, "seconds": 1, "": 1, "m": 60, "min": 60, "mins": 60, "minute": 60, "minutes": 60,
         "h": 3600, "hr": 3600, "hour": 3600, "hours": 3600, "d": 86400, "day": 86400, "days": 86400,
         "w": 604800, "week": 604800, "weeks": 604800}


def us_of(t):
    return (t - EPOCH) // US


def dt_of(us):
    return EPOCH + dt.timedelta(microseconds=us)


# ------------------------------------------------------------------------------------------------ spec AST
# dt   = ["at", date, time, off] | ["now", off]
# date = ["full", y, m, d] | ["md", m, d] | ["dow", k] | "today" | "tomorrow" | "none"
# time = ["hms", h, m, us] | "noon" | "midnight" | "sunrise" | "sunset" | "none"
# off  = None | [sign(+1/-1), "number-literal", "unit"]
# aspec = {"neg": bool, "kind": "range", "s": dt, "e": dt} | {"neg": bool, "kind": "cron", "expr": "…"}

def off_us(off):
    if off is None:
        return 0
    sign, num, unit = off
    v = Fraction(num) * UNITS[unit] * 1000000
    assert v.denominator == 1, off
    return int(sign) * int(v)


def render_off(off, style):
    if off is None:
        return ""
    sign, num, unit = off
    sp1 = " " if style & 1 else ""
    sp2 = " " if style & 2 else ""
    return f"{sp1}{'+' if sign > 0 else '-'}{sp2}{num}{' ' if style & 4 and unit else ''}{unit}"


def render_time(tm, style):
    if isinstance(tm, str):
        return "" if tm == "none" else tm
    _, h, m, us = tm
    s, f = divmod(us, 1000000)
    z = "0" if style & 8 else ""
    out = f"{z if h < 10 else ''}{h}:{m:02d}" if style & 16 else f"{h}:{z if m < 10 else ''}{m}"
    if us or style & 32:
        out += f":{s:02d}" if not f else f":{s:02d}." + f"{f:06d}".rstrip("0")
    return out


def render_date(d, style):
    if isinstance(d, str):
        return "" if d == "none" else d
    sep = "-" if style & 64 else "/"
    if d[0] == "full":
        return f"{d[1]}{sep}{d[2]:02d}{sep}{d[3]:02d}" if style & 128 else f"{d[1]}{sep}{d[2]}{sep}{d[3]}"
    if d[0] == "md":
        return f"{d[1]:02d}{sep}{d[2]:02d}" if style & 128 else f"{d[1]}{sep}{d[2]}"
    return (DOW_LONG if style & 256 else DOW_SHORT)[d[1]]


def render_dt(d, style=0):
    if d[0] == "now":
        return "now" + render_off(d[1], style | 1)
    _, date, tm, off = d
    parts = [p for p in (render_date(date, style), render_time(tm, style)) if p]
    body = " ".join(parts)
    o = render_off(off, style | (1 if body else 0))
    return (body + o).strip() if body else o.strip()


def render_aspec(a, style=0):
    neg = "not " if a["neg"] else ""
    if a["kind"] == "cron":
        return f"{neg}cron({a['expr']})"
    comma = ", " if style & 512 else ","
    return f"{neg}range({render_dt(a['s'], style)}{comma}{render_dt(a['e'], style >> 1 | style & 512)})"


def sx_date(d):
    return d if isinstance(d, str) else list(d)


def sx_dt(d):
    if d[0] == "now":
        return ["now", off_us(d[1])]
    return ["at", sx_date(d[1]), sx_date(d[2]), off_us(d[3])]


# ------------------------------------------------------------------------------------------------ oracle
class Sun:
    """astral called directly (the `sun` parameter of the model); remembers every lookup for the driver's table"""
    _loc = None

    def __init__(self):
        self.rows = {}

    @classmethod
    def loc(cls):
        if cls._loc is None:
            import astral
            import astral.location
            cls._loc = astral.location.Location(astral.LocationInfo("v", "v", "America/Los_Angeles", 38, -122))
        return cls._loc

    def get(self, rise, day):
        """naive local datetime truncated to the second, or None when not defined"""
        key = ("rise" if rise else "set", (day - EPOCH.date()).days)
        if key not in self.rows:
            try:
                t = (self.loc().sunrise if rise else self.loc().sunset)(day)
                self.rows[key] = dt.datetime(t.year, t.month, t.day, t.hour, t.minute, t.second)
            except Exception:  # pylint: disable=broad-except
                self.rows[key] = None
        return self.rows[key]

    def table(self):
        return [[k[0], k[1], "none" if v is None else us_of(v)] for k, v in sorted(self.rows.items())]


def oracle_dt(d, ref, startup, day_offset=0, sun=None):
    """what a datetime specification denotes, relative to the reference instant `ref` (raises ValueError for a
    non-existent date).  Returns (datetime, fixed_date)."""
    if d[0] == "now":
        return startup + off_us(d[1]) * US, True
    _, date, tm, off = d
    today = ref.date()
    fixed = True
    if date == "none":
        day, fixed = today + dt.timedelta(days=day_offset), False
    elif date == "today":
        day = today
    elif date == "tomorrow":
        day = today + dt.timedelta(days=1)
    elif date[0] == "full":
        day = dt.date(date[1], date[2], date[3])
    elif date[0] == "md":
        day = dt.date(today.year, date[1], date[2])
    else:  # the first such weekday on or after today
        day = next(today + dt.timedelta(days=i) for i in range(7)
                   if (today + dt.timedelta(days=i)).isoweekday() % 7 == date[1])
    mid = dt.datetime(day.year, day.month, day.day)
    if tm in ("sunrise", "sunset"):
        t = (sun or Sun()).get(tm == "sunrise", day)
        if t is None:
            return mid - dt.timedelta(days=100), fixed
    elif tm == "noon":
        t = mid + dt.timedelta(hours=12)
    elif tm in ("midnight", "none"):
        t = mid
    else:
        t = mid + dt.timedelta(hours=tm[1], minutes=tm[2], microseconds=tm[3])
    return t + off_us(off) * US, fixed


def _cron_field(f, lo, hi, v, wrap7=False):
    for part in f.split(","):
        step = 1
        if "/" in part:
            part, st = part.split("/")
            step = int(st)
        if part == "*":
            a, b = lo, hi
        elif "-" in part:
            a, b = map(int, part.split("-"))
        else:
            a = int(part)
            b = hi if step != 1 else a
        vs = set(range(a, b + 1, step))
        if wrap7 and 7 in vs:
            vs.add(0)
        if v in vs:
            return True
    return False


def cron_match(expr, t):
    """crontab semantics on the five fields; seconds are ignored; day-of-month and day-of-week are OR-ed when both are
    restricted"""
    mi, hr, dom, mon, dow = expr.split()
    if not (_cron_field(mi, 0, 59, t.minute) and _cron_field(hr, 0, 23, t.hour) and _cron_field(mon, 1, 12, t.month)):
        return False
    d_ok = _cron_field(dom, 1, 31, t.day)
    w_ok = _cron_field(dow, 0, 6, t.isoweekday() % 7, wrap7=True)
    if dom.startswith("*") and dow.startswith("*"):
        return d_ok and w_ok
    if dom.startswith("*"):
        return w_ok
    if dow.startswith("*"):
        return d_ok
    return d_ok or w_ok


def range_ends(a, now, startup, sun):
    s, _ = oracle_dt(a["s"], now, startup, 0, sun)
    e, _ = oracle_dt(a["e"], s, startup, 0, sun)
    return s, e


def oracle_hit(a, now, startup, sun):
    if a["kind"] == "cron":
        return cron_match(a["expr"], now)
    s, e = range_ends(a, now, startup, sun)
    if s <= e:
        return s <= now <= e
    return not e < now < s


def oracle_window(specs, now, startup, sun=None):
    """True / False / 'raise' – the property's reading: (no positive spec or some positive matches) and no negative matches"""
    sun = sun or Sun()
    try:
        hits = [oracle_hit(a, now, startup, sun) for a in specs]
    except ValueError:
        return "raise"
    pos = [h for a, h in zip(specs, hits) if not a["neg"]]
    neg = [h for a, h in zip(specs, hits) if a["neg"]]
    return (not pos or any(pos)) and not any(neg)


def sx_specs(specs, cron_ids):
    out = []
    for a in specs:
        if a["kind"] == "cron":
            out.append([a["neg"], "cron", cron_ids.setdefault(a["expr"], len(cron_ids))])
        else:
            out.append([a["neg"], "range", sx_dt(a["s"]), sx_dt(a["e"])])
    return out


def cron_table(cron_ids, times):
    return [[i, us_of(t), cron_match(e, t)] for e, i in sorted(cron_ids.items(), key=lambda kv: kv[1]) for t in times]


# ------------------------------------------------------------------------------------------------ generators
def gen_off(rng, big=False):
    if rng.random() < 0.55:
        return None
    unit = rng.choice(["s", "sec", "seconds", "", "m", "min", "mins", "minutes", "h", "hr", "hours", "d", "day", "days",
                       "w", "week"] if big else ["s", "sec", "", "m", "min", "minutes", "h", "hr", "hour"])
    sc = UNITS[unit]
    if sc == 1:
        num = rng.choice(["1", "30", "90", "0.5", "12.345", "3600", "0.001", "59.999"])
    elif sc == 60:
        num = rng.choice(["1", "5", "20", "90", "2.5", "0.25", "30"])
    elif sc == 3600:
        num = rng.choice(["1", "2", "1.5", "0.5", "12", "25"])
    else:
        num = rng.choice(["1", "2", "0.5"])
    return [rng.choice([1, -1]), num, unit]


def gen_time(rng, sunok):
    r = rng.random()
    if r < 0.62:
        us = rng.choice([0, 0, 0, 1000000 * rng.randrange(60), 1000000 * rng.randrange(60) + rng.choice([500000, 250000, 1, 999999, 123456])])
        return ["hms", rng.choice([0, 1, 6, 9, 11, 12, 13, 18, 22, 23, rng.randrange(24)]), rng.choice([0, 0, 30, 59, rng.randrange(60)]), us]
    if r < 0.74:
        return "noon"
    if r < 0.84:
        return "midnight"
    if r < 0.92 and sunok:
        return rng.choice(["sunrise", "sunset"])
    return "none"


def gen_date(rng, base):
    r = rng.random()
    d = base.date() + dt.timedelta(days=rng.choice([0, 0, 0, 1, -1, 2, -3, 7, 30, -30, 365]))
    if r < 0.45:
        return "none"
    if r < 0.62:
        return ["full", d.year, d.month, d.day]
    if r < 0.72:
        return ["md", d.month, d.day]
    if r < 0.84:
        return ["dow", rng.randrange(7)]
    if r < 0.90:
        return "today"
    if r < 0.96:
        return "tomorrow"
    return rng.choice([["md", 2, 30], ["md", 2, 29], ["full", 2023, 2, 29], ["md", 4, 31], ["full", base.year, 13, 1]])


def gen_dt(rng, base, sunok=True):
    if rng.random() < 0.1:
        return ["now", gen_off(rng)]
    date = gen_date(rng, base)
    tm = gen_time(rng, sunok)
    off = gen_off(rng, big=rng.random() < 0.3)
    if date == "none" and tm == "none" and off is None:
        tm = "midnight"
    return ["at", date, tm, off]


CRONS = ["* * * * *", "0 12 * * *", "*/5 * * * *", "30-45 6-10 * * *", "0 0 1 * *", "* * * * 1", "* 12 3 6 *",
         "15,45 9-17 * * 1-5", "* * 29 2 *", "0-29 * * * 0", "* 0-11 * * *", "59 23 31 12 *", "* * 3 * 2", "* * 1-7 * 1",
         "*/15 */6 * * *", "* * * 6 *", "0 12 * * 7"]


def gen_aspec(rng, base, sunok=True):
    neg = rng.random() < 0.4
    if rng.random() < 0.15:
        return {"neg": neg, "kind": "cron", "expr": rng.choice(CRONS)}
    s = gen_dt(rng, base, sunok)
    if rng.random() < 0.5 and s[0] == "at":
        # same date form for the end, other time: the common shapes (daily / dated / weekday windows, wrapping or not)
        e = ["at", s[1], gen_time(rng, sunok), gen_off(rng)]
        if e[1] == "none" and e[2] == "none" and e[3] is None:
            e[2] = "midnight"
    else:
        e = gen_dt(rng, base, sunok)
    return {"neg": neg, "kind": "range", "s": s, "e": e}


def rand_base(rng):
    special = [dt.datetime(2024, 2, 29, 12), dt.datetime(2024, 2, 28, 23, 59, 59, 999999), dt.datetime(2024, 3, 1),
               dt.datetime(2023, 12, 31, 23, 59, 59, 999999), dt.datetime(2024, 1, 1), dt.datetime(2025, 2, 28, 12),
               dt.datetime(2024, 3, 10, 2, 30), dt.datetime(2024, 11, 3, 1, 30), dt.datetime(2024, 6, 30, 23, 59, 59),
               dt.datetime(2023, 7, 1), dt.datetime(2025, 6, 30, 23, 0)]
    if rng.random() < 0.25:
        return rng.choice(special)
    t = dt.datetime(2023, 7, 1) + dt.timedelta(days=rng.randrange(730), seconds=rng.randrange(86400))
    if rng.random() < 0.3:
        t += dt.timedelta(microseconds=rng.randrange(1000000))
    return t


def gen_active(rng, n_lists):
    cases = []
    for _ in range(n_lists):
        base = rand_base(rng)
        startup = base - dt.timedelta(seconds=rng.choice([0, 0, 1, 60, 3600, 86400 * 3]))
        specs = [gen_aspec(rng, base) for _ in range(rng.choice([0, 1, 1, 1, 2, 2, 3, 4]))]
        style = rng.randrange(1024)
        strs = [render_aspec(a, style) for a in specs]
        sun = Sun()
        times = {base, startup}
        for a in specs:
            if a["kind"] != "range":
                times.add(base.replace(second=0, microsecond=0))
                times.add(base.replace(second=59, microsecond=999999))
                continue
            try:
                s, e = range_ends(a, base, startup, sun)
            except ValueError:
                continue
            for p in (s, e):
                if dt.datetime(1971, 1, 1) < p < dt.datetime(2100, 1, 1):
                    times.update((p, p - US, p + US))
        times = sorted(times)
        if len(times) > 9:
            times = sorted(rng.sample(times, 9))
        times.append(rand_base(rng))
        as_str = len(strs) == 1 and rng.random() < 0.5
        for now in times:
            cases.append(Case({"kind": "active", "specs": specs, "strs": strs, "now": us_of(now), "startup": us_of(startup),
                               "as_str": as_str}, None, tags=("active",)))
    return cases


def gen_handler(rng, n):
    """occurrence sequences for TimeActiveDecorator.handle_dispatch (new subsystem) – windows x hold_off"""
    cases = []
    for _ in range(n):
        base = rand_base(rng).replace(microsecond=0)
        startup = base - dt.timedelta(seconds=rng.choice([0, 5, 3600]))
        specs = [gen_aspec(rng, base, sunok=False) for _ in range(rng.choice([0, 1, 1, 2, 2, 3, 4]))]
        specs = [a for a in specs if not _raises(a, base, startup)]
        strs = [render_aspec(a, rng.randrange(1024)) for a in specs]
        hold = rng.choice([None, None, 0, 1, 2.5, 10])
        evs, t, wall = [], 1000 + rng.randrange(5), base
        pts = []
        sun = Sun()
        for a in specs:
            if a["kind"] == "range":
                s, e = range_ends(a, base, startup, sun)
                pts += [s, e, s - US, e + US]
        for _ in range(rng.randrange(2, 9)):
            gap = rng.choice([0.25, 0.5, 1, 2, 2.5, 3, 9.75, 10, 10.25]) if hold else rng.choice([0.25, 1, 5])
            if hold and rng.random() < 0.4:
                gap = rng.choice([hold, hold - 0.25, hold + 0.25])
            t += max(gap, 0.25)
            wall = rng.choice(pts) if pts and rng.random() < 0.6 else wall + dt.timedelta(seconds=gap)
            evs.append({"t": t, "wall": us_of(wall), "tt": rng.random() < 0.5})
        # non-existent dates (2/29 in another year …) belong to the `active` stream: an exception in the middle of a
        # dispatch sequence has no counterpart in the guard model
        keep = [i for i, a in enumerate(specs) if not any(_raises(a, dt_of(e["wall"]), startup) for e in evs)]
        specs, strs = [specs[i] for i in keep], [strs[i] for i in keep]
        cases.append(Case({"kind": "handler", "specs": specs, "strs": strs, "hold": hold, "startup": us_of(startup),
                           "events": evs}, None, tags=("handler",)))
    return cases


def _raises(a, base, startup):
    try:
        if a["kind"] == "range":
            range_ends(a, base, startup, Sun())
        return False
    except ValueError:
        return True


# ---- state_active expressions: (source, python evaluation on the triggering values)
# ctx: val(name) -> triggering value if `name` caused the trigger, else current state (None when missing);
#      old(name) -> previous value of the variable that caused the state trigger, else None
SA_EXPRS = [
    ("pyscript.en == '1'", lambda c: c.val("en") == "1", ["pyscript.en"]),
    ("pyscript.en", lambda c: c.val("en"), ["pyscript.en"]),
    ("int(pyscript.cnt) % 2", lambda c: int(c.val("cnt")) % 2, ["pyscript.cnt"]),
    ("pyscript.nosuch", lambda c: None, ["pyscript.nosuch"]),
    ("pyscript.x.old == None or int(pyscript.x.old) % 2 == 0", lambda c: c.old("x") is None or int(c.old("x")) % 2 == 0,
     ["pyscript.x.old"]),
    ("int(pyscript.x) % 2 == 0 and pyscript.en == '1'", lambda c: int(c.val("x")) % 2 == 0 and c.val("en") == "1",
     ["pyscript.x", "pyscript.en"]),
    ("int(pyscript.cnt) and pyscript.en == '1'", lambda c: int(c.val("cnt")) and c.val("en") == "1",
     ["pyscript.cnt", "pyscript.en"]),
    ("1 / int(pyscript.cnt) > 0", lambda c: 1 / int(c.val("cnt")) > 0, ["pyscript.cnt"]),
    ("pyscript.x.old", lambda c: c.old("x"), ["pyscript.x.old"]),
    ("pyscript.en == '1' or pyscript.nosuch.attr == 3", lambda c: c.val("en") == "1" or False,
     ["pyscript.en", "pyscript.nosuch.attr"]),
    ("pyscript.en != '1'", lambda c: c.val("en") != "1", ["pyscript.en"]),
    ("pyscript.cnt != '0' and pyscript.en != '0'", lambda c: c.val("cnt") != "0" and c.val("en") != "0",
     ["pyscript.cnt", "pyscript.en"]),
    ("pyscript.cnt != '1'", lambda c: c.val("cnt") != "1", ["pyscript.cnt"]),
]


def aval(fn, ctx):
    try:
        v = fn(ctx)
    except Exception:  # pylint: disable=broad-except
        return "R"
    if v is False:
        return "F"
    return "T" if v else "Z"


class Ctx:
    """name resolution of the expression: the local table first (the dictionary notify_var_get built), then the current
    states"""

    def __init__(self, state, table):
        self.state, self.table = state, table

    def val(self, name):
        key = "pyscript." + name
        if key in self.table:
            return self.table[key]
        return self.state.get(name)

    def old(self, name):
        return self.table.get("pyscript." + name + ".old")


def var_dict(names, new_vars, state, last_x):
    """State.notify_var_get(names, new_vars): triggering values, else the last notified value of a watched variable, else
    None for what does not exist; existing unwatched variables are NOT included (they are read at evaluation time)"""
    d = dict(new_vars)
    for n in names:
        if n in d:
            continue
        parts = n.split(".")
        root = parts[1]
        if n == "pyscript.x" and last_x is not None:
            d[n] = last_x
        elif len(parts) == 3 and root == "x" and last_x is not None:
            d[n] = None            # getattr(StateVal, "old", None)
        elif len(parts) == 2 and state.get(root) is None:
            d[n] = None
        elif len(parts) == 3:
            d[n] = None            # no such attribute
    return d


def sec_str(t):
    """BASE + t seconds rendered as h:m:s[.f] (t a multiple of 1/8 s)"""
    x = BASE + dt.timedelta(seconds=t)
    s = f"{x.hour}:{x.minute:02d}:{x.second:02d}"
    return s + (("." + f"{x.microsecond:06d}".rstrip("0")) if x.microsecond else "")


def gen_window_near(rng, horizon, points=None):
    """@time_active arguments whose end points lie inside the scenario (seconds after BASE); with `points` the end
    points are taken from that list (the time-trigger instants: exact end-point hits through the whole trigger path)"""
    specs = []
    for _ in range(rng.choice([0, 1, 1, 2, 2, 3, 4])):
        neg = rng.random() < 0.4
        r = rng.random()
        if r < 0.12:
            specs.append({"neg": neg, "kind": "cron", "expr": rng.choice(["0 12 * * *", "1 12 * * *", "* * * * 1", "0-1 12 3 6 *", "*/2 * * * *", "* * * * 2"])})
            continue
        if points:
            a, b = sorted(rng.sample(points, 2)) if len(points) > 1 else (points[0], points[0])
        else:
            a, b = sorted(rng.sample(range(0, int(horizon * 4)), 2))
            a, b = a / 4, b / 4
        if r < 0.3:
            a, b = b, a   # wraps
        def mk(t):
            x = BASE + dt.timedelta(seconds=t)
            tm = ["hms", x.hour, x.minute, x.second * 1000000 + x.microsecond]
            k = rng.random()
            if k < 0.6:
                return ["at", "none", tm, None]
            if k < 0.7:
                return ["at", ["full", 2024, 6, 3], tm, None]
            if k < 0.8:
                return ["at", ["dow", 1], tm, None]
            if k < 0.9:
                return ["now", [1, str(t), rng.choice(["s", "sec", ""])]] if t == int(t) and not points else ["at", "today", tm, None]
            return ["at", "none", "noon", [1, str(t), "s"]] if t == int(t) else ["at", ["md", 6, 3], tm, None]
        specs.append({"neg": neg, "kind": "range", "s": mk(a), "e": mk(b)})
    return specs


def gen_ha(rng, n_scen):
    """scenarios: stimuli on the 1/4 s grid, time-trigger instants on odd multiples of 1/8 s (never tie with a stimulus)"""
    cases = []
    for sc_i in range(n_scen):
        horizon = rng.choice([12, 20, 70])
        nst = rng.randrange(10, 22)
        times = sorted(rng.sample(range(2, int(horizon * 4)), nst))
        stim, seq = [[0.25, "en", rng.choice(["0", "1"])], [0.5, "cnt", rng.choice(["0", "1", "2"])]], 0
        holds = [None, 0, 1, 1.5, 2, 5]
        last_trig = None
        for k in times:
            t = k / 4 + 0.5
            # bias: put some occurrences exactly one hold_off after an earlier trigger (exact ties)
            if last_trig is not None and rng.random() < 0.25:
                t2 = last_trig + rng.choice([1, 1.5, 2, 5])
                if t2 > stim[-1][0]:
                    t = t2
            if t <= stim[-1][0]:
                t = stim[-1][0] + 0.25
            r = rng.random()
            if r < 0.38:
                seq += 1
                stim.append([t, "x", str(seq)])
                last_trig = t
            elif r < 0.58:
                seq += 1
                stim.append([t, "ev", seq])
                last_trig = t
            elif r < 0.62:
                seq += 1
                stim.append([t, "y", str(seq)])
                last_trig = t
            elif r < 0.66:
                seq += 1
                stim.append([t, "ev2", seq])
                last_trig = t
            elif r < 0.78:
                stim.append([t, "en", rng.choice(["0", "1"])])
            elif r < 0.88:
                stim.append([t, "cnt", rng.choice(["0", "1", "2", "3"])])
            else:
                seq += 1
                stim.append([t, "direct", seq])
        end = stim[-1][0] + 1
        funcs = []
        # "tick" scenarios: dt_now() advances 1 us per call, so a time trigger wakes up slightly AFTER its instant and
        # only `trigger_time` hits a window end exactly; only time-trigger functions, no hold_off, no now-relative specs
        tick = rng.random() < 0.3
        for fi in range(rng.choice([6, 7, 8])):
            trig = "time" if tick else rng.choice(["state", "state", "event", "event", "time"])
            f = {"trig": trig, "expr": rng.random() < 0.4, "sa": rng.choice([None, None] + list(range(len(SA_EXPRS)))),
                 "ta": rng.random() < 0.75, "sa_first": rng.random() < 0.5, "trig_pos": rng.choice(["top", "bottom", "mid"]),
                 "style": rng.randrange(1024)}
            if trig == "time":
                ks = sorted(rng.sample(range(1, int(end * 4)), min(rng.randrange(3, 9), int(end * 4) - 1)))
                f["instants"] = [k / 4 + 0.125 for k in ks]
                f["startup"] = rng.random() < 0.3 and not tick
            pts = f["instants"] if tick else None
            if trig == "state" and not tick and rng.random() < 0.45:
                # state_hold on odd multiples of 1/8 s: a completion never coincides with a stimulus; window end points are
                # put INSIDE the hold intervals (the gates must see the completion instant, not the start of the hold)
                f["shold"] = rng.choice([0.375, 1.125, 2.125])
                mids = [s[0] + f["shold"] / 2 for s in stim if s[1] == "x"]
                if len(mids) >= 2 and rng.random() < 0.75:
                    f["ta"] = True
                    pts = mids
            f["specs"] = (gen_window_near(rng, end, pts)) if f["ta"] else []
            f["hold"] = rng.choice(holds) if f["ta"] and not tick else None
            if not tick and "shold" not in f and rng.random() < 0.4:
                # several trigger decorators on one function: a second one of the same type (legacy: a second trigger task
                # that must carry the same guards) and / or one of another type
                own = {"state": "sx", "event": "e1", "time": "tm"}[trig]
                same = {"sx": ["sy"], "e1": ["e2"], "tm": []}[own]
                other = [m for m in ("sx", "sy", "e1", "e2") if m != own and m not in same]
                f["more"] = (same if rng.random() < 0.8 else []) + rng.sample(other, rng.choice([0, 0, 1, 2]))
            funcs.append(f)
        scen = {"id": sc_i, "stim": stim, "funcs": funcs, "end": end, "tick": tick}
        for legacy in (True, False):
            for fi in range(len(funcs)):
                cases.append(Case({"kind": "ha", "legacy": legacy, "scen": scen, "fi": fi}, None,
                                  tags=("ha", "legacy" if legacy else "new", funcs[fi]["trig"])))
    return cases


def gen_cases(rng, tier, search):
    k = {"quick": 1, "thorough": 8}[tier] * (3 if search else 1)
    cases = corpus_cases()
    cases += gen_active(rng, 260 * k)
    cases += gen_handler(rng, 150 * k)
    cases += gen_ha(rng, 14 * k)
    return cases


def corpus_cases():
    """hand-written cases that are always run: the witnesses of the findings (open: F2; fixed by e0254f9 / 07af69d / 4801d95:
    F1, F3, F4 - these now must behave as the property says, they are regression cases)"""
    def rng_spec(neg, a, b):
        return {"neg": neg, "kind": "range", "s": ["at", "none", ["hms", a[0], a[1], 0], None], "e": ["at", "none", ["hms", b[0], b[1], 0], None]}
    out = []
    mixed = [rng_spec(False, (11, 0), (13, 0)), rng_spec(True, (11, 30), (12, 30))]
    twoneg = [rng_spec(True, (11, 30), (12, 30)), rng_spec(True, (13, 0), (14, 0))]
    for specs in (mixed, twoneg):
        strs = [render_aspec(a) for a in specs]
        for now in (BASE, BASE.replace(hour=11, minute=15), BASE.replace(hour=12, minute=30), BASE.replace(hour=12, minute=30, microsecond=1)):
            out.append(Case({"kind": "active", "specs": specs, "strs": strs, "now": us_of(now), "startup": us_of(BASE), "as_str": False}, None, tags=("active", "corpus")))
        out.append(Case({"kind": "handler", "specs": specs, "strs": strs, "hold": None, "startup": us_of(BASE),
                         "events": [{"t": 1000, "wall": us_of(BASE), "tt": True}, {"t": 1001, "wall": us_of(BASE.replace(hour=11, minute=15)), "tt": False}]},
                        None, tags=("handler", "corpus")))
    # Home Assistant scenario with one function per finding (both subsystems)
    def fn(trig, sa, ta, specs, hold, sa_first):
        return {"trig": trig, "expr": False, "sa": sa, "ta": ta, "sa_first": sa_first, "trig_pos": "bottom", "style": 0,
                "specs": specs, "hold": hold}
    en_eq = 0       # "pyscript.en == '1'"      (pyscript.en exists before the first event)
    nosuch = 3      # "pyscript.nosuch"         (None: falsy but not False)
    cnt_ne = 12     # "pyscript.cnt != '1'"     (pyscript.cnt does not exist at the first event)
    funcs = [fn("event", None, True, mixed, None, True),          # F1 (fixed) mixed sign (BASE is 12:00)
             fn("state", None, True, twoneg, None, True),         # F1 (fixed) two negatives
             fn("event", en_eq, True, [], 5, False),              # F2 (open) time_active above state_active, hold_off
             fn("event", en_eq, True, [], 5, True),               #    control: the other order
             fn("event", nosuch, False, [], None, True),          # F3 (fixed) falsy, not False
             fn("event", cnt_ne, False, [], None, True),          # F4 (fixed) stale table
             dict(fn("state", None, True, [{"neg": False, "kind": "range", "s": ["at", "none", ["hms", 12, 0, 2500000], None],
                                            "e": ["at", "none", ["hms", 12, 0, 11000000], None]}], None, True), shold=1.125)]
    # last function: state_hold=1.125 - the change at 2.0 s completes at 3.125 s (window entered at 2.5 s: must run), the change
    # at 10.5 s completes at 11.625 s (window left at 11 s: must not run); seeded change C07_1 evaluated the start of the hold
    stim = [[0.5, "en", "0"], [1.0, "ev", 1], [2.0, "x", "2"], [3.0, "cnt", "1"], [3.5, "en", "1"], [4.0, "ev", 3],
            [4.5, "direct", 4], [7.0, "ev", 5], [9.0, "ev", 6], [10.0, "ev", 7], [10.5, "x", "8"], [14.0, "ev", 9]]
    scen = {"id": "corpus", "stim": stim, "funcs": funcs, "end": 15.0}
    for legacy in (True, False):
        for fi in range(len(funcs)):
            out.append(Case({"kind": "ha", "legacy": legacy, "scen": scen, "fi": fi}, None,
                            tags=("ha", "corpus", "legacy" if legacy else "new", funcs[fi]["trig"])))
    # several trigger decorators per function (legacy: one trigger task per k-th decorator of a type; every task must carry the
    # guards - seeded change C07_3 dropped them from the second task; hold_off per task is the open finding C07-F5)
    win = [rng_spec(False, (11, 0), (13, 0))]
    funcs2 = [dict(fn("state", en_eq, False, [], None, True), more=["sy"]),            # guard false -> neither x nor y runs
              dict(fn("event", None, True, twoneg, None, True), more=["e2", "sy"]),    # window excludes 12:00 for all three
              dict(fn("state", en_eq, True, win, None, False), more=["sy", "e1", "e2"]),
              dict(fn("state", None, True, [], 5, True), more=["sy"]),                 # C07-F5 witness
              dict(fn("time", en_eq, False, [], None, True), more=["sx", "sy"], instants=[1.625, 6.125], startup=False)]
    stim2 = [[0.5, "en", "0"], [1.0, "x", "1"], [2.0, "y", "2"], [2.5, "ev", 3], [3.0, "x", "4"], [3.5, "ev2", 5], [4.0, "en", "1"],
             [5.0, "y", "6"], [5.5, "ev2", 7], [6.0, "direct", 8], [7.0, "y", "9"], [7.5, "x", "10"], [8.0, "ev", 11]]
    scen2 = {"id": "corpus2", "stim": stim2, "funcs": funcs2, "end": 9.0}
    for legacy in (True, False):
        for fi in range(len(funcs2)):
            out.append(Case({"kind": "ha", "legacy": legacy, "scen": scen2, "fi": fi}, None,
                            tags=("ha", "corpus", "multi", "legacy" if legacy else "new", funcs2[fi]["trig"])))
    return out


# ------------------------------------------------------------------------------------------------ running the real code
_direct_ready = False


def _direct_env():
    """TrigTime outside Home Assistant: stub hass (executor jobs run inline), the real weekday table, astral location"""
    global _direct_ready
    from custom_components.pyscript import trigger
    from custom_components.pyscript.trigger import TrigTime
    async def _job(f, *a):
        return f(*a)
    stub = types.SimpleNamespace(async_add_executor_job=_job)
    if not _direct_ready:
        TrigTime.init(stub)
        _direct_ready = True
    # a Home Assistant instance run in this process in between (failing-input search: second pass) leaves its own, by now
    # stopped, hass in TrigTime.hass - sunrise/sunset would then take the "not defined at this latitude" fall-back
    TrigTime.hass = stub
    return trigger, TrigTime


def _exc_name(e):
    # ValueError is the modelled outcome "the date does not exist" (datetime() refused it)
    return "raise" if type(e) is ValueError else "raise:" + type(e).__name__


async def _run_active(c, trigger, TrigTime):
    p = c.payload
    arg = p["strs"][0] if p["as_str"] else list(p["strs"])
    try:
        r = await TrigTime.timer_active_check(arg, dt_of(p["now"]), dt_of(p["startup"]))
        c.impl = "T" if r is True else "F" if r is False else f"value:{r!r}"
    except Exception as e:  # an exception of pyscript is an outcome
        c.impl = _exc_name(e)


async def _run_handler(c, trigger):
    from custom_components.pyscript.decorators import timing
    from custom_components.pyscript.decorator_abc import DispatchData
    p = c.payload
    kwargs = {} if p["hold"] is None else {"hold_off": p["hold"]}
    dec = timing.TimeActiveDecorator(list(p["strs"]), kwargs)
    dec.dm = types.SimpleNamespace(startup_time=dt_of(p["startup"]), get_decorators=lambda t=None: [object()],
                                   func_name="f", name="file.t.f", ast_ctx=None)
    cur = {"mono": 0.0, "now": None}
    out = []
    try:
        await dec.validate()
        with patch.object(timing, "time", types.SimpleNamespace(monotonic=lambda: cur["mono"])), \
                patch.object(trigger, "dt_now", lambda: cur["now"]):
            for ev in p["events"]:
                cur["mono"], cur["now"] = float(ev["t"]), dt_of(ev["wall"])
                data = DispatchData({"trigger_type": "time", "trigger_time": cur["now"]} if ev["tt"]
                                    else {"trigger_type": "state", "value": "1"})
                if ev["tt"]:
                    cur["now"] += dt.timedelta(milliseconds=750)    # the task wakes up after the instant it was set for
                r = await dec.handle_dispatch(data)
                out.append("0" if r is False else "1")
        c.impl = "".join(out)
    except Exception as e:
        c.impl = "".join(out) + _exc_name(e)


def _run_direct(cases):
    logging.disable(logging.CRITICAL)
    trigger, TrigTime = _direct_env()
    loop = asyncio.new_event_loop()
    asyncio.set_event_loop(loop)
    try:
        with patch.object(trigger.sun, "get_astral_location", lambda hass: (Sun.loc(), 0)):
            for c in cases:
                if c.payload["kind"] == "active":
                    loop.run_until_complete(_run_active(c, trigger, TrigTime))
                else:
                    loop.run_until_complete(_run_handler(c, trigger))
    finally:
        loop.close()
    return [c.impl for c in cases]


# ---- ha scenarios
def sources(f):
    """the trigger decorators of a function in source order and the legacy trigger task each belongs to: trigger_init starts
    one TrigInfo per k-th decorator of each type (the k-th @state_trigger, @event_trigger, ... share task k)"""
    prim = {"state": "sx", "event": "e1", "time": "tm"}[f["trig"]]
    out, cnt = {}, {}
    for src in [prim] + list(f.get("more", [])):
        typ = src[0]
        out[src] = cnt.get(typ, 0)
        cnt[typ] = out[src] + 1
    return out


def func_events(scen, fi):
    """the event list of function fi.  occurrence: t (s), id (run identifier), wall, ok (trigger condition), and for the
    @state_active expression: env (its variable dictionary is non-empty), sa (value on the triggering values), stale
    ((k, value) if the table still held the dictionary of occurrence number k)"""
    f = scen["funcs"][fi]
    x_watched = any("sx" in sources(g) for g in scen["funcs"])
    src = sources(f)
    state, evs, dicts, last_x = {}, [], [], None
    timeline = [(s[0], 0, s) for s in scen["stim"]]
    if f["trig"] == "time":
        timeline += [(t, 1, ["", "tick", t]) for t in f["instants"]]
    timeline.sort(key=lambda z: (z[0], z[1]))
    sa = SA_EXPRS[f["sa"]] if f["sa"] is not None else None

    def occ(t, ident, wall, ok, new_vars, g=0):
        e = {"t": t, "kind": "occ", "id": ident, "wall": wall, "ok": ok, "n": len(dicts) + 1, "env": True, "sa": "T", "stale": [],
             "g": g}
        if sa is not None:
            d = var_dict(sa[2], new_vars, state, last_x)
            e["env"] = bool(d)
            e["sa"] = aval(sa[1], Ctx(state, d))
            if not d:
                e["stale"] = [[k + 1, aval(sa[1], Ctx(state, dk))] for k, dk in enumerate(dicts) if dk]
            dicts.append(d)
        else:
            dicts.append({})
        evs.append(e)

    # state_hold: the first qualifying change starts the hold, further qualifying changes are absorbed, a change that makes
    # the trigger expression false cancels it; the OCCURRENCE the guards see is the completion (start + hold): that is the
    # occurrence time for @time_active / hold_off, the values are those of the change that started the hold
    hold = f.get("shold")
    pending = [None]

    def flush(upto):
        if pending[0] is not None and pending[0][0] + hold < upto:
            c = pending[0][0] + hold
            occ(c, pending[0][1], c, True, pending[0][2])
            pending[0] = None

    if f["trig"] == "time" and f.get("startup"):
        occ(0.0, "startup", None, True, {})     # the function is defined before any stimulus: nothing exists yet
    for t, _, s in timeline:
        what = s[1]
        if hold:
            flush(t)
        if what in ("en", "cnt"):
            state[what] = s[2]
        elif what == "x":
            oldv = state.get("x")
            state["x"] = s[2]
            if x_watched:
                last_x = s[2]
            if "sx" in src:
                ok = (int(s[2]) % 3 != 0) if f["expr"] and f["trig"] == "state" else True
                if not hold:
                    occ(t, "x" + s[2], t, ok, {"pyscript.x": s[2], "pyscript.x.old": oldv}, src["sx"])
                elif not ok:
                    pending[0] = None
                elif pending[0] is None:
                    pending[0] = [t, "x" + s[2], {"pyscript.x": s[2], "pyscript.x.old": oldv}]
        elif what == "y":
            oldy = state.get("y")
            state["y"] = s[2]
            if "sy" in src:
                occ(t, "y" + s[2], t, True, {"pyscript.y": s[2], "pyscript.y.old": oldy}, src["sy"])
        elif what == "ev":
            if "e1" in src:
                occ(t, "e" + str(s[2]), t, (s[2] % 3 != 0) if f["expr"] and f["trig"] == "event" else True, {}, src["e1"])
        elif what == "ev2":
            if "e2" in src:
                occ(t, "g" + str(s[2]), t, True, {}, src["e2"])
        elif what == "direct":
            evs.append({"t": t, "kind": "direct", "id": "d" + str(s[2])})
        elif what == "tick":
            occ(t, "t" + sec_str(t), t, True, {})
    if hold:
        flush(float("inf"))       # the scenario runs on for longer than any hold
    return evs


def script_for(scen):
    lines = ["def ident(kw):",
             "    if 'seq' in kw:",
             "        return 'd' + str(kw['seq'])",
             "    tt = kw.get('trigger_type')",
             "    if tt == 'state':",
             "        return kw.get('var_name')[-1] + str(kw.get('value'))",
             "    if tt == 'event':",
             "        return ('e' if kw.get('event_type') == 'ev' else 'g') + str(kw.get('n'))",
             "    t = kw.get('trigger_time')",
             "    if t == 'startup':",
             "        return 'startup'",
             "    s = str(t.hour) + ':' + ('%02d' % t.minute) + ':' + ('%02d' % t.second)",
             "    if t.microsecond:",
             "        s = s + '.' + ('%06d' % t.microsecond).rstrip('0')",
             "    return 't' + s",
             ""]
    for fi, f in enumerate(scen["funcs"]):
        if f["trig"] == "state":
            hk = f", state_hold={f['shold']}" if f.get("shold") else ""
            trig = f'@state_trigger("int(pyscript.x) % 3 != 0"{hk})' if f["expr"] else f'@state_trigger("pyscript.x"{hk})'
        elif f["trig"] == "event":
            trig = '@event_trigger("ev", "n % 3 != 0")' if f["expr"] else '@event_trigger("ev")'
        else:
            args = (['"startup"'] if f.get("startup") else []) + [f'"once({sec_str(t)})"' for t in f["instants"]]
            trig = "@time_trigger(" + ", ".join(args) + ")"
        guards = []
        if f["sa"] is not None:
            guards.append(("sa", f'@state_active("{SA_EXPRS[f["sa"]][0]}")'))
        if f["ta"]:
            args = [json.dumps(render_aspec(a, f["style"])) for a in f["specs"]]
            if f["hold"] is not None:
                args.append(f"hold_off={f['hold']}")
            guards.append(("ta", "@time_active(" + ", ".join(args) + ")"))
        if not f["sa_first"]:
            guards.reverse()
        decs = [g[1] for g in guards]
        if f["trig_pos"] == "top":
            decs = [trig] + decs
        elif f["trig_pos"] == "mid" and decs:
            decs = decs[:1] + [trig] + decs[1:]
        else:
            decs = decs + [trig]
        # further trigger decorators (same or other type), below everything else
        more = {"sx": '@state_trigger("pyscript.x")', "sy": '@state_trigger("pyscript.y")', "e1": '@event_trigger("ev")',
                "e2": '@event_trigger("ev2")'}
        decs += [more[m] for m in f.get("more", [])]
        lines += decs + [f"def f{fi}(**kw):", f"    rec('run', {fi}, ident(kw))", ""]
    lines += ['@event_trigger("direct")', "def caller(seq=None, **kw):"]
    for fi in range(len(scen["funcs"])):
        lines.append(f"    f{fi}(seq=seq)")
    return "\n".join(lines) + "\n"


async def _goto(env, t):
    """advance the virtual clock to exactly T0 + t and let everything due run"""
    loop = env.loop
    loop.horizon = loop.T0 + t
    for _ in range(3):
        loop._idle_waiter = loop.create_future()
        await loop._idle_waiter
    loop._idle_waiter = None


def _run_scenario(arg):
    scen, legacy = arg
    from ha_env import run_ha
    from custom_components.pyscript.function import Function
    # ha_env registers `rec` only after set-up; runs started during set-up ("startup" triggers) need it earlier
    early = []
    Function.register({"rec": lambda *a: early.append([0.0] + list(a)), "vtime": lambda: 0.0})

    async def body(env):
        for t, what, v in scen["stim"]:
            await _goto(env, t)
            if what in ("ev", "ev2"):
                env.hass.bus.async_fire(what, {"n": v})
            elif what == "direct":
                env.hass.bus.async_fire("direct", {"seq": v})
            else:
                env.hass.states.async_set("pyscript." + what, v)
        await _goto(env, scen["end"] + 3.0)       # longer than any state_hold
        errs = sorted({m.split("\n")[-2][:80] if "\n" in m else m[:80] for (n, lvl, m) in env.log
                       if lvl == "ERROR" and "ZeroDivisionError" not in m and "pyscript.eval" not in n})
        return early + [list(r) for r in env.records], errs

    try:
        return run_ha({"c07.py": script_for(scen)}, legacy, body, vnow_tick=bool(scen.get("tick")))
    except Exception as e:  # harness-level problem for this scenario
        return "harness:" + type(e).__name__ + ":" + str(e)[:200]


def run_impl(cases):
    direct = [c for c in cases if c.payload["kind"] in ("active", "handler")]
    if direct:
        _run_direct(direct)       # ~0.3 ms per case: in-process
    ha = [c for c in cases if c.payload["kind"] == "ha"]
    groups = {}
    for c in ha:
        groups.setdefault((json.dumps(c.payload["scen"], sort_keys=True), c.payload["legacy"]), []).append(c)
    keys = list(groups)
    # ~0.2 s per scenario once Home Assistant is imported: sequential in-process beats forking workers
    results = [_run_scenario((groups[k][0].payload["scen"], k[1])) for k in keys]
    for k, res in zip(keys, results):
        for c in groups[k]:
            if isinstance(res, str):
                c.impl = res
                continue
            recs, errs = res
            ran = {}
            for r in recs:
                if len(r) >= 4 and r[1] == "run" and r[2] == c.payload["fi"]:
                    ran[r[3]] = ran.get(r[3], 0) + 1
            evs = func_events(c.payload["scen"], c.payload["fi"])
            ids = [e["id"] for e in evs]
            flags = "".join("1" if ran.get(i, 0) == 1 else "0" if ran.get(i, 0) == 0 else "M" for i in ids)
            extra = sorted(set(ran) - set(ids))
            c.impl = flags + ("" if not extra else " extra=" + ",".join(extra))
    for c in cases:
        c.line = make_line(c)


# ------------------------------------------------------------------------------------------------ driver lines
def make_line(c):
    p = c.payload
    cron_ids = {}
    if p["kind"] == "active":
        now, st = dt_of(p["now"]), dt_of(p["startup"])
        sun = Sun()
        p["_oracle"] = _show(oracle_window(p["specs"], now, st, sun))
        specs = sx_specs(p["specs"], cron_ids)
        return "C07 " + sx(["active", specs, p["now"], p["startup"], sun.table(), cron_table(cron_ids, [now])])
    if p["kind"] == "handler":
        st = dt_of(p["startup"])
        sun = Sun()
        specs = sx_specs(p["specs"], cron_ids)
        evs = [["occ", i + 1, int(round(e["t"] * 1000000)), e["wall"], True, True, "T", []] for i, e in enumerate(p["events"])]
        hold = "none" if p["hold"] is None else int(round(p["hold"] * 1000000))
        p["_oracle"] = oracle_runs(p["specs"], p["hold"], st, [{"t": e["t"], "kind": "occ", "wallus": e["wall"], "ok": True, "sa": "T"} for e in p["events"]], True, True)
        walls = sorted({dt_of(e["wall"]) for e in p["events"]})
        return "C07 " + sx(["new", "cur", [False, True, specs, hold, False, p["startup"]], evs, sun.table(), cron_table(cron_ids, walls)])
    scen, fi = p["scen"], p["fi"]
    f = scen["funcs"][fi]
    evs = func_events(scen, fi)
    st_us = us_of(BASE)   # triggers start at virtual time 0 (ha_env settles 1 ms only after set-up)
    out, walls, oev = [], set(), []
    for e in evs:
        if e["kind"] == "direct":
            out.append("direct")
            oev.append(e)
            continue
        wall = us_of(BASE) + (0 if e["wall"] is None else int(round(e["wall"] * 1000000)))
        walls.add(dt_of(wall))
        ev = ["occ", e["n"], int(round(e["t"] * 1000000)), wall, e["ok"], e["env"], e["sa"], e["stale"]]
        out.append(["g", e["g"], ev] if p["legacy"] and e.get("g") else ev)
        oev.append(dict(e, wallus=wall))
    specs = sx_specs(f["specs"], cron_ids)
    hold = "none" if f["hold"] is None else int(round(f["hold"] * 1000000))
    cfg = [f["sa"] is not None, f["ta"], specs, hold, f["sa_first"], st_us]
    p["_oracle"] = oracle_runs(f["specs"], f["hold"], dt_of(st_us), oev, f["sa"] is not None, f["ta"])
    head = ["legacy", "cur"] if p["legacy"] else ["new", "cur"]
    return "C07 " + sx(head + [cfg, out, [], cron_table(cron_ids, sorted(walls))])


def _show(v):
    return "raise" if v == "raise" else "T" if v else "F"


def oracle_runs(specs, hold, startup, evs, has_sa, has_ta):
    """the property read directly: run iff trigger condition and state_active truthy and window admits the occurrence time
    and no accepted occurrence less than hold_off before; direct calls always run"""
    acc, out = [], []
    n = (hold or 0) if has_ta else 0
    for e in evs:
        if e["kind"] == "direct":
            out.append("1")
            continue
        ok = e["ok"] and (not has_sa or e["sa"] == "T")
        if ok and has_ta:
            ok = oracle_window(specs, dt_of(e["wallus"]), startup) is True
        if ok:
            ok = all(e["t"] - a >= n for a in acc)
        if ok:
            acc.append(e["t"])
        out.append("1" if ok else "0")
    return "".join(out)


def split(outline):
    m = re.match(r"model=(\S*) spec=(\S*)$", outline)
    if not m:
        return outline, None
    return m.group(1), m.group(2)


# ------------------------------------------------------------------------------------------------ verdict
def verdict(c):
    """the property, on the implementation's behaviour, against the independent Python oracle"""
    want = c.payload.get("_oracle")
    if want is None:
        return None
    p = c.payload
    if p["kind"] == "active":
        if want == "raise":
            # a non-existent date has no meaning in the property; the code must not answer "active"
            return None if c.impl != "T" else "time_active with a non-existent date reported active"
        if c.impl != want:
            return f"timer_active_check says {c.impl}, the specification list denotes {want}"
        return None
    if c.impl != want:
        sub = "new" if p["kind"] == "handler" or not p["legacy"] else "legacy"
        return f"{sub}: runs {c.impl}, the guards admit {want}"
    return None


def _py_run(p, flags, legacy):
    """python mirror of Legacy.run / New.run with a subset of the deviation flags – only used to NAME a failing case"""
    if p["kind"] == "handler":
        specs, hold, st, has_sa, has_ta, sa_first = p["specs"], p["hold"], dt_of(p["startup"]), False, True, False
        evs = [{"t": e["t"], "kind": "occ", "wallus": e["wall"], "ok": True, "sa": "T", "env": True, "stale": [], "n": i + 1}
               for i, e in enumerate(p["events"])]
    else:
        f = p["scen"]["funcs"][p["fi"]]
        specs, hold, has_sa, has_ta, sa_first = f["specs"], f["hold"], f["sa"] is not None, f["ta"], f["sa_first"]
        st = BASE
        evs = []
        for e in func_events(p["scen"], p["fi"]):
            if e["kind"] == "occ":
                e = dict(e, wallus=us_of(BASE) + (0 if e["wall"] is None else int(round(e["wall"] * 1000000))))
            evs.append(e)
    if not has_ta:
        hold = None
    last, tbl, out, lasts = None, 0, [], {}
    for e in evs:
        if e["kind"] == "direct":
            out.append("1")
            continue
        if not e["ok"]:
            out.append("0")
            continue
        now = dt_of(e["wallus"])

        def held():
            return bool(hold) and last is not None and e["t"] - last < hold

        def windows():
            if not specs:
                return True
            if "perArg" in flags and not legacy:
                return any(oracle_window([a], now, st) is True for a in specs)
            return oracle_window(specs, now, st) is True

        def sa_seen():
            nonlocal tbl
            v = e["sa"]
            if "staleLocals" in flags and not e["env"] and tbl:
                v = dict((k, x) for k, x in e["stale"]).get(tbl, v)
            if e["env"]:
                tbl = e["n"]
            return v
        if legacy:
            if "groupHold" in flags:      # one last_trig_time per trigger task
                last = lasts.get(e.get("g", 0))
            ok = True
            if has_sa:
                ok = sa_seen() == "T"
            if ok and has_ta:
                ok = windows()
            if ok and held():
                ok = False
            if ok:
                last = e["t"]
                lasts[e.get("g", 0)] = last
            out.append("1" if ok else "0")
            continue
        order = (["sa"] if has_sa else []) + (["ta"] if has_ta else [])
        if not sa_first:
            order.reverse()
        ok, stamp = True, False
        for h in order:
            if h == "sa":
                v = sa_seen()
                ok = v in ("T", "Z") if "identityFalse" in flags else v == "T"
            else:
                ok = not held() and windows()
                if ok:
                    stamp = True
            if not ok:
                break
        if stamp and (ok or "stampEarly" in flags):
            last = e["t"]
        out.append("1" if ok else "0")
    return "".join(out)


# deviations of the model's Flags.  Only `stampEarly` (finding C07-F2) is still in the code; the others were repaired by the
# fix commits e0254f9 (perArg), 07af69d (identityFalse), 4801d95 (staleLocals): a case they explain is a REGRESSION and gets
# a signature that matches no known finding.
OPEN_FLAGS = ["stampEarly"]
FIXED_FLAGS = ["perArg", "identityFalse", "staleLocals"]


def classify(c, reason):
    p = c.payload
    if p["kind"] == "active":
        return "active:" + re.sub(r"\d+", "N", reason)[:60]
    legacy = p["kind"] == "ha" and p["legacy"]
    sub = "legacy" if legacy else "new"
    # legacy: `groupHold` = hold_off kept per trigger task (open finding C07-F5)
    names = ["groupHold", "staleLocals"] if legacy else OPEN_FLAGS + FIXED_FLAGS
    for k in range(1, len(names) + 1):
        for fl in itertools.combinations(names, k):
            if _py_run(p, set(fl), legacy) == c.impl:
                back = [f for f in fl if f in FIXED_FLAGS]
                if back:
                    return sub + ":regressed:" + back[0]     # behaviour of the code before the fix commit
                return sub + ":" + fl[0]
    return sub + ":unexplained"


def _more_ones(a, b):
    return any(x == "1" and y == "0" for x, y in zip(a, b))


def replay_cases(obj):
    return [Case(obj["case"], None)]


def shrink(c, reason):
    """ha / handler cases: drop events from the end while the verdict still fails (cheap, keeps the witness readable)"""
    return c


def extra_coverage(cases):
    cov = {"streams": {}, "impl_outcomes": {}, "date_forms": {}, "time_forms": {}, "spec_kinds": {}, "boundary_hits": 0,
           "wrapping_ranges": 0, "subsystems": {}, "trigger_kinds": {}, "state_active_values": {}, "hold_off_exact_ties": 0,
           "direct_calls": 0, "decorator_orders": {}, "lean_spec_vs_python_oracle_mismatches": 0,
           "functions_with_several_triggers": {}, "occurrences_of_a_second_trigger_task": 0,
           "state_hold_completions": 0, "state_hold_straddling_a_window_end": 0}

    def bump(d, k):
        d[k] = d.get(k, 0) + 1
    for c in cases:
        p = c.payload
        bump(cov["streams"], p["kind"])
        if c.spec is not None and c.spec != p.get("_oracle"):
            cov["lean_spec_vs_python_oracle_mismatches"] += 1
        if p["kind"] == "active":
            bump(cov["impl_outcomes"], c.impl)
            now, st = dt_of(p["now"]), dt_of(p["startup"])
            for a in p["specs"]:
                bump(cov["spec_kinds"], ("not " if a["neg"] else "") + a["kind"])
                if a["kind"] != "range":
                    continue
                for d in (a["s"], a["e"]):
                    bump(cov["date_forms"], "now" if d[0] == "now" else d[1] if isinstance(d[1], str) else d[1][0])
                    if d[0] == "at":
                        bump(cov["time_forms"], d[2] if isinstance(d[2], str) else "hms")
                try:
                    s, e = range_ends(a, now, st, Sun())
                    if e < s:
                        cov["wrapping_ranges"] += 1
                    if abs(us_of(now) - us_of(s)) <= 1 or abs(us_of(now) - us_of(e)) <= 1:
                        cov["boundary_hits"] += 1
                except ValueError:
                    pass
        elif p["kind"] == "handler":
            bump(cov["subsystems"], "new")
            acc = None
            for e, fl in zip(p["events"], c.impl or ""):
                if p["hold"] and acc is not None and e["t"] - acc == p["hold"]:
                    cov["hold_off_exact_ties"] += 1
                if fl == "1":
                    acc = e["t"]
        else:
            f = p["scen"]["funcs"][p["fi"]]
            bump(cov["subsystems"], "legacy" if p["legacy"] else "new")
            bump(cov["trigger_kinds"], f["trig"])
            bump(cov["decorator_orders"], "sa_first" if f["sa_first"] else "ta_first")
            if f.get("more"):
                bump(cov["functions_with_several_triggers"], "+".join(sorted(sources(f))))
                cov["occurrences_of_a_second_trigger_task"] += sum(1 for e in func_events(p["scen"], p["fi"]) if e.get("g"))
            acc = None
            for e, fl in zip(func_events(p["scen"], p["fi"]), c.impl or ""):
                if e["kind"] == "direct":
                    cov["direct_calls"] += 1
                    continue
                if f.get("shold") and e["wall"] is not None:
                    cov["state_hold_completions"] += 1
                    t1 = BASE + dt.timedelta(seconds=e["wall"])
                    t0 = t1 - dt.timedelta(seconds=f["shold"])
                    if f["ta"] and oracle_window(f["specs"], t0, BASE) != oracle_window(f["specs"], t1, BASE):
                        cov["state_hold_straddling_a_window_end"] += 1
                bump(cov["state_active_values"], e["sa"] if f["sa"] is not None else "-")
                if f["hold"] and acc is not None and e["t"] - acc == f["hold"]:
                    cov["hold_off_exact_ties"] += 1
                if fl == "1":
                    acc = e["t"]
    return cov
