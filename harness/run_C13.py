"""C13 correspondence + property oracle: task.unique on a real Home Assistant instance (virtual clock).

Two independent observers of every run:
* the API-level trace (wrappers around Function.run_coro / task_unique / unique_name_used / the reaper queue's get /
  TaskUniqueDecorator.handle_call) gives the *observed linearisation* of atomic steps that the Lean model replays;
* the script-level markers written by the generated scripts (`rec(...)` before and after every step) plus the
  quiescent snapshots (task.name2id() per context, done()/cancelled() per task) feed a Python oracle that checks the
  property itself, keyed by (context, name) pairs and knowing nothing about the bookkeeping.
"""
import asyncio
import itertools
import json
import types

import common
from common import Case, sx

PROP = "C13"
RULE = ("scenarios = <=5 launches (event trigger / service call / @task_unique-decorated trigger / foreign asyncio task) "
        "at grid instants 0..3 (several per instant), each running a generated plan of task.unique(name, kill_me) / "
        "task.sleep(k*10ms) / raise / finish over <=3 names and 2 global contexts (two script files); families: "
        "A = sampled from the full product of 3 tasks x 2 steps x start offsets in one context, B = random 2-5 tasks "
        "over both contexts with all launch kinds, C = directed shapes (same-instant double dispatch of a decorated "
        "function, task.unique / task.name2id reached through a helper imported from modules/m.py by both script files - the "
        "claim belongs to the module's context, and right after every completed claim name2id(name) must report the "
        "caller -, an occurrence of one trigger of a decorated function while a run started by another of its triggers "
        "is alive - every decorated function carries two @event_trigger and one @state_trigger, the launch says which "
        "fires -, decorated vs running owner, foreign callers, nested context names with dotted task names - since "
        "/repo ef1f444 expected to be as separate as any other two contexts). "
        "Family E = the done-callback phase of run_coro's finally: runs register a done-callback on themselves whose plan "
        "sleeps and / or claims; claims of other runs arrive while the owner is inside its suspended callback, callbacks "
        "claim names themselves (also as their last statement, also before raising), kill_me meets an owner inside its "
        "callback, halted / displaced / decorated runs go on into their callbacks; directed + random. "
        "Every scenario runs under legacy_decorators True and False.  Non-trivial = at least one task.unique step or "
        "decorator; distinct by payload.")
ASSUMPTIONS = [
    "asyncio is cooperative: code between two awaits is atomic; Task.cancel() is delivered at the task's next resumption",
    "asyncio.Queue is FIFO (reaper queue)",
    "tasks in the generated scripts have no try/finally around task.unique (a parked kill-me caller never runs again)",
    "done-callbacks (family E) are user code run by the ending task itself: in the model they are further segments of that "
    "task between `endBody` and `exit`; the callback table itself is C14's subject",
]
TRUSTED = ["harness/run_C13.py (script generator, API-level trace wrappers, canonicalisation, Python property oracle)",
           "harness/ha_env.py + vclock.py (real Home Assistant instance on a virtual clock)",
           "modelled not verified: asyncio scheduling/cancellation, Home Assistant event bus and service registry"]

GRID = 0.010
NAMES = ["n0", "n1", "n2"]
FLAT = ["file.a", "file.b"]
NESTED = ["scripts.a", "scripts.a.b"]
MOD = "modules.m"                      # a helper module imported by both script files: its functions run in ITS context
WITHMOD = FLAT + [MOD]
CTX_FILE = {"file.a": "a.py", "file.b": "b.py", "scripts.a": "scripts/a.py", "scripts.a.b": "scripts/a/b.py",
            MOD: "modules/m.py"}
MOD_SRC = """
def excl(name, kill_me=False):
    task.unique(name, kill_me=kill_me)
    try:
        owner = task.name2id(name)
    except NameError:
        owner = None
    return owner is task.current_task()
"""
_SIDE = {}


def ident(s):
    return s.replace(".", "_")


UKINDS = ("u", "up", "u1", "un", "uc")      # task.unique in the script's own context: keyword kill_me, positional
                                              # kill_me, default kill_me, inside a nested function, inside a comprehension


def deco_names(p):
    return sorted({l[4][0] for l in p["launch"] if l[1] == "deco"})


def deco_fn(p, ctx, deco):
    """identifier of the decorated function for (name, kill_me): names may be any string, so they are numbered"""
    return f"dk_{ident(ctx)}_{deco_names(p).index(deco[0])}_{int(bool(deco[1]))}"


# ------------------------------------------------------------------ scenario -> script files
def gen_files(p):
    files = {}
    for ci, ctx in enumerate(p["ctxs"]):
        if ctx == MOD:
            files[CTX_FILE[ctx]] = MOD_SRC
            continue
        plans = {i: pl for i, pl in enumerate(p["plans"]) if p["launch"][i][2] == ci}
        cbplans = {int(i): pl for i, pl in (p.get("cbs") or {}).items() if p["launch"][int(i)][2] == ci}
        c = ident(ctx)
        src = (["import m", ""] if MOD in p["ctxs"] else []) + [
               "def owns(name):",
               "    try:",
               "        return task.name2id(name) is task.current_task()",
               "    except NameError:",
               "        return False",
               "",
               f"PLANS = {plans!r}",
               f"CBPLANS = {cbplans!r}", "",
               "def steps(i, plan, j):",
               "    for st in plan:",
               "        rec('b', i, j)",
               "        if st[0] == 'u':",
               "            task.unique(st[1], kill_me=st[2])",
               "            rec('chk', i, j, owns(st[1]))",
               "        elif st[0] == 'up':",
               "            task.unique(st[1], st[2])",
               "            rec('chk', i, j, owns(st[1]))",
               "        elif st[0] == 'u1':",
               "            task.unique(st[1])",
               "            rec('chk', i, j, owns(st[1]))",
               "        elif st[0] == 'un':",
               "            def inner(nm, km):",
               "                task.unique(nm, kill_me=km)",
               "                return owns(nm)",
               "            rec('chk', i, j, inner(st[1], st[2]))",
               "        elif st[0] == 'uc':",
               "            [task.unique(nm, kill_me=st[2]) for nm in [st[1]]]",
               "            rec('chk', i, j, owns(st[1]))",
               "        elif st[0] == 'm':",
               "            rec('chk', i, j, m.excl(st[1], kill_me=st[2]))",
               "        elif st[0] == 's':",
               "            task.sleep(st[1] * %r)" % GRID,
               "        else:",
               "            raise ValueError('boom')",
               "        rec('a', i, j)",
               "        j += 1",
               "",
               "def fin(i):",
               "    # done-callback of run i: further segments of the same task, after its body has ended",
               "    rec('cbstart', i)",
               "    steps(i, CBPLANS[i], len(PLANS[i]))",
               "    rec('end2', i)",
               "",
               "def runner(i):",
               "    rec('start', i, task.current_task())",
               "    if i in CBPLANS:",
               "        task.add_done_callback(task.current_task(), fin, i)",
               "    steps(i, PLANS[i], 0)",
               "    rec('end', i)",
               "",
               f"@event_trigger('go_{c}')",
               "def launch(i=None):",
               "    runner(i)",
               "",
               "@service",
               f"def svc_{c}(i=None):",
               "    runner(i)",
               "",
               f"@event_trigger('cr_{c}')",
               "def crl(i=None):",
               "    task.create(runner, i)",
               ""]
        decos = sorted({(l[4][0], bool(l[4][1])) for l in p["launch"] if l[2] == ci and l[1] == "deco"})
        for name, km in decos:
            fn = deco_fn(p, ctx, [name, km])
            lit = int(km) if deco_names(p).index(name) % 2 else km      # kill_me=1 / 0 are accepted like True / False
            # every decorated function has THREE trigger decorators - two of the same kind and one of another kind -
            # all of which must apply the same @task_unique rule (launch field deco[2] says which one fires)
            src += [f"@event_trigger('{fn}')", f"@event_trigger('{fn}_b')", f"@state_trigger('pyscript.{fn}_s')",
                    f"@task_unique({name!r}, kill_me={lit})", f"def {fn}(i=None, value=None, **kwargs):",
                    "    if i is None:", "        i = int(value)", "    runner(i)", ""]
        files[CTX_FILE[ctx]] = "\n".join(src)
    return files


def horizon(p):
    h = 0
    cbs = p.get("cbs") or {}
    for i, (l, pl) in enumerate(zip(p["launch"], p["plans"])):
        h = max(h, l[0] + sum(st[1] for st in pl + cbs.get(str(i), []) if st[0] == "s"))
    return h + 2


# ------------------------------------------------------------------ one run on the real code
_UHOOK = {"trace": None, "depth": [0], "installed": False}


def _install_unique_hook():
    """Wrap Function.task_unique_factory once per process, BEFORE pyscript is set up, so that every function table - also
    the one of the file-level evaluator that done-callbacks run with - gets the traced task.unique.  The wrapper calls
    the real closure; it only records begin / end of the call while a trace is active (and not inside the new
    subsystem's decorator, which is one model step of its own)."""
    if _UHOOK["installed"]:
        return
    from custom_components.pyscript.function import Function
    orig_factory = Function.task_unique_factory.__func__

    def factory(cls, ctx):
        inner = orig_factory(cls, ctx)

        async def task_unique(name, kill_me=False):
            tr = _UHOOK["trace"]
            if tr is None or _UHOOK["depth"][0]:
                return await inner(name, kill_me=kill_me)
            t = asyncio.current_task()
            tr.append(("ub", t, ctx.get_global_ctx_name(), name, bool(kill_me)))
            r = await inner(name, kill_me=kill_me)
            tr.append(("ua", t))
            return r
        return task_unique
    Function.task_unique_factory = classmethod(factory)
    _UHOOK["installed"] = True


def run_one(p):
    """-> dict(impl=..., line=..., records=[...], error=None|str)"""
    from ha_env import run_ha
    _install_unique_hook()
    try:
        return run_ha(gen_files(p), bool(p["legacy"]), lambda env: _body(env, p))
    except Exception as e:  # harness-level failure of this case: reported as an outcome, judged by the tie
        return {"impl": f"harness-exception:{type(e).__name__}:{e}", "line": None, "records": [], "statuses": {}}


async def _body(env, p):
    from custom_components.pyscript.function import Function
    from custom_components.pyscript.global_ctx import GlobalContextMgr
    from custom_components.pyscript.eval import AstEval
    from custom_components.pyscript.decorators.task import TaskUniqueDecorator

    loop = env.loop
    trace = []
    depth = _UHOOK["depth"]
    depth[0] = 0
    saved = {}

    # --- wrappers (API-level trace) -------------------------------------------------------------
    q = Function.task_reaper_q
    orig_get = q.get

    async def get():
        cmd = await orig_get()
        if cmd and cmd[0] == "cancel":
            trace.append(("rp", cmd[1]))
        return cmd
    q.get = get
    q.put_nowait(["nop"])            # the reaper is parked in the *old* get(); make it loop once
    await env.settle(0)

    orig_run_coro = Function.run_coro.__func__
    saved["run_coro"] = Function.__dict__["run_coro"]

    async def run_coro(cls, coro, ast_ctx=None):
        t = asyncio.current_task()
        trace.append(("sp", t, False))
        why = "ret"

        async def body():
            # the end of the awaited coroutine = the beginning of run_coro's finally (done-callbacks, then the release)
            try:
                return await coro
            finally:
                trace.append(("eb", t))
        try:
            return await orig_run_coro(cls, body(), ast_ctx)
        except asyncio.CancelledError:
            why = "can"
            raise
        finally:
            trace.append(("x", t, why))
    Function.run_coro = classmethod(run_coro)

    _UHOOK["trace"] = trace          # task.unique is traced through the hook installed before pyscript was set up

    orig_used = Function.unique_name_used.__func__
    saved["unique_name_used"] = Function.__dict__["unique_name_used"]

    def used(cls, ctx, name):
        r = orig_used(cls, ctx, name)
        if not depth[0]:
            trace.append(("ck", ctx.get_global_ctx_name(), name, bool(r)))
        return r
    Function.unique_name_used = classmethod(used)

    orig_handle = TaskUniqueDecorator.handle_call
    saved["handle_call"] = orig_handle

    async def handle_call(self, data):
        t = asyncio.current_task()
        depth[0] += 1
        try:
            r = await orig_handle(self, data)
        finally:
            depth[0] -= 1
        trace.append(("dn", t, data.call_ast_ctx.get_global_ctx_name(), self.args[0], bool(self.kill_me),
                      r is not False))
        return r
    TaskUniqueDecorator.handle_call = handle_call

    task_of = {}       # plan index -> task object (script-level 'start' marker)
    foreign_tasks = []

    try:
        # --- launches as timers, so that same-instant launches interleave with wake-ups --------------
        base = loop.time()
        ctx_objs = {}
        for ctx in p["ctxs"]:
            g = GlobalContextMgr.get(ctx)
            if g is None:
                raise RuntimeError(f"context {ctx} not loaded")
            ctx_objs[ctx] = g

        def fire(i):
            inst, kind, ci, _, deco = p["launch"][i]
            ctx = p["ctxs"][ci]
            c = ident(ctx)
            if kind == "trig":
                env.hass.bus.async_fire(f"go_{c}", {"i": i})
            elif kind == "svc":
                loop.create_task(env.hass.services.async_call("pyscript", f"svc_{c}", {"i": i}, blocking=False))
            elif kind == "create":
                env.hass.bus.async_fire(f"cr_{c}", {"i": i})
            elif kind == "deco":
                fn = deco_fn(p, ctx, deco)
                which = deco[2] if len(deco) > 2 else 0
                if which == 0:
                    env.hass.bus.async_fire(fn, {"i": i})
                elif which == 1:
                    env.hass.bus.async_fire(fn + "_b", {"i": i})
                else:
                    env.hass.states.async_set(f"pyscript.{fn}_s", str(i))
            else:
                g = ctx_objs[ctx]
                func = g.global_sym_table["runner"]
                actx = AstEval(f"{ctx}.runner", g)
                Function.install_ast_funcs(actx)

                async def foreign():
                    t = asyncio.current_task()
                    trace.append(("sp", t, True))
                    why = "ret"
                    try:
                        await actx.call_func(func, None, i)
                    except asyncio.CancelledError:
                        why = "can"
                        raise
                    except Exception:  # pylint: disable=broad-except
                        pass
                    finally:
                        trace.append(("x", t, why))
                foreign_tasks.append(loop.create_task(foreign()))

        for i, l in enumerate(p["launch"]):
            loop.call_at(base + l[0] * GRID, fire, i)

        snap_ctx = {ctx: AstEval(f"{ctx}.snap", g) for ctx, g in ctx_objs.items()}
        all_names = sorted({st[1] for pl in p["plans"] for st in pl if st[0] in UKINDS + ("m",)} | set(deco_names(p)))

        def snapshot():
            views = {}
            for ctx in p["ctxs"]:
                views[ctx] = dict(Function.task_name2id_factory(snap_ctx[ctx])())
            seen = [e[1] for e in trace if e[0] == "sp"]
            # task.name2id(name) - with an argument - must say the same as task.name2id(): owner, or NameError
            disagree = []
            for ctx in p["ctxs"]:
                fn = Function.task_name2id_factory(snap_ctx[ctx])
                for nm in all_names:
                    try:
                        one = fn(nm)
                    except NameError:
                        one = None
                    if one is not views[ctx].get(nm):
                        disagree.append(f"{ctx}:{nm}")
            snap = {"views": views, "disagree": disagree,
                    "status": {t: ("r" if not t.done() else ("c" if t.cancelled() else "d")) for t in seen},
                    "queue": [c[1] for c in list(q._queue) if c and c[0] == "cancel"],
                    "ours": set(Function.our_tasks),
                    # keys are (ctx_name, name) tuples since /repo ef1f444 (strings before): print ctx/name
                    "t2n": {t: {(f"{k[0]}/{k[1]}" if isinstance(k, tuple) else str(k)) for k in ns}
                            for t, ns in Function.unique_task2name.items()}}
            trace.append(("snap", snap))
            env.records.append((env.now(), "snap", snap))

        for k in range(horizon(p)):
            await loop.settle_until(base - loop.T0 + k * GRID + GRID / 2)
            snapshot()
    finally:
        Function.run_coro = saved["run_coro"]
        _UHOOK["trace"] = None
        Function.unique_name_used = saved["unique_name_used"]
        TaskUniqueDecorator.handle_call = saved["handle_call"]
        for t in foreign_tasks:
            if not t.done():
                t.cancel()
    return _canon(p, trace, env.records)


def _canon(p, trace, records):
    """trace -> (driver line, impl string); records -> JSON-able script-level log for the oracle"""
    num = {}
    order = []

    def n(t):
        return num.get(t, 99)

    ops, toks = [], []
    i = 0
    while i < len(trace):
        e = trace[i]
        kind = e[0]
        if kind == "sp":
            if e[1] not in num:
                num[e[1]] = len(num)
                order.append(e[1])
            ops.append(["sp", n(e[1]), e[2]])
            toks.append("s")
        elif kind == "ub":
            done = i + 1 < len(trace) and trace[i + 1][0] == "ua" and trace[i + 1][1] is e[1]
            ops.append(["u", n(e[1]), e[2], e[3], e[4]])
            toks.append("u:ok" if done else "u:park")
            if done:
                i += 1
        elif kind == "ua":
            toks.append("ua!")             # a task_unique call that suspended and came back: no model step
        elif kind == "rp":
            ops.append(["rp", n(e[1])])
            toks.append("r:ok")
        elif kind == "eb":
            ops.append(["eb", n(e[1])])
            toks.append("e:ok")
        elif kind == "x":
            ops.append(["x", n(e[1]), e[2]])
            toks.append("x:ok")
        elif kind == "dn":
            ops.append(["dn", n(e[1]), e[2], e[3], e[4]])
            toks.append("d:run" if e[5] else "d:skip")
        elif kind == "ck":
            ops.append(["ck", e[1], e[2]])
            toks.append("c:used" if e[3] else "c:free")
        elif kind == "snap":
            s = e[1]
            ops.append(["snap"] + list(p["ctxs"]))
            views = " ".join(
                ctx + "={" + ",".join(f"{nm}:{n(t)}" for nm, t in sorted(s["views"][ctx].items())) + "}"
                for ctx in p["ctxs"])
            st = "".join(s["status"].get(t, "?") for t in order)
            qs = "(" + " ".join(str(n(t)) for t in s["queue"]) + ")"
            ours = "(" + " ".join(str(n(t)) for t in order if t in s["ours"]) + ")"
            t2n = " ".join(f"{n(t)}=" + "{" + ",".join(sorted(s["t2n"][t])) + "}" for t in order if t in s["t2n"])
            toks.append(f"[{views} | {st} | q={qs} | ours={ours} | t2n={t2n}]")
        i += 1
    line = "C13 " + sx(["run"] + ops)
    # script-level log (what a user of the scripts sees), tasks named by plan index
    log = []
    plan_of = {}
    for r in records:
        tag = r[1]
        if tag == "start":
            plan_of[r[3]] = r[2]
            log.append(["start", r[2]])
        elif tag in ("b", "a"):
            log.append([tag, r[2], r[3]])
        elif tag == "chk":
            log.append(["chk", r[2], r[3], bool(r[4])])
        elif tag in ("end", "end2", "cbstart"):
            log.append([tag, r[2]])
        elif tag == "snap":
            s = r[2]
            views = {ctx: {nm: plan_of.get(t, -1) for nm, t in s["views"][ctx].items()} for ctx in p["ctxs"]}
            st = {str(i): s["status"].get(t, "?") for t, i in plan_of.items()}
            log.append(["snap", views, st, list(s.get("disagree", []))])
    return {"impl": "ok " + " ".join(toks), "line": line, "log": log}


# ------------------------------------------------------------------ the property oracle (script-level, per (ctx, name))
def oracle(p, log):
    """Check the C13 statement on one recorded run.  Returns None or 'kind detail'."""
    L = p["launch"]
    cbs = {int(i): pl for i, pl in (p.get("cbs") or {}).items()}
    # a run with a done-callback goes on after its body: the callback's steps are numbered after the body's
    plans = [pl + cbs.get(i, []) for i, pl in enumerate(p["plans"])]
    nbody = [len(pl) for pl in p["plans"]]
    foreign = {i for i, l in enumerate(L) if l[1] == "foreign"}
    deco = {i: (l[4][0], bool(l[4][1])) for i, l in enumerate(L) if l[1] == "deco"}
    ctx_of = {i: p["ctxs"][l[2]] for i, l in enumerate(L)}
    claims = {}        # (ctx, name) -> plan indices in the order their claims completed
    state = {}         # plan index -> alive | dying (must end: displaced / kill-me) | limbo | dead
    why = {}           # plan index -> displaced | selfkill
    ended = set()      # reached 'end' or started a raise step
    pending = {}       # plan index -> (key, km, owner_before) of a unique call that has not returned (yet)
    started = set()
    nsnap = 0

    def owner(key):
        c = claims.get(key)
        if not c or state.get(c[-1]) == "dead":
            return None
        return c[-1]

    def claim(key, i):
        prev = owner(key)
        if prev is not None and prev != i and state[prev] in ("alive", "limbo"):
            state[prev] = "dying"
            why[prev] = "displaced"
        claims.setdefault(key, []).append(i)

    for e in log:
        tag = e[0]
        if tag == "start":
            i = e[1]
            started.add(i)
            state[i] = "alive"
            if i in deco:
                name, km = deco[i]
                key = (ctx_of[i], name)
                o = owner(key)
                if km and o is not None and o != i and state[o] == "alive":
                    return f"deco-killme-body-started-while-name-owned task={i} owner={o}"
                claim(key, i)
        elif tag == "b":
            i, j = e[1], e[2]
            st = plans[i][j]
            if st[0] in UKINDS + ("m",):
                # task.unique is specific to the CURRENT global context: that of the function executing the call -
                # the script's own context for 'u', the module's for a call made inside the imported helper ('m')
                key = (ctx_of[i] if st[0] != "m" else MOD, st[1])
                pending[i] = (key, bool(st[2]), owner(key))
            elif st[0] == "r":
                if i in cbs and j < nbody[i]:
                    pass                  # the body raises; the task lives on through its done-callback
                else:
                    ended.add(i)
                    state[i] = "dead"
        elif tag == "a":
            i, j = e[1], e[2]
            st = plans[i][j]
            if st[0] in UKINDS + ("m",):
                key, km, o = pending.pop(i)
                if km and o is not None and o != i and state.get(o) == "alive":
                    return f"killme-caller-continued-while-name-owned task={i} owner={o}"
                if i in foreign:
                    if o is not None and o != i and state[o] == "alive":
                        state[o] = "limbo"      # the statement does not say what a foreign caller does to the owner
                else:
                    claim(key, i)
        elif tag == "chk":
            # right after a completed claim task.name2id(name), asked in the same context, reports the caller
            if e[1] not in foreign and not e[3]:
                return f"name2id-not-the-caller-after-claim task={e[1]} step={e[2]}"
        elif tag == "end":
            if e[1] not in cbs:
                ended.add(e[1])
                state[e[1]] = "dead"
        elif tag == "cbstart":
            # the body of run i is over (returned, raised, or was cancelled: displaced / halted by kill_me) and its
            # done-callback begins: the task is alive - it owns what it owned and may claim more - until the callback ends
            i = e[1]
            if i in pending:
                key, km, o = pending.pop(i)
                if not (km and o is not None and o != i):
                    return f"unique-call-never-returned task={i}"
            if state.get(i) == "dying":
                state[i] = "alive"
        elif tag == "end2":
            ended.add(e[1])
            state[e[1]] = "dead"
        elif tag == "snap":
            views, st = e[1], e[2]
            if len(e) > 3 and e[3]:
                return f"name2id-with-argument-disagrees {e[3]}"
            # unique calls that never returned: the caller parked itself
            for i, (key, km, o) in list(pending.items()):
                if not (km and o is not None and o != i):
                    return f"unique-call-never-returned task={i}"
                if state[i] == "alive":
                    state[i] = "dying"
                    why[i] = "selfkill"
                del pending[i]
            for i in sorted(started):
                actual = st.get(str(i), "?")
                s = state[i]
                if s == "dying":
                    if actual == "r":
                        return ("displaced-owner-not-cancelled" if why[i] == "displaced"
                                else "killme-caller-not-terminated") + f" task={i}"
                    if actual == "d" and i not in ended:
                        return f"displaced-owner-not-cancelled task={i} (done without cancellation)"
                    state[i] = "dead"
                elif s == "limbo":
                    state[i] = "alive" if actual == "r" else "dead"
                elif s == "alive":
                    if actual == "c":
                        return ("foreign-task-cancelled" if i in foreign else "task-cancelled-without-displacement") \
                            + f" task={i}"
                    if actual == "d":
                        if i not in ended:
                            return f"task-ended-without-trace task={i}"
                        state[i] = "dead"
                elif s == "dead" and actual == "r" and i not in foreign:
                    return f"ended-task-still-running task={i}"
            for ctx in p["ctxs"]:
                exp = {}
                for (c, name), cl in claims.items():
                    if c == ctx and state[cl[-1]] == "alive":
                        exp[name] = cl[-1]
                got = views[ctx]
                if got != exp:
                    extra = sorted(set(got) - set(exp))
                    if extra:
                        return f"name2id-stale-or-alien-name ctx={ctx} names={extra}"
                    if "" in exp and "" not in got and exp[""] in deco and deco[exp[""]][0] == "":
                        # the run was started by a function decorated @task_unique("") and does not own ""
                        return f"deco-empty-name-not-claimed ctx={ctx} task={exp['']}"
                    return f"name2id-wrong-owner ctx={ctx} expected={exp} got={got}"
            # every launch starts its own run (a decorated kill_me run may be dropped while the name is owned)
            for i, l in enumerate(L):
                if l[0] <= nsnap and i not in started:
                    if i in deco and deco[i][1] and claims.get((ctx_of[i], deco[i][0])):
                        continue
                    return f"launch-did-not-start task={i}"
            nsnap += 1
    return None


# ------------------------------------------------------------------ generators
def mk(p, tags):
    p = dict(p)
    c = Case(p, None, tags=tags)
    c.nontrivial = any(st[0] in UKINDS + ("m",) for pl in p["plans"] for st in pl) or any(l[1] == "deco" for l in p["launch"])
    return c


def both(scn, tags):
    return [mk(dict(scn, legacy=leg), tags + (("legacy",) if leg else ("new",))) for leg in (True, False)]


ALPHA = [["u", "n0", False], ["u", "n0", True], ["u", "n1", False], ["s", 1]]


def family_a(rng, n):
    """3 tasks x 2 steps x start offset, one context; sampled from the full product (32768 scenarios)"""
    out = []
    for _ in range(n):
        plans, launch = [], []
        for t in range(3):
            plans.append([list(rng.choice(ALPHA)), list(rng.choice(ALPHA)), ["s", 1]])
            launch.append([rng.randrange(2), "trig", 0, t, None])
        out += both({"ctxs": FLAT, "plans": plans, "launch": launch}, ("A",))
    return out


def rand_plan(rng, names, mod=False):
    pl = []
    for _ in range(rng.randrange(1, 5)):
        r = rng.random()
        if mod and r < 0.25:
            pl.append(["m", rng.choice(names), rng.random() < 0.3])
        elif r < 0.55:
            pl.append([rng.choice(["u", "u", "u", "up", "un", "uc"]), rng.choice(names), rng.random() < 0.3])
        elif r < 0.6:
            pl.append(["s", 0])
        else:
            pl.append(["s", rng.randrange(1, 4)])
    r = rng.random()
    if r < 0.15:
        pl.append(["r"])
    elif r < 0.6:
        pl.append(["s", rng.randrange(1, 3)])
    return pl


def family_b(rng, n):
    out = []
    for _ in range(n):
        nt = rng.randrange(2, 6)
        names = NAMES[: rng.randrange(1, 4)]
        mod = rng.random() < 0.3
        plans, launch = [], []
        for t in range(nt):
            plans.append(rand_plan(rng, names, mod))
            kind = rng.choices(["trig", "svc", "deco", "foreign", "create"], [40, 15, 20, 12, 13])[0]
            deco = [rng.choice(names), rng.random() < 0.5, rng.randrange(3)] if kind == "deco" else None
            launch.append([rng.randrange(4), kind, rng.randrange(2) if rng.random() < 0.4 else 0, t, deco])
        out += both({"ctxs": WITHMOD if mod else FLAT, "plans": plans, "launch": launch}, ("B", "mod") if mod else ("B",))
    return out


def family_c(rng, n):
    """directed shapes"""
    out = []
    hold = [["s", 3]]
    for km in (True, False):
        # the same decorated function dispatched twice / three times in one instant, and again while one is running
        for cnt, later in ((2, None), (3, None), (2, 1), (1, 1)):
            launch = [[0, "deco", 0, t, ["n0", km]] for t in range(cnt)]
            if later is not None:
                launch.append([later, "deco", 0, len(launch), ["n0", km]])
            out += both({"ctxs": FLAT, "plans": [list(hold) for _ in launch], "launch": launch}, ("C", "deco-burst"))
        # one function, several trigger decorators (0/1 = two @event_trigger, 2 = @state_trigger): an occurrence of
        # one trigger while a run started by another trigger is alive, every ordered pair, and all three in a row
        for a in range(3):
            for b in range(3):
                if a != b:
                    out += both({"ctxs": FLAT, "plans": [list(hold), list(hold)],
                                 "launch": [[0, "deco", 0, 0, ["n0", km, a]], [1, "deco", 0, 1, ["n0", km, b]]]},
                                ("C", "deco-multi-trigger"))
        out += both({"ctxs": FLAT, "plans": [[["s", 4]], list(hold), list(hold)],
                     "launch": [[0, "deco", 0, 0, ["n0", km, 1]], [1, "deco", 0, 1, ["n0", km, 2]],
                                [2, "deco", 0, 2, ["n0", km, 0]]]}, ("C", "deco-multi-trigger"))
        # decorated run against an owner that claimed by task.unique
        out += both({"ctxs": FLAT, "plans": [[["u", "n0", False], ["s", 3]], [["s", 1]]],
                     "launch": [[0, "trig", 0, 0, None], [1, "deco", 0, 1, ["n0", km]]]}, ("C", "deco-vs-owner"))
        # foreign callers
        out += both({"ctxs": FLAT, "plans": [[["u", "n0", False], ["s", 3]], [["s", 1], ["u", "n0", km], ["s", 1]]],
                     "launch": [[0, "trig", 0, 0, None], [0, "foreign", 0, 1, None]]}, ("C", "foreign"))
        out += both({"ctxs": FLAT, "plans": [[["u", "n0", km], ["s", 2]], [["u", "n0", False], ["s", 2]]],
                     "launch": [[0, "foreign", 0, 0, None], [1, "trig", 0, 1, None]]}, ("C", "foreign"))
    # task.unique reached through a helper imported from modules/m.py: the claim belongs to the module's context -
    # two script files meet there; the same name used directly in a script is a different key
    for km in (False, True):
        out += both({"ctxs": WITHMOD, "plans": [[["m", "n0", False], ["s", 3]], [["s", 1], ["m", "n0", km], ["s", 2]],
                                                [["s", 2], ["m", "n0", False], ["s", 2]]],
                     "launch": [[0, "trig", 0, 0, None], [0, "trig", 1, 1, None], [0, "svc", 0, 2, None]]},
                    ("C", "module"))
        out += both({"ctxs": WITHMOD, "plans": [[["u", "n0", False], ["m", "n0", False], ["s", 3]],
                                                [["s", 1], ["u", "n0", km], ["s", 2]], [["s", 1], ["m", "n0", km], ["s", 2]]],
                     "launch": [[0, "trig", 0, 0, None], [0, "trig", 0, 1, None], [0, "trig", 1, 2, None]]},
                    ("C", "module"))
        out += both({"ctxs": WITHMOD, "plans": [[["m", "n1", False], ["s", 2]], [["m", "n1", km], ["s", 2]]],
                     "launch": [[0, "deco", 0, 0, ["n1", km, 0]], [1, "deco", 1, 1, ["n0", False, 1]]]},
                    ("C", "module"))
    # same name in two contexts never interacts
    out += both({"ctxs": FLAT, "plans": [[["u", "n0", False], ["s", 3]], [["u", "n0", False], ["s", 3]],
                                         [["s", 1], ["u", "n0", True], ["s", 1]]],
                 "launch": [[0, "trig", 0, 0, None], [0, "trig", 1, 1, None], [0, "svc", 1, 2, None]]}, ("C", "two-ctx"))
    # nested context names + dotted task name
    out += both({"ctxs": NESTED, "plans": [[["u", "b.n0", False], ["s", 3]], [["s", 1], ["u", "n0", False], ["s", 2]]],
                 "launch": [[0, "trig", 0, 0, None], [0, "trig", 1, 1, None]]}, ("C", "nested"))
    out += both({"ctxs": NESTED, "plans": [[["u", "n0", False], ["s", 3]], [["s", 1], ["u", "n0", False], ["s", 2]]],
                 "launch": [[0, "trig", 0, 0, None], [0, "trig", 1, 1, None]]}, ("C", "nested"))
    for _ in range(n):
        nt = rng.randrange(2, 5)
        plans, launch = [], []
        for t in range(nt):
            ci = rng.randrange(2)
            plans.append(rand_plan(rng, ["n0", "b.n0"] if ci == 0 else ["n0", "n1"]))
            launch.append([rng.randrange(3), "trig", ci, t, None])
        out += both({"ctxs": NESTED, "plans": plans, "launch": launch}, ("C", "nested"))
    return out


BNAMES = ["", "a", "a.b", "ab", "a b", "n\u00e4me\u2713", "file.a", "modules.m"]
KM_VALUES = [0, None, "", 1, "x", True, False]


def family_d(rng):
    """boundary values (fixed set): odd names, kill_me forms, call forms, timing edges, entry points"""
    out = []
    # (1a) every boundary name claimed in three contexts at once (file.a, file.b directly, modules.m through the helper
    #      from both scripts): only the two module claims meet
    for nm in BNAMES:
        out += both({"ctxs": WITHMOD,
                     "plans": [[["u", nm, False], ["s", 3]], [["u", nm, False], ["s", 3]],
                               [["m", nm, False], ["s", 3]], [["s", 1], ["m", nm, True], ["m", nm, False], ["s", 1]]],
                     "launch": [[0, "trig", 0, 0, None], [0, "svc", 1, 1, None], [0, "create", 0, 2, None],
                                [0, "trig", 1, 3, None]]}, ("D", "names"))
    # (1b) names that are prefixes of each other are three different names
    out += both({"ctxs": FLAT, "plans": [[["u", "a", False], ["s", 2]], [["u", "a.b", False], ["u", "ab", False], ["s", 2]],
                                         [["s", 1], ["u", "a", True], ["s", 1]]],
                 "launch": [[0, "trig", 0, 0, None], [0, "trig", 0, 1, None], [0, "svc", 0, 2, None]]}, ("D", "names"))
    # (1c) kill_me forms: keyword / positional, falsy and truthy non-bools, default
    for k, v in enumerate(KM_VALUES):
        form = "u" if k % 2 == 0 else "up"
        out += both({"ctxs": FLAT, "plans": [[["u", "n0", False], ["s", 3]], [["s", 1], [form, "n0", v], ["s", 1]]],
                     "launch": [[0, "trig", 0, 0, None], [0, ["trig", "svc", "create"][k % 3], 0, 1, None]]},
                    ("D", "killme-forms"))
    out += both({"ctxs": FLAT, "plans": [[["u1", "n0", False], ["s", 3]], [["s", 1], ["u1", "n0", False], ["s", 1]]],
                 "launch": [[0, "create", 0, 0, None], [0, "create", 0, 1, None]]}, ("D", "killme-forms"))
    # (2) call forms: the owner claims again (with and without kill_me), from a nested function, from a comprehension,
    #     right before returning, as the very first and only statement
    out += both({"ctxs": FLAT, "plans": [[["u", "n0", False], ["u", "n0", False], ["u", "n0", True], ["up", "n0", 1],
                                          ["s", 2]], [["s", 1], ["un", "n0", False], ["uc", "n1", False], ["s", 1]],
                                         [["s", 1], ["uc", "n1", True]]],
                 "launch": [[0, "trig", 0, 0, None], [0, "svc", 0, 1, None], [1, "create", 0, 2, None]]}, ("D", "forms"))
    out += both({"ctxs": FLAT, "plans": [[["s", 1], ["u", "n0", False]], [["un", "n0", False]], [["u", "n0", True]]],
                 "launch": [[0, "trig", 0, 0, None], [0, "trig", 0, 1, None], [0, "foreign", 0, 2, None]]}, ("D", "forms"))
    # (3) timing: zero-length sleeps, a raise as the first statement, four runs in one burst (third and later)
    out += both({"ctxs": FLAT, "plans": [[["u", "n0", False], ["s", 0], ["u", "n1", False], ["s", 0], ["s", 1]],
                                         [["s", 0], ["u", "n0", False], ["s", 0], ["u", "n1", True], ["s", 1]], [["r"]]],
                 "launch": [[0, "trig", 0, 0, None], [0, "create", 0, 1, None], [0, "svc", 0, 2, None]]}, ("D", "timing"))
    for km in (True, False):
        out += both({"ctxs": FLAT, "plans": [[["s", 2]] for _ in range(4)] + [[["r"]]],
                     "launch": [[0, "deco", 0, t, ["n0", km, t % 3]] for t in range(4)] + [[1, "deco", 0, 4, ["n0", km, 1]]]},
                    ("D", "timing"))
    # (4) decorator names at the boundary (the second of the sorted names gets kill_me=1 / 0 instead of True / False)
    for nm in ("", "a b", "a.b"):
        for km in (True, False):
            out += both({"ctxs": FLAT, "plans": [[["s", 2]], [["s", 1]], [["u", nm, False], ["s", 1]]],
                         "launch": [[0, "deco", 0, 0, [nm, km, 0]], [1, "deco", 0, 1, [nm, km, 1]],
                                    [1, "deco", 1, 2, ["n0", km, 2]]]}, ("D", "deco-names"))
    return out


def family_e(rng, n):
    """the done-callback phase of run_coro's finally: owners whose done-callback SUSPENDS (the task is alive and owns
    its names until the callback is over), claims that ARRIVE during the callback, claims made BY a callback, kill_me
    against an owner that is inside its callback, a halted / displaced run that goes on into its callback.
    `cbs` = {launch index: plan of the done-callback the run registers on itself as its first statement}."""
    out = []
    T = lambda *l: [[x[0], x[1], 0, i, None] for i, x in enumerate(l)]      # launches (instant, kind) in file.a
    # a claim arrives while the owner is inside its suspended callback; a third claimer comes after the owner's clean-up
    for k1, k2 in (("trig", "svc"), ("create", "trig")):
        out += both({"ctxs": FLAT, "plans": [[["u", "n0", False], ["s", 1]], [["u", "n0", False], ["s", 4]],
                                             [["u", "n0", False], ["s", 1]]],
                     "cbs": {"0": [["s", 3]]}, "launch": T((0, k1), (2, k2), (4, "trig"))}, ("E", "claim-during-cb"))
    # the owner keeps a second name through the take-over of the first and through its own callback
    out += both({"ctxs": FLAT, "plans": [[["u", "n0", False], ["u", "n1", False], ["s", 1]], [["u", "n0", False], ["s", 3]],
                                         [["s", 1], ["u", "n1", True], ["s", 1]]],
                 "cbs": {"0": [["s", 3]]}, "launch": T((0, "trig"), (2, "trig"), (2, "svc"))}, ("E", "claim-during-cb"))
    # claims made BY a callback: released when the task is over; seen by a kill_me caller meanwhile; re-claim of the own name
    out += both({"ctxs": FLAT, "plans": [[["s", 1]], [["s", 2], ["u", "late", True], ["s", 1]], [["s", 4], ["u", "late", True], ["s", 1]]],
                 "cbs": {"0": [["u", "late", False], ["s", 2]]}, "launch": T((0, "trig"), (0, "svc"), (0, "trig"))},
                ("E", "claim-by-cb"))
    out += both({"ctxs": FLAT, "plans": [[["u", "n0", False], ["r"]], [["s", 2], ["u", "n1", False], ["s", 2]]],
                 "cbs": {"0": [["u", "n0", False], ["u", "n1", False], ["s", 3], ["u", "n2", False]],
                         "1": [["u", "n0", False]]},
                 "launch": T((0, "create"), (0, "trig"))}, ("E", "claim-by-cb"))
    # a callback without any suspension claims as its last statement; a callback that raises after claiming
    out += both({"ctxs": FLAT, "plans": [[["s", 1]], [["s", 1]], [["s", 3], ["u", "late", True], ["u", "x", True], ["s", 1]]],
                 "cbs": {"0": [["u", "late", False]], "1": [["u", "x", False], ["r"]]},
                 "launch": T((0, "trig"), (0, "svc"), (0, "trig"))}, ("E", "claim-by-cb"))
    # kill_me against an owner that is inside its callback: the caller is terminated, the owner finishes its callback
    out += both({"ctxs": FLAT, "plans": [[["u", "n0", False], ["s", 1]], [["u", "n0", True], ["s", 1]],
                                         [["u", "n0", True], ["s", 1]]],
                 "cbs": {"0": [["s", 3]]}, "launch": T((0, "trig"), (2, "trig"), (5, "trig"))}, ("E", "killme-vs-cb"))
    # a run halted by kill_me (and one displaced) goes on into its callback, which claims and sleeps
    out += both({"ctxs": FLAT, "plans": [[["u", "n0", False], ["s", 5]], [["u", "n0", True], ["s", 1]],
                                         [["s", 3], ["u", "n1", False], ["s", 1]]],
                 "cbs": {"1": [["u", "n1", False], ["s", 3]]}, "launch": T((0, "trig"), (1, "trig"), (0, "svc"))},
                ("E", "halted-into-cb"))
    out += both({"ctxs": FLAT, "plans": [[["u", "n0", False], ["s", 5]], [["u", "n0", False], ["s", 5]],
                                         [["s", 2], ["u", "n2", False], ["s", 2]]],
                 "cbs": {"0": [["u", "n2", False], ["s", 3]], "1": [["u", "n1", False]]},
                 "launch": T((0, "trig"), (1, "create"), (0, "trig"))}, ("E", "displaced-into-cb"))
    # decorated owners with a suspending callback, the next occurrence arrives during the callback / after it
    for km in (False, True):
        out += both({"ctxs": FLAT, "plans": [[["s", 1]], [["s", 1]], [["s", 1]]],
                     "cbs": {"0": [["s", 2]], "1": [["u", "n1", False]]},
                     "launch": [[0, "deco", 0, 0, ["n0", km, 0]], [2, "deco", 0, 1, ["n0", km, 1]],
                                [5, "deco", 0, 2, ["n0", km, 2]]]}, ("E", "deco-cb"))
    # two contexts and the module helper: a callback claims in its own file's context and through the helper
    out += both({"ctxs": WITHMOD, "plans": [[["m", "n0", False], ["s", 1]], [["s", 2], ["m", "n0", False], ["u", "n0", False], ["s", 2]]],
                 "cbs": {"0": [["u", "n0", False], ["s", 2], ["m", "n0", False], ["s", 1]]},
                 "launch": [[0, "trig", 0, 0, None], [0, "trig", 1, 1, None]]}, ("E", "module-cb"))
    # NOTE (C14-F8): all done-callbacks defined in one script file run on that file's ONE evaluator, so two callbacks
    # that are suspended at the same time see each other's local variables.  That is C14's subject; here at most one
    # run per scenario gets a callback that sleeps, every other callback runs without suspending.
    for _ in range(n):
        nt = rng.randrange(2, 5)
        names = NAMES[: rng.randrange(1, 3)]
        plans, launch, cbs = [], [], {}
        sleeper = rng.randrange(nt)
        for t in range(nt):
            plans.append(rand_plan(rng, names))
            kind = rng.choice(["trig", "trig", "svc", "create", "deco"])
            deco = [rng.choice(names), rng.random() < 0.5, rng.randrange(3)] if kind == "deco" else None
            launch.append([rng.randrange(4), kind, 0, t, deco])
            if t == sleeper or rng.random() < 0.5:
                cb = [pl for pl in rand_plan(rng, names) if pl[0] not in ("r", "s")][:3]
                if t == sleeper:
                    cb.insert(rng.randrange(len(cb) + 1), ["s", rng.randrange(1, 4)])
                    if rng.random() < 0.4:
                        cb.append(["s", 1])
                cbs[str(t)] = cb
        out += both({"ctxs": FLAT, "plans": plans, "launch": launch, "cbs": cbs}, ("E", "random-cb"))
    return out


def gen_cases(rng, tier, search):
    na, nb, nc, ne = (110, 140, 8, 14) if tier == "quick" else (2500, 2500, 120, 600)
    if search:
        na, nb, nc, ne = na * 2, nb * 2, nc * 2, ne * 2
    return family_e(rng, ne) + family_d(rng) + family_c(rng, nc) + family_a(rng, na) + family_b(rng, nb)


# ------------------------------------------------------------------ module API
def _key(p):
    return json.dumps(p, sort_keys=True)


def run_impl(cases):
    res = common.pmap(run_one, [c.payload for c in cases])
    for c, r in zip(cases, res):
        c.impl = r["impl"]
        c.line = r["line"]
        _SIDE[_key(c.payload)] = r


def split(outline):
    if " ## " in outline:
        m, s = outline.split(" ## ", 1)
        return m, s
    return outline, None


def _views(s):
    """the name2id part of every snapshot token of a column"""
    out = []
    for tok in (s or "").split("[")[1:]:
        out.append(tok.split(" | ")[0])
    return out


def verdict(c):
    r = _SIDE.get(_key(c.payload))
    if r is None:
        return None
    if r["line"] is None:
        return "harness " + c.impl
    reason = oracle(c.payload, r["log"])
    if reason:
        return reason
    if c.spec is not None and _views(c.impl) != _views(c.spec):
        return "name2id-differs-from-spec"
    return None


def classify(c, reason):
    p = c.payload
    kind = reason.split(" ")[0]
    pairs = {(p["ctxs"][l[2]] if st[0] != "m" else MOD, st[1]) for l, pl in zip(p["launch"], p["plans"])
             for st in pl if st[0] in UKINDS + ("m",)}
    pairs |= {(p["ctxs"][l[2]], l[4][0]) for l in p["launch"] if l[1] == "deco"}
    if len({f"{c}.{n}" for c, n in pairs}) < len(pairs) and not kind.startswith("deco-"):
        # two different (context, name) pairs of this scenario are one key string: whatever the oracle saw first
        # (alien name, unexpected cancellation, parked caller) is that collision
        kind = "colliding-keys"
    # function.py is shared by both subsystems; only the decorator path differs between them
    sub = ("legacy" if p["legacy"] else "new") if kind.startswith("deco-") else "both"
    return f"{sub}:{'nested-ctx' if p['ctxs'] == NESTED else 'flat-ctx'}:{kind}"


def replay_cases(obj):
    return [mk(obj["case"], ("replay",))]


def _sig(p):
    r = run_one(p)
    if r["line"] is None:
        return None
    reason = oracle(p, r["log"])
    return classify(types.SimpleNamespace(payload=p), reason) if reason else None


def shrink(c, reason):
    """greedy: drop launches, then steps, while the same signature is reproduced"""
    sig = classify(c, reason)
    p = json.loads(json.dumps(c.payload))
    changed = True
    budget = 60
    while changed and budget > 0:
        changed = False
        for i in range(len(p["launch"])):
            if len(p["launch"]) <= 1:
                break
            q = json.loads(json.dumps(p))
            del q["launch"][i]
            del q["plans"][i]
            if q.get("cbs"):
                q["cbs"] = {str(int(k) - (int(k) > i)): v for k, v in q["cbs"].items() if int(k) != i}
            for t, l in enumerate(q["launch"]):
                l[3] = t
            budget -= 1
            if _sig(q) == sig:
                p, changed = q, True
                break
        if changed:
            continue
        for i, pl in enumerate(p["plans"]):
            for j in range(len(pl)):
                q = json.loads(json.dumps(p))
                del q["plans"][i][j]
                budget -= 1
                if budget > 0 and _sig(q) == sig:
                    p, changed = q, True
                    break
            if changed:
                break
    c2 = mk(p, c.tags)
    run_impl([c2])
    outs = common.drive([c2.line]) if c2.line else [None]
    if outs[0]:
        c2.model, c2.spec = split(outs[0])
    return c2


def extra_coverage(cases):
    kinds, steps, toks = {}, {}, {}
    for c in cases:
        for l in c.payload["launch"]:
            kinds[l[1]] = kinds.get(l[1], 0) + 1
        for pl in c.payload["plans"]:
            for st in pl:
                k = st[0] + (":km" if st[0] in UKINDS + ("m",) and len(st) > 2 and st[2] else "")
                steps[k] = steps.get(k, 0) + 1
        for t in (c.impl or "").split():
            if ":" in t and t[0] in "urxdc" and len(t) < 8:
                toks[t] = toks.get(t, 0) + 1
    cbk = {"runs_with_done_callback": sum(len(c.payload.get("cbs") or {}) for c in cases),
           "callbacks_that_sleep": sum(1 for c in cases for pl in (c.payload.get("cbs") or {}).values()
                                       if any(st[0] == "s" and st[1] > 0 for st in pl)),
           "callbacks_that_claim": sum(1 for c in cases for pl in (c.payload.get("cbs") or {}).values()
                                       if any(st[0] in UKINDS + ("m",) for st in pl))}
    return {"launch_kinds": kinds, "plan_steps": steps, "observed_step_outcomes": toks, "done_callbacks": cbk,
            "tasks_per_case": {str(k): sum(1 for c in cases if len(c.payload["launch"]) == k) for k in range(1, 6)}}
