"""C05 correspondence + property oracle: state_check_now / state_hold / state_hold_false timing on a virtual clock.

A case = (api, subsystem, configuration, initial truth, timed history):
  api          "dec" = @state_trigger decorator, "wu" = task.wait_until(state_trigger=…)
  subsystem    legacy_decorators True / False
  state_check_now in {unset, False, True};  state_hold, state_hold_false in {None, 0, 2.5, 4.5} seconds
  history      <= 8 events on the integer-second grid (so no event coincides with a hold deadline): T / F = the watched
               entity changes to a new value on which the expression is true / false, A = attribute-only update of the
               watched entity (delivered to the trigger loop but causes no evaluation), U = change of an unwatched entity.
Observed: virtual time stamp (ms since the trigger started) and the event whose kwargs every run received / the time and
return value of task.wait_until.

Columns: impl (real Home Assistant instance, virtual clock), model (Lean loop-variable machines), spec (Lean timeline)
and an independent Python rendering of the documented timeline (the verdict uses the latter; Lean spec == Python
timeline is part of the tie).
"""
import itertools
import json
import logging

import common
from common import Case, sx, parse_sx

PROP = "C05"
RULE = ("all 3 x 4 x 4 combinations of state_check_now in {unset, False, True} x state_hold, state_hold_false in {None, 0, "
        "2.5 s, 4.5 s} x initial truth x histories of <= 8 events at integer seconds mixing true/false evaluations, "
        "attribute-only updates (attribute set, REMOVED, set again) and unrelated changes, for decorators and "
        "task.wait_until (overall timeout in {none, 0, 0.0, 2^-10 s, 1.25, 3.75, 6.25 s, = state_hold_false} - also inside a "
        "running state_hold, never tying with a hold deadline), under both subsystems; a boundary product of the "
        "numeric options over {None, 0, 0.0, 2^-10 s, 2.5 s} (int vs float zero, very small, equal pairs; unset options "
        "also spelled out as None); trigger expressions whose RESULT is bool / int (numeric strings with spaces, signs, "
        "leading zeros) / str ('' vs 'x') / None vs 3 / [] vs [1] / membership in ('', 'None', 'unknown', 'unavailable'); "
        "entity names with underscores and digits in several domains; triggers made ONLY of any-change names "
        "(e / e.a / e.*) with state_check_now unset, False and explicitly True; every start-up relevant combination of "
        "(state_check_now, state_hold, state_hold_false, initial truth) together with a @time_trigger on the SAME function "
        "('startup' / bare / a far once() / both, above or below the @state_trigger); the closed witnesses of Props/C05; "
        "thorough: additionally every history of length <= 4 over {T, F, A, U} at 1 s spacing.  Non-trivial = at "
        "least one evaluation / match (initial check or event); distinct by payload.")
ASSUMPTIONS = [
    "time.monotonic / loop.time / dt_now are the virtual clock; timers fire exactly at their deadline (1 ms grid)",
    "event times are integer seconds, holds are 0 / 2.5 / 4.5 s: no event coincides with a hold deadline (NoTies); the "
    "behaviour at exact ties (and the <= 1e-6 slack in _cycle) is outside the model",
    "an attribute-only update of a value-watched entity is delivered to the loop without evaluation, a change of an "
    "unwatched entity is not delivered (proved in C04: C04_attr_only_no_eval, C04_unwatched_untouched)",
    "a trigger has either an expression on the value of one entity or only any-change names (mixed forms are not "
    "generated: with an expression AND any-change names the subsystems treat state_hold_false differently for "
    "any-change matches); timeouts never coincide with an event or a hold deadline",
    "a run's kwargs / the dict returned by task.wait_until identify their event through the context id",
]
TRUSTED = ["harness/run_C05.py (history -> HA operations on the virtual clock, canonicalisation, Python timeline)",
           "harness/vclock.py, harness/ha_env.py"]

HOLDS = [None, 0, 2.5, 4.5]
SMALL = 2 ** -10           # a very small positive duration (binary-exact, < 1 ms; 0.001 is not exact in binary and makes
#                            the new subsystem's `_cycle` spin on a frozen virtual clock - see the report, not a finding)
BHOLDS = [None, 0, 0.0, SMALL, 2.5]      # boundary sweep: int 0, float 0.0, very small, and equal pairs (product)
CHECK = [None, False, True]
ENTITIES = ["pyscript.x", "pyscript.x_1", "sensor.t_2x", "input_number.a1_b2"]

# expression families: what the trigger expression RETURNS for a true / false evaluation (pyscript tests it for truth)
#   fam: (expression template on the entity {e}, values that make it truthy, values that make it falsy)
FAMILIES = {
    "bool": ("{e}[0] == 't'", ["t0", "t1", "t2", "t3", "t4", "t5", "t6", "t7", "t8"],
             ["f0", "f1", "f2", "f3", "f4", "f5", "f6", "f7", "f8"]),
    # int result: 0 / non-zero, numeric strings with spaces, signs and leading zeros
    "int": ("int({e})", ["1", " 2", "3 ", "+4", "-5", "10", " 07 "], ["0", "00", " 0", "0 ", "-0", "+0", " 000 "]),
    # str result: '' / 'x'
    "str": ("{e}[1:]", ["ab", "xy", "v1", "v2", "q0", "zz9"], ["a", "b", "c", "d", "e", "g"]),
    # None / 3
    "none": ("(3 if {e}[0] == 't' else None)", ["t0", "t1", "t2", "t3", "t4", "t5"], ["f0", "f1", "f2", "f3", "f4", "f5"]),
    # [] / [1]
    "list": ("([1] if {e}[0] == 't' else [])", ["t0", "t1", "t2", "t3", "t4", "t5"], ["f0", "f1", "f2", "f3", "f4", "f5"]),
    # special state values on the falsy side: '', 'None', 'unknown', 'unavailable'
    "special": ("{e} not in ('', 'None', 'unknown', 'unavailable')", ["on", "x", " 3 ", "0", "none", "Unknown"],
                ["", "None", "unknown", "unavailable"]),
}


# ------------------------------------------------------------------ generation
def rnd_hist(rng, maxlen=8):
    n = rng.randrange(0, maxlen + 1)
    t = 0
    out = []
    for _ in range(n):
        t += rng.choice([1, 1, 1, 2, 2, 3, 4, 5, 6])
        out.append([t, rng.choice("TTTFFFAAU")])
    return out


# the closed witnesses of Props/C05 (replayed on the real code on every run):
# (api, legacy, check_now, S, H, b0, hist, names, timeout)
# all of them are regression cases of FIXED findings (C05-F1..F5) or directed cases and must be clean under both subsystems
WITNESSES = [
    ("dec", False, None, 5, None, False, [[1, "T"], [3, "A"]], None, None),   # C05_new_regress_attr_update_cancels_hold (#13)
    ("dec", False, None, 5, None, False, [[1, "T"], [3, "T"]], None, None),   # C05_new_regress_latest_args (#14)
    ("dec", False, None, None, 2, True, [[1, "A"], [5, "T"]], None, None),    # C05_new_regress_skip_starts_false_period
    ("dec", False, True, None, 2, True, [], None, None),                      # C05_new_regress_checknow_holdfalse_no_start
    ("wu", False, None, 5, 10, True, [[1, "F"], [2, "T"]], None, None),       # C05_new_waituntil_regress_holdfalse_disabled
    ("wu", True, None, None, 0, False, [[2, "T"], [4, "F"], [6, "T"]], None, None),   # C05_waituntil_regress_init_false
    # C05_waituntil_timeout: the overall timeout falls inside a running hold (started by the initial check / by a change)
    ("wu", True, None, 2.5, None, True, [], None, 1.25),
    ("wu", True, None, 4.5, None, False, [[1, "T"]], None, 3.75),
    ("wu", True, None, 2.5, None, False, [[1, "T"]], None, 3.75),             # the hold elapses first (3.5 s)
    ("wu", True, None, 2.5, None, False, [[1, "T"], [2, "F"]], None, 6.25),   # hold cancelled, then the timeout
    # C05_names_only_no_start: explicit state_check_now=True on triggers made of any-change names only
    ("dec", False, True, None, None, True, [], "val", None),
    ("dec", False, True, 2.5, None, True, [[4, "A"]], "star", None),
    ("wu", False, True, None, None, True, [], "val", 1.25),
    ("wu", False, True, None, None, True, [[2, "A"]], "attr", 3.75),
]
# C05_startup_check_once: the start-up state check happens although the same function also runs at "startup"
# (api, check_now, S, H, b0, hist, tt, tt_above)
TT_WITNESSES = [
    ("dec", True, None, None, True, [], "startup", True),                  # run at definition time AND the startup run
    ("dec", None, None, 2.5, False, [[3, "T"]], "startup", False),         # false recorded at start-up, true 3 s >= H later
    ("dec", True, 2.5, 0, True, [[1, "F"], [2, "T"]], "bare", True),
    ("dec", True, None, 2.5, False, [[1, "T"], [4, "F"], [7, "T"]], "startup+far", False),
    ("dec", None, 2.5, None, False, [[1, "T"]], "far", True),
]
TIMEOUTS = [None, None, 1.25, 3.75, 6.25]
# a @time_trigger on the SAME function as the @state_trigger (legacy: both live in one TrigInfo / one trigger_watch loop whose
# head has two one-shot branches - run_on_startup, then check_state_expr_on_start - taken in consecutive iterations)
#   startup = @time_trigger("startup"), bare = @time_trigger (same meaning), far = a once() years ahead (never fires, but
#   the loop takes the time-out selection path), startup+far = both
TTS = ["startup", "bare", "far", "startup+far"]
TT_SRC = {"startup": '@time_trigger("startup")', "bare": "@time_trigger", "far": '@time_trigger("once(2031-01-01 00:00:00)")',
          "startup+far": '@time_trigger("startup", "once(2031-01-01 00:00:00)")'}


def tt_startup(tt):
    return tt in ("startup", "bare", "startup+far")
NAMEFORMS = {"val": "{e}", "attr": "{e}.a", "star": "{e}.*"}


def pick_timeout(rng, s, h, cn, api, b0):
    """overall timeout of task.wait_until: typical values, a very small one, one EQUAL to state_hold_false, and 0 / 0.0 -
    never one that ties with a hold deadline (k + S) or with the initial candidate"""
    opts = list(TIMEOUTS) + [SMALL]
    if h in (2.5, 4.5) and s not in (2.5, 4.5):
        opts += [h, h]                                   # timeout == state_hold_false
    if not (eff_check(api, cn) and b0):
        opts += [0, 0.0]                                 # nothing else can happen at time 0
    if s == SMALL:
        opts = [o for o in opts if o != SMALL]
    return rng.choice(opts)


def gen_cases(rng, tier, search):
    per = 3 if tier == "quick" else 20
    if search:
        per = 8 if tier == "quick" else 30
    cases = []
    fams = sorted(FAMILIES)
    for api, legacy, cn, s, h, b0, hist, names, tmo in WITNESSES:
        for lg in (True, False):
            cases.append(make_case(api, lg, cn, s, h, b0, hist, names, tmo))
    for api, cn, s, h, b0, hist, tt, above in TT_WITNESSES:
        for lg in (True, False):
            cases.append(make_case(api, lg, cn, s, h, b0, hist, tt=tt, tt_above=above))
    # start-up options x a @time_trigger on the same function: every (check_now, hold, hold_false, b0) with start-up
    # relevance gets two of the four time-trigger shapes, decorator order random
    for cn, s, h in itertools.product(CHECK, [None, 2.5], [None, 0, 2.5]):
        for b0 in (False, True):
            for tt in rng.sample(TTS, 2 if tier == "quick" and not search else 4):
                hist = rnd_hist(rng, 5)
                extra = {"fam": rng.choice(fams), "ent": rng.choice(ENTITIES), "tt": tt, "tt_above": rng.random() < 0.5}
                for legacy in (True, False):
                    cases.append(make_case("dec", legacy, cn, s, h, b0, hist, **extra))
    for cn, s, h in itertools.product(CHECK, HOLDS, HOLDS):
        for b0 in (False, True):
            for _ in range(per):
                hist = rnd_hist(rng)
                extra = {"fam": rng.choice(fams), "ent": rng.choice(ENTITIES), "xnone": rng.random() < 0.3}
                tmo = pick_timeout(rng, s, h, cn, "wu", b0)
                ttx = {"tt": rng.choice(TTS), "tt_above": rng.random() < 0.5} if rng.random() < 0.12 else {}
                for legacy in (True, False):
                    cases.append(make_case("dec", legacy, cn, s, h, b0, hist, **extra, **ttx))
                    cases.append(make_case("wu", legacy, cn, s, h, b0, hist, None, tmo, **extra))
    # boundary sweep of the numeric options: 0 vs 0.0 vs a very small value vs None, and equal pairs
    for cn, s, h in itertools.product(CHECK, BHOLDS, BHOLDS):
        if repr(s) in map(repr, HOLDS) and repr(h) in map(repr, HOLDS) and not search:   # repr: 0.0 is not 0 here
            continue                                       # already in the main product
        b0 = rng.random() < 0.5
        hist = rnd_hist(rng, 6)
        extra = {"fam": rng.choice(fams), "ent": rng.choice(ENTITIES), "xnone": rng.random() < 0.3}
        tmo = pick_timeout(rng, s, h, cn, "wu", b0)
        for legacy in (True, False):
            cases.append(make_case("dec", legacy, cn, s, h, b0, hist, **extra))
            cases.append(make_case("wu", legacy, cn, s, h, b0, hist, None, tmo, **extra))
    # triggers made only of any-change names (no expression), state_check_now unset / False / explicitly True
    for cn, s, form in itertools.product(CHECK, HOLDS, sorted(NAMEFORMS)):
        for _ in range(1 if tier == "quick" and not search else 4):
            h = rng.choice([None, None, 2.5])
            hist = rnd_hist(rng, 5)
            b0 = rng.random() < 0.5
            extra = {"ent": rng.choice(ENTITIES), "xnone": rng.random() < 0.3}
            tmo = pick_timeout(rng, s, None, False, "dec", False)
            for legacy in (True, False):
                cases.append(make_case("dec", legacy, cn, s, h, b0, hist, form, **extra))
                cases.append(make_case("wu", legacy, cn, s, h, b0, hist, form, tmo, **extra))
    if tier == "thorough" and not search:
        for n in range(0, 5):
            for kinds in itertools.product("TFAU", repeat=n):
                hist = [[i + 1, k] for i, k in enumerate(kinds)]
                cn, s, h = rng.choice(CHECK), rng.choice(BHOLDS + [4.5]), rng.choice(BHOLDS + [4.5])
                b0 = rng.random() < 0.5
                extra = {"fam": rng.choice(fams), "ent": rng.choice(ENTITIES), "xnone": rng.random() < 0.3}
                tmo = pick_timeout(rng, s, h, cn, "wu", b0)
                for legacy in (True, False):
                    cases.append(make_case("dec", legacy, cn, s, h, b0, hist, **extra))
                    cases.append(make_case("wu", legacy, cn, s, h, b0, hist, None, tmo, **extra))
    return cases


def eff_check(api, cn):
    return bool(cn) if cn is not None else (api == "wu")


def ms(x):
    return None if x is None else int(round(x * 1000))


KIND = {
    None: {"T": "T", "F": "F", "A": "S", "U": "U"},     # expression on the value of pyscript.x
    "val": {"T": "T", "F": "T", "A": "S", "U": "U"},    # "pyscript.x": every value change matches, attribute-only does not
    "attr": {"T": "S", "F": "S", "A": "T", "U": "U"},   # "pyscript.x.a": only a change of attribute a matches
    "star": {"T": "S", "F": "S", "A": "T", "U": "U"},   # "pyscript.x.*": only attribute changes match
}


def kinds_of(names, hist):
    """history letters -> model event kinds (T/F evaluation results - for a names-only trigger a match is a true
    evaluation -, S = delivered without evaluation, U = not delivered)"""
    return [[t * 1000, KIND[names][k], i + 1] for i, (t, k) in enumerate(hist)]


def make_case(api, legacy, cn, s, h, b0, hist, names=None, timeout=None, fam="bool", ent="pyscript.x", xnone=False,
              tt=None, tt_above=False):
    if api == "dec":
        timeout = None
    else:
        tt = None
    if names:
        fam = "bool"
    line = "C05 " + sx([api + ("n" if names else ""), "legacy" if legacy else "new", eff_check(api, cn),
                        "none" if s is None else ms(s), "none" if h is None else ms(h), b0, kinds_of(names, hist),
                        "none" if timeout is None else ms(timeout), tt_startup(tt)])
    tags = [api, "legacy" if legacy else "new", f"check_now={cn}", f"hold={s!r}", f"hold_false={h!r}", f"b0={b0}",
            f"names={names}", f"timeout={timeout!r}", f"fam={fam}", f"ent={ent}"]
    if xnone:
        tags.append("bv:options-explicit-None")
    if tt:
        tags.append(f"time_trigger={tt}")
        tags.append("time_trigger:" + ("above" if tt_above else "below"))
        if tt_startup(tt) and (eff_check(api, cn) or h is not None):
            tags.append("startup-run+startup-state-check")
    if s is not None and s == h:
        tags.append("bv:hold==hold_false")
    if timeout is not None and timeout == h:
        tags.append("bv:timeout==hold_false")
    if sum(1 for _, k in hist if k == "A") >= 2:
        tags.append("bv:attribute-removed")
    for _, k in hist:
        tags.append("ev:" + k)
    return Case({"api": api, "legacy": legacy, "check_now": cn, "hold": s, "hold_false": h, "b0": b0, "hist": hist,
                 "names": names, "timeout": timeout, "fam": fam, "ent": ent, "xnone": xnone, "tt": tt,
                 "tt_above": bool(tt_above)}, line, tags=tags)


# ------------------------------------------------------------------ the real code
def kw_src(p):
    parts = []
    if p["check_now"] is not None:
        parts.append(f"state_check_now={p['check_now']}")
    if p["hold"] is not None or p.get("xnone"):          # xnone: spell the unset numeric options out as None
        parts.append(f"state_hold={p['hold']!r}")
    if p["hold_false"] is not None or p.get("xnone"):
        parts.append(f"state_hold_false={p['hold_false']!r}")
    return "".join(", " + x for x in parts)


def trig_src(p):
    ent = p.get("ent", "pyscript.x")
    if p.get("names"):
        return NAMEFORMS[p["names"]].format(e=ent)
    return FAMILIES[p.get("fam", "bool")][0].format(e=ent)


def script_src(p):
    trig = trig_src(p)
    if p["api"] == "dec":
        st = f'@state_trigger("{trig}"{kw_src(p)})\n'
        if p.get("tt"):
            st = (TT_SRC[p["tt"]] + "\n" + st) if p.get("tt_above") else (st + TT_SRC[p["tt"]] + "\n")
        return (st +
                "def f(**kw):\n"
                "    c = kw.get('context')\n"
                "    rec('run', c.id if c is not None else None, kw.get('trigger_type'))\n")
    tmo = f", timeout={p['timeout']!r}" if p.get("timeout") is not None else (", timeout=None" if p.get("xnone") else "")
    return ("@service\n"
            "def waiter():\n"
            f'    r = task.wait_until(state_trigger="{trig}"{kw_src(p)}{tmo})\n'
            "    c = r.get('context')\n"
            "    rec('run', c.id if c is not None else None, r.get('trigger_type'))\n")


def run_one(p):
    from ha_env import run_ha
    from homeassistant.core import Context
    src = script_src(p)

    async def body(env):
        ent = p.get("ent", "pyscript.x")
        _, tvals, fvals = FAMILIES[p.get("fam", "bool")]
        nxt = {"T": 1, "F": 1}                       # index 0 is the initial value
        cur = tvals[0] if p["b0"] else fvals[0]
        env.hass.states.async_set(ent, cur, {})
        env.hass.states.async_set("pyscript.y", "0", {})
        await env.settle(0)
        env.write("t.py", src)
        await env.reload()
        t0 = env.now()
        if p["api"] == "wu":
            await env.call("pyscript", "waiter", blocking=False)
            await env.settle(0.001)
        attr = 0
        attrs = {}
        for i, (t, k) in enumerate(p["hist"]):
            await env.settle_until(t0 + t)
            ctx = Context(id=f"c{i + 1}")
            if k in "TF":
                vals = tvals if k == "T" else fvals
                v = vals[nxt[k] % len(vals)]
                if v == cur:                          # a change needs a different value
                    nxt[k] += 1
                    v = vals[nxt[k] % len(vals)]
                nxt[k] += 1
                cur = v
                env.hass.states.async_set(ent, cur, dict(attrs), context=ctx)
            elif k == "A":
                attr += 1
                # attribute a is set, then REMOVED again (empty attribute dict), then set to the next value, …
                attrs = {} if attrs else {"a": str(attr)}
                env.hass.states.async_set(ent, cur, dict(attrs), context=ctx)
            else:
                env.hass.states.async_set("pyscript.y", str(i + 1), {}, context=ctx)
            await env.settle(0)
        last = p["hist"][-1][0] if p["hist"] else 0
        await env.settle_until(t0 + last + 12)
        out, timed = [], []
        for r in env.records:
            if r[1] != "run":
                continue
            v = r[2]
            a = 0 if v is None else (int(v[1:]) if isinstance(v, str) and v[:1] == "c" and v[1:].isdigit() else -1)
            if r[3] == "timeout":
                a = "timeout"
            elif r[3] == "time" and p.get("tt"):
                # runs of the @time_trigger on the same function: listed after the state runs (their order relative to
                # a state run at the same instant differs between the subsystems and is not part of the property)
                timed.append([int(round((r[0] - t0) * 1000)), "time"])
                continue
            elif r[3] != "state":
                a = -2
            out.append([int(round((r[0] - t0) * 1000)), a])
        return out + sorted(timed)

    try:
        return {"runs": run_ha({}, p["legacy"], body)}
    except Exception as e:  # a harness-level crash of this case
        return {"crash": f"{type(e).__name__}: {e}"[:200]}


_WARM = []


def warm():
    if _WARM:
        return
    import gc
    import ha_env  # noqa: F401
    from pytest_homeassistant_custom_component.common import async_test_home_assistant  # noqa: F401
    from homeassistant.setup import async_setup_component  # noqa: F401
    import custom_components.pyscript  # noqa: F401
    import custom_components.pyscript.decorators  # noqa: F401
    gc.collect()
    gc.freeze()
    _WARM.append(1)


def run_impl(cases):
    logging.disable(logging.CRITICAL)
    warm()
    outs = common.pmap(run_one, [c.payload for c in cases], workers=8)
    for c, o in zip(cases, outs):
        p = c.payload
        orc = timeline(p)
        c.payload["_impl"] = o
        c.payload["_oracle"] = orc
        c.impl = json.dumps({"obs": o.get("runs", o), "oracle": orc})
        c.nontrivial = bool(eff_check(p["api"], p["check_now"]) or p["hold_false"] is not None
                            or any(KIND[p.get("names")][k] == "T" or k == "F" for _, k in p["hist"]))


# ------------------------------------------------------------------ the documented timeline, in Python
def timeline(p):
    """the runs the documentation promises: [[time_ms, event index], …] (for wait_until only the first)"""
    api = p["api"]
    cn = eff_check(api, p["check_now"])
    S, H, b0 = ms(p["hold"]), ms(p["hold_false"]), p["b0"]
    names = p.get("names")
    if names:
        # docs: "entries that are plain state variable names (any change) are ignored during the initial check - only
        # expressions are checked"; "the expression is always True whenever the state variable changes"
        cn, H = False, None
    T = ms(p.get("timeout"))
    runs = []
    pending = None          # [start, args]
    false_since = None
    checked = cn or H is not None

    def candidate(t, a):
        nonlocal pending
        if S is None:
            runs.append([t, a])
        elif pending is None:
            pending = [t, a]

    if checked and H is not None and not b0:
        false_since = 0
    if cn and b0:
        candidate(0, 0)
    for i, (t, k) in enumerate(p["hist"]):
        t, a = t * 1000, i + 1
        if pending is not None and pending[0] + S <= t:
            runs.append([pending[0] + S, pending[1]])
            pending = None
        if names:
            k = {"T": "T", "S": "A", "U": "U"}[KIND[names][k]]
        if k not in "TF":
            continue
        if k == "T":
            if H is None:
                candidate(t, a)
            elif false_since is not None:
                ok = t - false_since >= H
                false_since = None
                if ok:
                    candidate(t, a)
        else:
            pending = None
            if H is not None and false_since is None:
                false_since = t
    if pending is not None:
        runs.append([pending[0] + S, pending[1]])
    if api != "wu":
        # a "startup" @time_trigger on the same function runs it once at definition time, independently of the state trigger
        return runs + ([[0, "time"]] if tt_startup(p.get("tt")) else [])
    if T is not None and (not runs or runs[0][0] >= T):
        return [[T, "timeout"]]         # nothing triggered before the overall timeout
    return runs[:1]


# ------------------------------------------------------------------ columns, verdict
def split(outline):
    if not outline.startswith("ok "):
        return outline, json.dumps({"err": outline})
    p = parse_sx("(" + outline[3:] + ")")

    def runs(x):
        return [[int(r[0]), r[1] if r[1] in ("timeout", "time") else int(r[1])] for r in x[1]]
    return json.dumps({"m": runs(p[0]), "s": runs(p[1])}), json.dumps({"spec": runs(p[1]), "noties": p[2][1]})


def _finish_model(c):
    try:
        ms_ = json.loads(c.model)
    except (TypeError, ValueError):
        return
    if "m" not in ms_:
        return
    c.model = json.dumps({"obs": ms_["m"], "oracle": ms_["s"]})


_orig_execute = common._execute


def _execute(mod, cases, br):
    _orig_execute(mod, cases, br)
    if mod.PROP == PROP:
        for c in cases:
            _finish_model(c)


common._execute = _execute


def verdict(c):
    p = c.payload
    obs, orc = p["_impl"], p["_oracle"]
    sub = "legacy" if p["legacy"] else "new"
    if "crash" in obs:
        return f"unexplained | {p['api']}:{sub}: harness-crash {obs['crash']}"
    try:
        nt = json.loads(c.spec).get("noties") if c.spec else "1"
    except (TypeError, ValueError):
        nt = "1"
    if nt == "0":
        return f"unexplained | {p['api']}:{sub}: generated history violates NoTies"
    if obs["runs"] == orc:
        return None
    # no open finding is left for C05: every deviation from the documented timeline is a violation
    return f"unexplained | {p['api']}:{sub}: observed {obs['runs']} documented {orc}"


def classify(c, reason):
    cat = reason.split(" | ")[0]
    if cat == "unexplained":
        p = c.payload
        shape = "check_now" if eff_check(p["api"], p["check_now"]) else "no_check"
        shape += ",hold" if p["hold"] is not None else ""
        shape += ",hold_false" if p["hold_false"] is not None else ""
        shape += ",names-only" if p.get("names") else ""
        shape += ",timeout" if p.get("timeout") is not None else ""
        shape += ",time_trigger" if p.get("tt") else ""
        return f"unexplained:{p['api']}:{'legacy' if p['legacy'] else 'new'}:{shape}"
    return cat


def replay_cases(obj):
    p = obj["case"]
    return [make_case(p["api"], p["legacy"], p["check_now"], p["hold"], p["hold_false"], p["b0"], p["hist"],
                      p.get("names"), p.get("timeout"), p.get("fam", "bool"), p.get("ent", "pyscript.x"),
                      p.get("xnone", False), p.get("tt"), p.get("tt_above", False))]


def shrink(c, reason):
    """drop events while the same signature is reported"""
    sig = classify(c, reason)
    p = {k: v for k, v in c.payload.items() if not k.startswith("_")}
    best = c
    changed = True
    budget = 40
    while changed and budget > 0:
        changed = False
        for i in range(len(p["hist"])):
            budget -= 1
            q = dict(p)
            q["hist"] = p["hist"][:i] + p["hist"][i + 1:]
            c2 = make_case(q["api"], q["legacy"], q["check_now"], q["hold"], q["hold_false"], q["b0"], q["hist"],
                           q.get("names"), q.get("timeout"), q.get("fam", "bool"), q.get("ent", "pyscript.x"),
                           q.get("xnone", False), q.get("tt"), q.get("tt_above", False))
            try:
                run_impl([c2])
                c2.model, c2.spec = split(common.drive([c2.line])[0])
                _finish_model(c2)
            except Exception:  # pylint: disable=broad-except
                continue
            r = verdict(c2)
            if r and classify(c2, r) == sig:
                p, best, changed = q, c2, True
                break
    return best


def extra_coverage(cases):
    runs = sum(len(c.payload.get("_oracle", [])) for c in cases)
    cfgs = {(c.payload["api"], c.payload["legacy"], c.payload["check_now"], c.payload["hold"], c.payload["hold_false"],
             c.payload["b0"]) for c in cases}
    return {"configurations_covered": len(cfgs), "documented_runs_total": runs,
            "events_total": sum(len(c.payload["hist"]) for c in cases),
            "oracle": "independent Python rendering of the documented timeline; Lean Spec.holdRuns compared with it on "
                      "every case"}
