"""C12 correspondence + property oracle: @service life-cycle (both subsystems) and the call paths, on a real Home Assistant.

kind "life": an operation sequence over 1-3 script files (= global contexts): load a file (file-level definitions),
unload it, define / redefine / delete @service functions at run time (inside event-triggered driver functions),
interleaved with service calls carrying generated data.  After every settled step the harness records, for every
service name of the case: hass.services.has_service, Function.service_cnt / service2global_ctx, which definition's
handler Home Assistant holds and with which supports_response; for a call: which generation recorded it, its keyword
arguments and the returned response.  Function.service_register / service_remove are wrapped to log the order of the
registrations (the start order of the new subsystem's decorator managers is an input of the model) and the count at
every remove.
kind "out": one outgoing call (service.call / domain.service() / domain.entity.service()) with a generated keyword set to
a native probe service; observed: the service data delivered, the arguments given to hass.services.async_call, the result.
"""
import gc
import json
import re

import common
from common import Case, sx, parse_sx

PROP = "C12"
RULE = ("life: calls are made through hass.services.async_call or by a script (service.call in an event-triggered "
        "function); the called function answers with its default dict, an EMPTY dict or a dict of falsy values as the data "
        "says; a context may declare (alone) a name another context owns - refused - and then delete / redefine / reload "
        "that declaration; sequences of 5-14 steps drawn from overlapping calls (2-3 concurrent calls of one service with different data, "
        "the function suspends in task.sleep between receiving and using its arguments; same duration or first-started-"
        "finishes-first) and from load(file with 1-3 @service functions, 1-2 names each, supports_response "
        "none|optional|only) / unload / run-time define|redefine|delete inside driver functions / call(data, "
        "return_response) over contexts a,b,c, services pyscript.s1, pyscript.s2, test.s3, pyscript.s_1x, my_dom.do_it2 (1-3 per "
        "function), variables f,g,h; a function has one of five parameter lists (**kw | x=None,*,y=0,**kw | x,y=2,**kw | six named "
        "parameters and no **kw | *args,**kw), one of three doc-string forms (plain | yaml description without fields | yaml "
        "comment only) and, with p=0.2, an @event_trigger beside its @service decorators; call data is drawn from 13 dicts "
        "incl. keys that are parameters, keys that no parameter takes, the colliding keys trigger_type / context, an "
        "explicit None, and ret=none|list (the function answers None / a list); the bulk avoids "
        "the three open hazard situations (four more were repaired and are ordinary cases now), dedicated scenario families inject exactly one of them each; every case is "
        "run under one subsystem and alternates legacy/new.  Scenario families besides the hazards: overlap, owner, answers (falsy dicts), "
        "answers-not-dict, binding (two triples of parameter lists x 8 data dicts x with/without response x Home Assistant / "
        "script / overlapping), names (three services incl. foreign domains + trigger + yaml doc strings on one function); "
        "five probes per subsystem with names that differ only in letter case (two functions; a redefinition; "
        "another context; one function naming both spellings - oracle only) and two with spellings of pyscript's built-in "
        "service names (alone: model and oracle; among other names / in a foreign domain: model only); family refused-later-name "
        "(both tiers and the failing-input search): ONE @service decorator with two names (legacy; stacked decorators in the new "
        "subsystem) whose LAST name another context owns, then del / redefinition / file removal / file reload of that function, "
        "then the other context declares the freed name - judged by the declaration oracle; probe multi-name (new subsystem, oracle only).  out: entry point x subsets of {context, blocking, "
        "return_response, limit, plain} with right-typed, wrong-typed and falsy-but-wrong-typed values (0, '', None, {}, 0.0) "
        "x target supports_response.  "
        "Non-trivial = at least one registration; distinct by payload.")
ASSUMPTIONS = [
    "CPython drops a function object as soon as its last reference goes (the harness calls gc.collect() and settles after every step)",
    "Home Assistant's service registry is a dictionary; async_register overwrites; response validation as in homeassistant.core",
    "definition order = generation number; a context's file-level code runs only while the context is being loaded",
    "the evaluator name 'file.x.func' is never also the name of a global context",
    "python's binding of keyword arguments to a parameter list (required given, no unknown keyword unless **kwargs) - the model's bindOK states it, CPython performs it",
    "a definition is identified by the 'gen N' text in its doc string (so every generated function has a non-empty doc string)",
    "str.lower() is modelled on ASCII letters (Char.toLower); service names in the runs are ASCII",
]
TRUSTED = ["harness/run_C12.py (script generation, wrappers around Function.service_register/service_remove and "
           "ServiceRegistry.async_call for observation, canonicalisation, the Python rendering of the declaration rules)",
           "modelled not verified: reference counting / weakref.finalize timing, asyncio task order of the manager start "
           "tasks (taken from the observed run), hass.services"]

# service names: two ordinary ones, a foreign domain, digits / underscores inside the name, a foreign domain with both
SVCS = ["pyscript.s1", "pyscript.s2", "test.s3", "pyscript.s_1x", "my_dom.do_it2"]
CTXS = ["a", "b", "c"]
VARS = ["f", "g", "h"]
FNS = ["opA", "opB"]
RESPS = ["none", "optional", "only"]
# call data: plain keys, keys that are parameters of some signatures (x, y), keys that collide with what the handler
# itself passes (trigger_type, context), and `ret` = which answer the function gives
DATA = [{}, {"x": 1}, {"x": "v", "y": [1, 2]}, {"n": None, "d": {"k": 1.5}}, {"flag": True},
        {"ret": "empty"}, {"ret": "falsy", "x": 0}, {"ret": "empty", "y": "q"},
        {"ret": "none"}, {"ret": "list", "x": 2}, {"trigger_type": "mine"}, {"context": "c", "x": 1}, {"x": None}]
RETS = {"empty": {}, "falsy": {"count": 0, "name": "", "items": []}, "none": None, "list": [1, 2]}
NOT_A_DICT = ("none", "list")


def answer(gen, data):
    """what the generated @service function of generation `gen` returns for this call data"""
    r = data.get("ret")
    return RETS[r] if isinstance(r, str) and r in RETS else {"gen": gen, "tag": data.get("tag")}


# the parameter lists of the generated service functions: every parameter kind.  `merge` rebuilds the complete keyword
# dictionary inside the function (so that one record format serves all); `defaults` are the parameters python fills in
# when the data does not give them (the harness drops exactly those from the record again).
ALLP = ["trigger_type", "context", "x", "ret", "tag", "delay"]
SIGS = [
    {"src": "**kw", "merge": None, "required": [], "params": [], "extra": True, "defaults": {}},
    {"src": "x=None, *, y=0, **kw", "merge": "kw = dict(kw, x=x, y=y)", "required": [], "params": ["x", "y"], "extra": True,
     "defaults": {"x": None, "y": 0}},
    {"src": "x, y=2, **kw", "merge": "kw = dict(kw, x=x, y=y)", "required": ["x"], "params": ["x", "y"], "extra": True,
     "defaults": {"y": 2}},
    {"src": ", ".join(f"{a}=None" for a in ALLP), "merge": "kw = dict(" + ", ".join(f"{a}={a}" for a in ALLP) + ")",
     "required": [], "params": ALLP, "extra": False, "defaults": {"x": None, "ret": None, "tag": None, "delay": None}},
    {"src": "*args, **kw", "merge": "kw = dict(kw, _args=list(args)) if args else kw", "required": [], "params": [],
     "extra": True, "defaults": {}},
]
# doc strings: plain, a yaml description without fields, a yaml document that is only a comment
DOCS = ["gen {g}", "yaml\\ndescription: gen {g}\\n", "yaml\\n# gen {g}\\n"]


def bind_ok(sig, keys):
    """python's binding of func(**kwargs) for the parameter list SIGS[sig]"""
    sg = SIGS[sig]
    return all(r in keys for r in sg["required"]) and (sg["extra"] or all(k in sg["params"] for k in keys))


def sig_map(p):
    m = {}
    for o in p["ops"]:
        for df in (o["defs"] if o["k"] == "load" else [o] if o["k"] == "rundef" else []):
            m[df["gen"]] = df.get("sig", 0)
    return m


def low(decl):
    """Home Assistant's service registry lower-cases domain and service name: that is the service a declaration means"""
    return [(x[0].lower(), x[1]) for x in decl]


# the script-side caller: an event-triggered function in a context of its own (no @service in it)
RELAY_SRC = """
@event_trigger('ev_relay')
def relay(k=None, dom=None, name=None, rr=None, data=None, **kw):
    try:
        if rr:
            r = service.call(dom, name, return_response=True, **data)
        else:
            r = service.call(dom, name, blocking=True, **data)
        rec('relay', k, 'ret', r)
    except Exception as e:
        rec('relay', k, 'exc', type(e).__name__)
"""


# ------------------------------------------------------------------ the declaration rules (property oracle)
class Decls:
    """live functions with their accepted @service declarations, in definition order"""

    def __init__(self):
        self.funcs = []          # dicts: gen, ctx, var, eff [(svc, resp)], fn

    def owner(self, svc):
        for f in self.funcs:
            if any(s == svc for s, _ in f["eff"]):
                return f["ctx"]
        return None

    def define(self, ctx, fn, var, gen, decl):
        eff = [(s, r) for s, r in decl if self.owner(s) in (None, ctx)]
        self.funcs = [f for f in self.funcs if not (f["ctx"] == ctx and f["var"] == var)]
        self.funcs.append({"gen": gen, "ctx": ctx, "var": var, "eff": eff, "fn": fn, "decl": list(decl)})

    def delete(self, ctx, var):
        self.funcs = [f for f in self.funcs if not (f["ctx"] == ctx and f["var"] == var)]

    def unload(self, ctx):
        self.funcs = [f for f in self.funcs if f["ctx"] != ctx]

    def handler(self, svc):
        fs = [f for f in self.funcs if any(s == svc for s, _ in f["eff"])]
        if not fs:
            return None
        f = fs[-1]
        return f["gen"], [r for s, r in f["eff"] if s == svc][-1]

    def declaring(self, svc):
        return [f for f in self.funcs if any(s == svc for s, _ in f["eff"])]


def apply_op(d, o):
    k = o["k"]
    if k == "load":
        d.unload(o["ctx"])
        for df in o["defs"]:
            d.define(o["ctx"], None, df["var"], df["gen"], low(df["decl"]))
    elif k == "unload":
        d.unload(o["ctx"])
    elif k == "rundef":
        d.define(o["ctx"], o["fn"], o["var"], o["gen"], low(o["decl"]))
    elif k == "rundel":
        d.delete(o["ctx"], o["var"])


# ------------------------------------------------------------------ hazards (situations in which the code is known to deviate)
def hazards(p):
    """[(step, kind, services)] – the recorded deviation classes a case walks into (see findings.d/C12.json)"""
    d = Decls()
    evalowner = {}       # svc -> (ctx, fn) under which the new subsystem registered it
    out = []
    for i, o in enumerate(p["ops"]):
        k = o["k"]
        defs = []
        if k == "load":
            d.unload(o["ctx"])
            defs = [(o["ctx"], None, df["var"], df["gen"], [tuple(x) for x in df["decl"]]) for df in o["defs"]]
            # (the same function defined twice in a file – C12-F4 – and the set-order start of two functions declaring
            #  the same service – C12-F5 – were repaired in /repo: no longer hazards, judged like anything else)
            # What is left (C12-F5b): the managers' start tasks run concurrently and a manager awaits between its
            # decorators, so an EARLIER function that declares a shared service after another decorator may register it
            # after the LATER function did.
            if not p["legacy"]:
                last = {}
                for j, (_c, _f, var, _g, _decl) in enumerate(defs):
                    last[var] = j                      # a function defined twice: only the last definition is started
                live = [defs[j] for j in sorted(last.values())]
                for a in range(len(live)):
                    for pos, (sv, _r) in enumerate(live[a][4]):
                        if pos >= 1 and any(sv == s2 for later in live[a + 1:] for s2, _ in later[4]):
                            out.append((i, "load-start-interleave", {sv}))
        elif k == "rundef":
            defs = [(o["ctx"], o["fn"], o["var"], o["gen"], [tuple(x) for x in o["decl"]])]
        for (ctx, fn, var, gen, decl) in defs:
            names = [s for s, _ in decl]
            # (a name given twice by one function – C12-F2 – and a run-time redefinition from another evaluator –
            #  C12-F3 – were repaired in /repo: no longer hazards, judged like anything else)
            refused = [s for s in names if d.owner(s) not in (None, ctx)]
            if refused and len(set(names)) > 1:
                out.append((i, "refused-name-aborts-others", set(names)))
            # a redefinition that drops a service another (older) function still declares
            old = [f for f in d.funcs if f["ctx"] == ctx and f["var"] == var]
            for f in old:
                for s, _ in f["eff"]:
                    others = [g for g in d.declaring(s) if g is not f]
                    if others and s not in names and all(g["gen"] < f["gen"] for g in others):
                        out.append((i, "delete-latest-of-two", {s}))
            for s in names:
                if d.owner(s) in (None, ctx) and not d.declaring(s):
                    evalowner[s] = (ctx, fn)
            d.define(ctx, fn, var, gen, decl)
        if k in ("rundel", "unload"):
            victims = [f for f in d.funcs if f["ctx"] == o["ctx"] and (k == "unload" or f["var"] == o["var"])]
            for f in victims:
                for s, _ in f["eff"]:
                    others = [g for g in d.declaring(s) if g not in victims]
                    if others and all(g["gen"] < f["gen"] for g in others):
                        out.append((i, "delete-latest-of-two", {s}))
            apply_op(d, o)
        for s in list(evalowner):
            if not d.declaring(s):
                evalowner.pop(s)
    return out


# ------------------------------------------------------------------ generation
class LifeGen:
    def __init__(self, rng, legacy):
        self.rng, self.legacy = rng, legacy
        self.gen = 0
        self.d = Decls()
        self.loaded = set()
        self.evalowner = {}
        self.ops = []

    def next_gen(self):
        self.gen += 1
        return self.gen

    def free_for(self, ctx, fn):
        """services a clean definition in (ctx, fn) may declare"""
        ok = []
        for s in SVCS:
            own = self.d.owner(s)
            if own not in (None, ctx):
                continue
            ok.append(s)
        return ok

    def push(self, o):
        self.ops.append(o)
        if o["k"] in ("load", "rundef"):
            defs = [(None, df) for df in o["defs"]] if o["k"] == "load" else [(o["fn"], o)]
            if o["k"] == "load":
                self.d.unload(o["ctx"])
                self.loaded.add(o["ctx"])
            for fn, df in defs:
                for s, _ in df["decl"]:
                    if not self.d.declaring(s):
                        self.evalowner[s] = (o["ctx"], fn)
                self.d.define(o["ctx"], fn, df["var"], df["gen"], [tuple(x) for x in df["decl"]])
        elif o["k"] == "unload":
            self.d.unload(o["ctx"])
            self.loaded.discard(o["ctx"])
        elif o["k"] == "rundel":
            self.d.delete(o["ctx"], o["var"])
        for s in list(self.evalowner):
            if not self.d.declaring(s):
                self.evalowner.pop(s)

    def extras(self):
        """parameter list, doc-string form, an additional trigger decorator"""
        r = self.rng
        return {"sig": r.choices([0, 1, 2, 3, 4], [6, 2, 2, 2, 1])[0], "doc": r.choice([0, 0, 1, 2]), "trig": r.random() < 0.2}

    def clean_decl(self, ctx, fn, exclude=()):
        r = self.rng
        free = [s for s in self.free_for(ctx, fn) if s not in exclude]
        taken = [s for s in SVCS if self.d.owner(s) not in (None, ctx)]
        if taken and r.random() < 0.2:
            # a name another context owns, alone: refused, and the owner must keep it whatever happens to this function
            return [[r.choice(taken), r.choice(RESPS)]]
        if not free:
            return None
        names = r.sample(free, min(len(free), r.choice([1, 1, 2, 3])))
        return [[s, r.choice(RESPS)] for s in names]

    def clean_load(self, ctx):
        r = self.rng
        # the old incarnation of the context goes away first: compute what is free afterwards
        saved = (list(self.d.funcs), dict(self.evalowner))
        self.d.unload(ctx)
        for s in list(self.evalowner):
            if not self.d.declaring(s):
                self.evalowner.pop(s)
        defs, used, usedv = [], set(), set()
        for _ in range(r.choice([1, 1, 2, 3])):
            free = self.free_for(ctx, None)
            vs = list(VARS)
            if not free or not vs:
                break
            names = r.sample(free, min(len(free), r.choice([1, 1, 2, 3])))
            var = r.choice(vs)
            if self.legacy and var in usedv:
                # a legacy redefinition inside a file is clean only if it keeps the older function's shared names
                pass
            used.update(names)
            usedv.add(var)
            defs.append({"var": var, "gen": self.next_gen(), "decl": [[s, r.choice(RESPS)] for s in names], **self.extras()})
        self.d.funcs, self.evalowner = saved
        if not defs:
            return None
        o = {"k": "load", "ctx": ctx, "defs": defs}
        return o if not hazards({"legacy": self.legacy, "ops": self.ops + [o]}) else None

    def step(self):
        r = self.rng
        kind = r.choices(["load", "unload", "rundef", "rundel", "call", "calls"], [4, 1, 5, 3, 5, 2])[0]
        if not self.loaded:
            kind = "load"
        if kind == "load":
            o = self.clean_load(r.choice(CTXS))
        elif kind == "unload":
            o = {"k": "unload", "ctx": r.choice(sorted(self.loaded))}
        elif kind == "rundef":
            ctx, fn = r.choice(sorted(self.loaded)), r.choice(FNS)
            decl = self.clean_decl(ctx, fn)
            o = decl and {"k": "rundef", "ctx": ctx, "fn": fn, "var": r.choice(VARS), "gen": self.next_gen(), "decl": decl,
                          **self.extras()}
        elif kind == "rundel":
            ctx = r.choice(sorted(self.loaded))
            live = [f["var"] for f in self.d.funcs if f["ctx"] == ctx]
            o = {"k": "rundel", "ctx": ctx, "fn": r.choice(FNS), "var": r.choice(live) if live and r.random() < 0.85 else r.choice(VARS)}
        elif kind == "calls":
            live = sorted({s for f in self.d.funcs for s, _ in f["eff"]})
            o = overlap_op(r, r.choice(live) if live and r.random() < 0.9 else r.choice(SVCS), r.random() < 0.6)
        else:
            o = {"k": "call", "svc": r.choice(SVCS), "rr": r.random() < 0.5, "data": r.choice(DATA)}
            if r.random() < 0.3:
                o["via"] = "script"
        if o is None:
            return
        if o["k"] not in ("call", "calls") and hazards({"legacy": self.legacy, "ops": self.ops + [o]}):
            return
        self.push(o)


def overlap_op(rng, svc, rr):
    """2-3 calls of one service, started together; the function suspends for `delay` (virtual seconds) – same duration
    for all, or the first started finishes first – so the calls overlap and do not finish in LIFO order"""
    n = rng.choice([2, 2, 3])
    same = rng.random() < 0.5
    datas = []
    for j in range(n):
        data = {"tag": f"t{j}", "delay": 0.05 if same else round(0.03 * (j + 1), 3)}
        data.update(rng.choice(DATA))
        datas.append(data)
    return {"k": "calls", "svc": svc, "rr": rr, "datas": datas}


def clean_case(rng, idx):
    g = LifeGen(rng, bool(idx % 2))
    n = rng.randrange(5, 15)
    tries = 0
    while len(g.ops) < n and tries < 80:
        g.step()
        tries += 1
    return {"kind": "life", "legacy": g.legacy, "ops": g.ops}


def calls_for(svcs, rng):
    out = []
    for s in svcs:
        out.append({"k": "call", "svc": s, "rr": False, "data": rng.choice(DATA)})
        out.append({"k": "call", "svc": s, "rr": True, "data": rng.choice([{}, {"ret": "empty"}])})
    return out


def hazard_cases(rng, legacy):
    """scenario families, each walking into exactly one recorded hazard"""
    R = lambda: rng.choice(RESPS)  # noqa: E731
    s1, s2, s3 = rng.sample(SVCS, 3)
    c1, c2 = rng.sample(CTXS, 2)
    v1, v2 = rng.sample(VARS, 2)
    fam = []
    # two live functions declare the same service; the later one is deleted / redefined away (design #25)
    fam.append(("delete-latest-of-two", [
        {"k": "load", "ctx": c1, "defs": [{"var": v1, "gen": 1, "decl": [[s1, R()]]}]},
        {"k": "rundef", "ctx": c1, "fn": None if legacy else "opA", "var": v2, "gen": 2, "decl": [[s1, R()]]}
        if legacy else {"k": "unload", "ctx": c2},
    ]))
    # (the run-time variant for the new subsystem needs the same evaluator for both: use opA twice)
    fam[-1] = ("delete-latest-of-two", [
        {"k": "load", "ctx": c1, "defs": [{"var": "h", "gen": 1, "decl": [[s2, "none"]]}]},
        {"k": "rundef", "ctx": c1, "fn": "opA", "var": v1, "gen": 2, "decl": [[s1, R()]]},
        {"k": "rundef", "ctx": c1, "fn": "opA", "var": v2, "gen": 3, "decl": [[s1, R()]]},
        {"k": "rundel", "ctx": c1, "fn": "opB", "var": v2}] + calls_for([s1], rng) + [
        {"k": "rundel", "ctx": c1, "fn": "opB", "var": v1}] + calls_for([s1], rng))
    fam.append(("duplicate-name", [
        {"k": "load", "ctx": c1, "defs": [{"var": v1, "gen": 1, "decl": [[s1, "none"], [s1, "none"]]}]},
        {"k": "rundel", "ctx": c1, "fn": "opA", "var": v1}] + calls_for([s1], rng) + [{"k": "unload", "ctx": c1}]))
    fam.append(("other-evaluator", [
        {"k": "load", "ctx": c1, "defs": [{"var": v1, "gen": 1, "decl": [[s1, R()]]}]},
        {"k": "rundef", "ctx": c1, "fn": "opA", "var": v1, "gen": 2, "decl": [[s1, R()]]}] + calls_for([s1], rng) + [
        {"k": "rundef", "ctx": c1, "fn": "opB", "var": v1, "gen": 3, "decl": [[s1, R()]]}] + calls_for([s1], rng)))
    fam.append(("redefined-at-load", [
        {"k": "load", "ctx": c1, "defs": [{"var": v1, "gen": 1, "decl": [[s1, R()]]}, {"var": v1, "gen": 2, "decl": [[s1, R()]]}]}]
        + calls_for([s1], rng) + [{"k": "rundel", "ctx": c1, "fn": "opA", "var": v1}] + calls_for([s1], rng)))
    fam.append(("load-start-order", [
        {"k": "load", "ctx": c1, "defs": [{"var": v1, "gen": 1, "decl": [[s1, "optional"]]},
                                          {"var": v2, "gen": 2, "decl": [[s1, "only"]]}]}] + calls_for([s1], rng)))
    sa, sb = "test.s3", rng.choice(["pyscript.s1", "pyscript.s2"])
    fam.append(("load-start-interleave", [
        {"k": "load", "ctx": c1, "defs": [{"var": v1, "gen": 1, "decl": [[sa, R()], [sb, "optional"]]},
                                          {"var": v2, "gen": 2, "decl": [[sb, "only"]]}]}] + calls_for([sb], rng)))
    fam.append(("refused-name-aborts-others", [
        {"k": "load", "ctx": c1, "defs": [{"var": v1, "gen": 1, "decl": [[s1, R()]]}]},
        {"k": "load", "ctx": c2, "defs": [{"var": v1, "gen": 2, "decl": [[s1, R()], [s2, R()]]}]}] + calls_for([s1, s2], rng) + [
        {"k": "rundef", "ctx": c2, "fn": "opA", "var": v2, "gen": 3, "decl": [[s2, R()], [s1, R()]]}] + calls_for([s1, s2], rng)))
    # overlapping calls (no hazard: every call must be answered with its own data, in both subsystems)
    rs = rng.choice(["optional", "only"])
    fam.append(("overlap", [
        {"k": "load", "ctx": c1, "defs": [{"var": v1, "gen": 1, "decl": [[s1, rs]]}, {"var": v2, "gen": 2, "decl": [[s2, "none"]]}]},
        overlap_op(rng, s1, True), overlap_op(rng, s2, False), overlap_op(rng, s1, rs != "only"),
        {"k": "rundef", "ctx": c1, "fn": "opA", "var": v1, "gen": 3, "decl": [[s1, rs]]},
        overlap_op(rng, s1, True), {"k": "call", "svc": s1, "rr": True, "data": {"x": 1}}]))
    # ownership alone (single refused name) is NOT a hazard: the second context must fail and change nothing
    fam.append(("owner", [
        {"k": "load", "ctx": c1, "defs": [{"var": v1, "gen": 1, "decl": [[s1, R()]]}]},
        {"k": "load", "ctx": c2, "defs": [{"var": v1, "gen": 2, "decl": [[s1, R()]]}]}] + calls_for([s1], rng) + [
        {"k": "rundef", "ctx": c2, "fn": "opA", "var": v2, "gen": 3, "decl": [[s1, R()]]}] + calls_for([s1], rng) + [
        # the REFUSED declarations go away again - deleted, redefined, reloaded: the owner keeps its service
        {"k": "rundel", "ctx": c2, "fn": "opB", "var": v1}] + calls_for([s1], rng) + [
        {"k": "rundef", "ctx": c2, "fn": "opB", "var": v2, "gen": 4, "decl": [[s2, R()]]}] + calls_for([s1], rng) + [
        {"k": "load", "ctx": c2, "defs": [{"var": v1, "gen": 5, "decl": [[s1, R()]]}]},
        {"k": "load", "ctx": c2, "defs": [{"var": v2, "gen": 6, "decl": [[s2, R()]]}]}] + calls_for([s1], rng) + [
        {"k": "unload", "ctx": c2}] + calls_for([s1], rng) + [
        {"k": "unload", "ctx": c1}] + calls_for([s1], rng) + [
        {"k": "load", "ctx": c2, "defs": [{"var": v1, "gen": 7, "decl": [[s1, R()]]}]}] + calls_for([s1], rng)))
    # answers that are falsy but valid ({} for "nothing found"), asked for by Home Assistant and by a script
    ro = rng.choice(["optional", "only"])
    fam.append(("answers", [
        {"k": "load", "ctx": c1, "defs": [{"var": v1, "gen": 1, "decl": [[s1, ro]]}, {"var": v2, "gen": 2, "decl": [[s2, "only"]]}]}]
        + [{"k": "call", "svc": sv, "rr": rr, "data": dict(data), **({"via": "script"} if via else {})}
           for sv, rr in ((s1, True), (s2, True), (s2, False)) for via in (False, True)
           for data in ({"ret": "empty"}, {"ret": "falsy"}, {"x": 1}) if rr or via]))
    # non-dict answers (None, a list): fine without a response request, Home Assistant's error with one
    fam.append(("answers-not-dict", [
        {"k": "load", "ctx": c1, "defs": [{"var": v1, "gen": 1, "decl": [[s1, "optional"]]}, {"var": v2, "gen": 2, "decl": [[s2, "only"]]}]}]
        + [{"k": "call", "svc": sv, "rr": rr, "data": dict(data), **({"via": "script"} if via else {})}
           for sv, rr in ((s1, True), (s1, False), (s2, True), (s2, False)) for via in (False, True)
           for data in ({"ret": "none"}, {"ret": "list"}) if rr or via or sv == s1]
        + [{"k": "calls", "svc": s1, "rr": True, "datas": [{"tag": "t0", "delay": 0.05, "ret": "none"},
                                                            {"tag": "t1", "delay": 0.05}, {"tag": "t2", "delay": 0.05, "ret": "list"}]}]))
    # every parameter kind x data with missing / extra / colliding keys, asked with and without response, from
    # Home Assistant and from a script, alone and overlapping
    bdata = [{}, {"x": 1}, {"y": 1}, {"x": 1, "y": 2, "z": 3}, {"trigger_type": "mine"}, {"context": "c", "x": 1},
             {"x": None}, {"ret": "none", "x": 1}]
    for sigs in ((2, 3, 1), (4, 0, 3)):
        fam.append(("binding", [
            {"k": "load", "ctx": c1, "defs": [{"var": "f", "gen": 1, "decl": [[s1, "optional"]], "sig": sigs[0]},
                                              {"var": "g", "gen": 2, "decl": [[s2, "optional"]], "sig": sigs[1], "doc": 1},
                                              {"var": "h", "gen": 3, "decl": [[s3, "optional"]], "sig": sigs[2], "doc": 2, "trig": True}]}]
            + [{"k": "call", "svc": sv, "rr": rr, "data": dict(data)} for sv in (s1, s2, s3) for data in bdata for rr in (False, True)]
            + [{"k": "call", "svc": sv, "rr": j % 2 == 0, "data": dict(data), "via": "script"}
               for sv in (s1, s2) for j, data in enumerate(bdata)]
            + [{"k": "calls", "svc": s1, "rr": True, "datas": [{"tag": "t0", "delay": 0.05, "x": 1}, {"tag": "t1", "delay": 0.05},
                                                                {"tag": "t2", "delay": 0.05, "x": 2, "zz": 1}]},
               {"k": "rundef", "ctx": c1, "fn": "opA", "var": "f", "gen": 4, "decl": [[s1, "optional"]], "sig": sigs[1]}]
            + [{"k": "call", "svc": s1, "rr": True, "data": dict(data)} for data in bdata]))
    # three services on one function, unusual names and a foreign domain, a trigger decorator beside them, yaml doc strings
    fam.append(("names", [
        {"k": "load", "ctx": c1, "defs": [{"var": v1, "gen": 1, "trig": True, "doc": 1,
                                           "decl": [["pyscript.s_1x", "none"], ["my_dom.do_it2", "optional"], ["test.s3", "only"]]},
                                          {"var": v2, "gen": 2, "trig": True, "doc": 2, "decl": [["pyscript.s1", R()]]}]}]
        + calls_for(["pyscript.s_1x", "my_dom.do_it2", "test.s3", "pyscript.s1"], rng) + [
        {"k": "rundef", "ctx": c1, "fn": "opA", "var": v1, "gen": 3, "trig": True, "doc": 2,
         "decl": [["my_dom.do_it2", "only"], ["pyscript.s_1x", "optional"]]}]
        + calls_for(["pyscript.s_1x", "my_dom.do_it2", "test.s3"], rng) + [
        {"k": "rundel", "ctx": c1, "fn": "opB", "var": v1}] + calls_for(["pyscript.s_1x", "my_dom.do_it2", "pyscript.s1"], rng) + [
        {"k": "unload", "ctx": c1}] + calls_for(["pyscript.s1"], rng)))
    return [{"kind": "life", "legacy": legacy, "ops": ops, "family": name} for name, ops in fam]


def refused_later_cases(rng, legacy):
    """ONE @service decorator with two names, the LAST of which another context owns: the first name is registered, the
    refusal aborts the function's decorators.  The first name is declared by a live function; once that function is
    deleted, redefined without it, or its file is removed / reloaded, the name must be free again (not registered, count 0,
    another context may declare it).  Judged by the declaration oracle alone (works with the model withheld)."""
    if not legacy:
        # the new subsystem accepts one name per decorator (see probe multi-name): stacked decorators, refused name last
        multi = {}
    else:
        multi = {"multi": True}
    out = []
    for variant in ("del", "redefine", "unload", "reload"):
        s1, s2, s3 = rng.sample(SVCS, 3)
        r = rng.choice(RESPS)
        ops = [{"k": "load", "ctx": "a", "defs": [{"var": "f", "gen": 1, "decl": [[s1, rng.choice(RESPS)]]}]},
               {"k": "load", "ctx": "b", "defs": [{"var": "g", "gen": 2, "decl": [[s2, r], [s1, r]], **multi}]}]
        ops += calls_for([s2, s1], rng)
        if variant == "del":
            ops.append({"k": "rundel", "ctx": "b", "fn": "opA", "var": "g"})
        elif variant == "redefine":
            ops.append({"k": "rundef", "ctx": "b", "fn": "opA", "var": "g", "gen": 3, "decl": [[s3, r]]})
        elif variant == "unload":
            ops.append({"k": "unload", "ctx": "b"})
        else:
            ops.append({"k": "load", "ctx": "b", "defs": [{"var": "h", "gen": 3, "decl": [[s3, r]]}]})
        ops += calls_for([s2], rng)
        # the freed name is taken by the other context
        ops.append({"k": "rundef", "ctx": "a", "fn": "opB", "var": "h", "gen": 4, "decl": [[s2, rng.choice(RESPS)]]})
        ops += calls_for([s2, s1], rng)
        ops.append({"k": "unload", "ctx": "a"})
        ops += calls_for([s2], rng)
        out.append({"kind": "life", "legacy": legacy, "ops": ops, "family": "refused-later-name:" + variant})
    return out


def probe_cases(legacy):
    """names that differ only in case: Home Assistant's registry lower-cases them, so they are ONE service – and so they
    are for the model since the repair of C12-F9 (the key of the count table is the lower-cased name)"""
    out = []
    calls = [{"k": "call", "svc": "pyscript.case1", "rr": False, "data": {"x": 1}}]
    out.append({"kind": "life", "legacy": legacy, "probe": "case-variant", "svcs": ["pyscript.case1"], "ops": [
        {"k": "load", "ctx": "a", "defs": [{"var": "f", "gen": 1, "decl": [["pyscript.Case1", "none"]]},
                                           {"var": "g", "gen": 2, "decl": [["pyscript.case1", "none"]]}]}] + calls + [
        {"k": "rundel", "ctx": "a", "fn": "opA", "var": "f"}] + calls + [{"k": "unload", "ctx": "a"}] + calls})
    out.append({"kind": "life", "legacy": legacy, "probe": "case-variant-one-function", "svcs": ["pyscript.case1"], "ops": [
        {"k": "load", "ctx": "a", "defs": [{"var": "f", "gen": 1, "decl": [["pyscript.Case1", "none"]]}]}]
        + calls + [{"k": "rundef", "ctx": "a", "fn": "opA", "var": "f", "gen": 2, "decl": [["pyscript.CASE1", "optional"]]}] + calls + [
        {"k": "rundel", "ctx": "a", "fn": "opA", "var": "f"}] + calls})
    # another context declares another spelling of a name it does not own: refused, the owner keeps the service
    out.append({"kind": "life", "legacy": legacy, "probe": "case-variant-owner", "svcs": ["pyscript.case1"], "ops": [
        {"k": "load", "ctx": "a", "defs": [{"var": "f", "gen": 1, "decl": [["pyscript.Case1", "none"]]}]},
        {"k": "load", "ctx": "b", "defs": [{"var": "g", "gen": 2, "decl": [["pyscript.CASE1", "none"]]}]}] + calls + [
        {"k": "unload", "ctx": "b"}] + calls + [{"k": "unload", "ctx": "a"}] + calls})
    # ONE function naming both spellings (oracle only: the code counts the service twice and gives it back twice, the
    # model - whose holders remember keys - counts it once; Home Assistant sees the same either way)
    out.append({"kind": "life", "legacy": legacy, "probe": "case-variant-twice", "svcs": ["pyscript.case1"], "oracle_only": True, "ops": [
        {"k": "load", "ctx": "a", "defs": [{"var": "f", "gen": 1, "decl": [["pyscript.Case1", "none"], ["pyscript.case1", "none"]]}]}]
        + calls + [{"k": "rundel", "ctx": "a", "fn": "opA", "var": "f"}] + calls})
    if not legacy:
        # ONE decorator with two names ("Multiple arguments ... can be used to register multiple names", reference.rst):
        # the new subsystem's argument schema accepts at most one (C12-F12-new, open) - oracle only
        out.append({"kind": "life", "legacy": legacy, "probe": "multi-name", "svcs": ["pyscript.s1", "pyscript.s2"], "oracle_only": True, "ops": [
            {"k": "load", "ctx": "a", "defs": [{"var": "f", "gen": 1, "decl": [["pyscript.s1", "none"], ["pyscript.s2", "none"]], "multi": True}]}]
            + [{"k": "call", "svc": "pyscript.s2", "rr": False, "data": {"x": 1}}]})
    # a spelling variant of a BUILT-IN service name (pyscript.reload): `@service` must refuse it like the name itself
    out.append({"kind": "life", "legacy": legacy, "probe": "builtin-case", "svcs": ["pyscript.reload"], "ops": [
        {"k": "load", "ctx": "a", "defs": [{"var": "f", "gen": 1, "decl": [["pyscript.Reload", "none"]]}]},
        {"k": "rundel", "ctx": "a", "fn": "opA", "var": "f"}]})
    # the offending name among others, and in a foreign domain (the test does not look at the domain): legacy keeps what
    # was registered before it, the new subsystem invalidates the whole function.  Compared with the model only - what the
    # OTHER names of such a function should do is not part of the property.
    out.append({"kind": "life", "legacy": legacy, "probe": "builtin-case-multi", "model_only": True,
                "svcs": ["pyscript.s1", "pyscript.s2", "test.reload", "pyscript.jupyter_kernel_start"], "ops": [
        {"k": "load", "ctx": "a", "defs": [{"var": "f", "gen": 1, "decl": [["pyscript.s1", "none"], ["test.RELOAD", "none"], ["pyscript.s2", "none"]]},
                                           {"var": "g", "gen": 2, "decl": [["pyscript.s2", "optional"]]}]},
        {"k": "rundef", "ctx": "a", "fn": "opA", "var": "g", "gen": 3, "decl": [["pyscript.Jupyter_Kernel_Start", "none"], ["pyscript.s2", "none"]]},
        {"k": "rundel", "ctx": "a", "fn": "opA", "var": "f"}, {"k": "unload", "ctx": "a"}]})
    return out


# right-typed values, wrong-typed ones, and falsy values that are not of the control's type (0, '', None, {}, 0.0)
OUT_KEYS = {
    "context": [("context", None), ("other", 7), ("other", None), ("other", ""), ("other", {})],
    "blocking": [("bool", True), ("bool", False), ("other", "yes"), ("int", 1), ("int", 0), ("other", ""), ("other", None)],
    "return_response": [("bool", True), ("bool", False), ("other", "no"), ("int", 0), ("int", 1), ("other", None), ("other", "")],
    "limit": [("int", 5), ("float", 2.5), ("bool", True), ("other", "10"), ("int", 0), ("float", 0.0), ("other", None)],
    "x": [("other", 1), ("other", "v")],
    "entity_id": [("other", "test.other")],
}


def out_cases(rng, n):
    cases = []
    entries = ["service_call", "domain_service", "entity_method"]
    for i in range(n):
        e = entries[i % 3]
        keys = [k for k in ["context", "blocking", "return_response", "limit", "x"] if rng.random() < 0.5]
        if e != "entity_method" and rng.random() < 0.15:
            keys.append("entity_id")
        args = []
        for k in keys:
            ty, v = rng.choice(OUT_KEYS[k])
            args.append([k, ty, v])
        cases.append({"kind": "out", "entry": e, "target": rng.choice(RESPS), "args": args, "legacy": bool(i % 2)})
    return cases


def gen_cases(rng, tier, search):
    n = 124 if tier == "quick" else 1500
    if search:
        n *= 3
    payloads = []
    if not search:
        for legacy in (True, False):
            for _ in range(2 if tier == "quick" else 12):
                payloads += hazard_cases(rng, legacy)
            payloads += probe_cases(legacy)
    for legacy in (True, False):
        payloads += refused_later_cases(rng, legacy)        # also part of the failing-input search
    for i in range(n):
        payloads.append(clean_case(rng, i))
    payloads += out_cases(rng, 72 if tier == "quick" else 600)
    cases = []
    for p in payloads:
        c = Case(p, None, tags=tags_of(p))
        c.nontrivial = p["kind"] == "out" or any(o["k"] in ("load", "rundef") for o in p["ops"])
        cases.append(c)
    return cases


def tags_of(p):
    t = [p["kind"], "legacy" if p["legacy"] else "new"]
    if p.get("family"):
        t.append("family:" + p["family"])
    if p.get("probe"):
        t.append("probe:" + p["probe"])
    return t


# ------------------------------------------------------------------ script generation
def func_src(var, gen, decl, indent, df=None):
    pad = " " * indent
    df = df or {}
    sg = SIGS[df.get("sig", 0)]
    lines = []
    if df.get("multi"):
        # ONE decorator naming all services (documented: "multiple arguments ... register multiple names"); the
        # supports_response keyword is the decorator's, so all names share it
        r = decl[0][1]
        names = ", ".join(repr(s) for s, _ in decl)
        lines.append(f"{pad}@service({names}, supports_response={r!r})" if r != "none" else f"{pad}@service({names})")
        decl = []
    for s, r in decl:
        lines.append(f"{pad}@service({s!r}, supports_response={r!r})" if r != "none" else f"{pad}@service({s!r})")
    if df.get("trig"):
        lines.append(f"{pad}@event_trigger('nev_{gen}')")
    # `delay` in the call data makes the function suspend between receiving its arguments and using them; what it
    # records and returns afterwards is what it sees THEN.  task.current_task() ties both records to the call.
    lines += [f"{pad}def {var}({sg['src']}):", f'{pad}    "{DOCS[df.get("doc", 0)].format(g=gen)}"'] + \
             ([f"{pad}    {sg['merge']}"] if sg["merge"] else []) + [
              f"{pad}    rec('enter', {gen}, kw.get('tag'), task.current_task())",
              f"{pad}    if kw.get('delay'):",
              f"{pad}        task.sleep(kw['delay'])",
              f"{pad}    rec('call', {gen}, kw, task.current_task())",
              f"{pad}    if kw.get('ret') == 'empty':",
              f"{pad}        return {{}}",
              f"{pad}    if kw.get('ret') == 'falsy':",
              f"{pad}        return {{'count': 0, 'name': '', 'items': []}}",
              f"{pad}    if kw.get('ret') == 'none':",
              f"{pad}        return None",
              f"{pad}    if kw.get('ret') == 'list':",
              f"{pad}        return [1, 2]",
              f"{pad}    return {{'gen': {gen}, 'tag': kw.get('tag')}}"]
    return lines


def file_src(ctx, defs, later_ops):
    """file-level definitions + the driver functions for the run-time operations that follow (until the next load)"""
    lines = []
    for df in defs:
        lines += func_src(df["var"], df["gen"], [tuple(x) for x in df["decl"]], 0, df) + [""]
    for fn in FNS:
        mine = [(i, o) for i, o in later_ops if o["fn"] == fn]
        lines += [f"@event_trigger('ev_{ctx}_{fn}')", f"def {fn}(k=None, **kw):", "    global " + ", ".join(VARS)]
        first = True
        for i, o in mine:
            lines.append(f"    {'if' if first else 'elif'} k == {i}:")
            first = False
            if o["k"] == "rundef":
                lines += func_src(o["var"], o["gen"], [tuple(x) for x in o["decl"]], 8, o)
            else:
                lines.append(f"        del {o['var']}")
        if first:
            lines.append("    pass")
        lines.append("    rec('done', k)")
        lines.append("")
    return "\n".join(lines) + "\n"


def later_runtime_ops(ops, start, ctx):
    out = []
    for i in range(start + 1, len(ops)):
        o = ops[i]
        if o["k"] in ("load", "unload") and o["ctx"] == ctx:
            break
        if o["k"] in ("rundef", "rundel") and o["ctx"] == ctx:
            out.append((i, o))
    return out


# ------------------------------------------------------------------ running the implementation
def canon(v):
    from homeassistant.core import Context
    if isinstance(v, Context):
        return "CTX"
    try:
        return json.dumps(v, sort_keys=True, default=lambda o: f"<{type(o).__name__}>")
    except (TypeError, ValueError):
        return f"<{type(v).__name__}>"


def gen_of_callback(cb):
    """which definition a registered callback belongs to (the functions carry `gen N` as doc string)"""
    ef = None
    self_ = getattr(cb, "__self__", None)
    if self_ is not None and hasattr(self_, "dm"):
        ef = getattr(self_.dm, "eval_func", None)
    if ef is None:
        for cell in getattr(cb, "__closure__", None) or ():
            try:
                v = cell.cell_contents
            except ValueError:
                continue
            if type(v).__name__ == "EvalFunc":
                ef = v
    doc = getattr(ef, "doc_string", None) or ""
    m = re.search(r"gen (\d+)", doc)
    return int(m.group(1)) if m else -1


def strip_ctx(name):
    return "-" if name is None else (name[5:] if name.startswith("file.") else name)


def observe(hass, svcs):
    from custom_components.pyscript.function import Function
    out = []
    for key in svcs:
        dom, name = key.split(".")
        has = hass.services.has_service(dom, name)
        cnt = Function.service_cnt.get(key, 0)
        own = strip_ctx(Function.service2global_ctx.get(key))
        if has:
            svc = hass.services.async_services_internal().get(dom, {}).get(name)
            gen = gen_of_callback(svc.job.target) if svc is not None else -1
            resp = hass.services.supports_response(dom, name)
            resp = getattr(resp, "value", resp)
            out.append([key, 1, cnt, own, gen, resp])
        else:
            out.append([key, 0, cnt, own, "-", "-"])
    return out


def seen_kwargs(kw, data, sig):
    """the recorded keyword dictionary without the parameters python filled in with their defaults"""
    d = SIGS[sig]["defaults"]
    return sorted([k, canon(v)] for k, v in kw.items() if not (k in d and k not in data and v == d[k]))


def call_outcome(exc, n_enter, mine, result, rr_flag, data, sigs):
    """one call as the caller and the function saw it.  exc: name of the exception the caller got (or None); n_enter:
    how often the function body was entered for this call; mine: its records made after the suspension point"""
    named = {"ServiceNotFound": "notfound", "ServiceValidationError": "invalid", "KeyError": "keyerror"}
    if exc in named:
        return {"call": named[exc], "response": None}
    if exc == "HomeAssistantError":
        # Home Assistant got something that is not a dict though a response was requested: either the function gave
        # it, or the handler could not bind the data to the parameters (TypeError, logged) and gave None
        if n_enter == 0 and not mine:
            return {"call": "binderror", "response": None}
        if len(mine) == 1:
            return {"call": "badresponse", "response": None}
    if exc is not None:
        return {"call": ["raise", exc], "response": None}
    if n_enter == 0 and not mine and result is None:
        return {"call": "binderror", "response": canon(None)}
    if len(mine) != 1:
        return {"call": ["harness", f"{len(mine)} call records"], "response": canon(result)}
    gen = mine[0][2]
    return {"call": ["ran", gen, seen_kwargs(mine[0][3], data, sigs.get(gen, 0)), 1 if rr_flag else 0], "response": canon(result)}


def run_life(p):
    from ha_env import run_ha
    from custom_components.pyscript.function import Function
    events = []
    orig_reg = Function.service_register.__func__
    orig_rem = Function.service_remove.__func__

    def reg(cls, ctxname, domain, service, callback, supports_response=None, **kw):
        events.append(["reg", gen_of_callback(callback), f"{domain}.{service}", ctxname])
        if supports_response is None:
            return orig_reg(cls, ctxname, domain, service, callback, **kw)
        return orig_reg(cls, ctxname, domain, service, callback, supports_response, **kw)

    def rem(cls, ctxname, domain, service):
        # "reached with count 0" = the call gives no registration back, under whatever key service_remove computes
        before = dict(cls.service_cnt)
        try:
            return orig_rem(cls, ctxname, domain, service)
        finally:
            gave_back = any(before.get(k, 0) > v for k, v in cls.service_cnt.items())
            events.append(["rem", 1 if gave_back else 0, f"{domain}.{service}", ctxname])

    ops = p["ops"]
    svcs = p.get("svcs", SVCS)
    sigs = sig_map(p)

    async def settle(env, full=False):
        # reference counting drops a function object at once; a full collection (0.1-0.2 s with Home Assistant loaded)
        # is only made where whole contexts go away
        await env.settle(0)
        gc.collect() if full else gc.collect(0)
        await env.settle(0)

    async def body(env):
        steps = []
        # function objects of an earlier Home Assistant instance of this worker process may still be waiting for the
        # cycle collector; their __del__ would call service_remove on the class-level tables of THIS instance
        gc.collect()
        await env.settle(0)
        env.write("z.py", RELAY_SRC)
        await env.reload("file.z")
        Function.service_register = classmethod(reg)
        Function.service_remove = classmethod(rem)
        try:
            for i, o in enumerate(ops):
                del events[:]
                nrec = len(env.records)
                k = o["k"]
                if k == "load":
                    env.write(f"{o['ctx']}.py", file_src(o["ctx"], o["defs"], later_runtime_ops(ops, i, o["ctx"])))
                    await env.reload(f"file.{o['ctx']}")
                    await settle(env, True)
                    steps.append({"state": observe(env.hass, svcs), "events": [list(e) for e in events]})
                elif k == "unload":
                    try:
                        env.remove(f"{o['ctx']}.py")
                    except FileNotFoundError:
                        pass
                    await env.reload(f"file.{o['ctx']}")
                    await settle(env, True)
                    steps.append({"state": observe(env.hass, svcs), "events": [list(e) for e in events]})
                elif k in ("rundef", "rundel"):
                    await env.fire(f"ev_{o['ctx']}_{o['fn']}", {"k": i})
                    await settle(env)
                    done = [r for r in env.records[nrec:] if r[1] == "done" and r[2] == i]
                    steps.append({"state": observe(env.hass, svcs), "events": [list(e) for e in events],
                                  "ran": len(done)})
                elif k == "calls":
                    # 2-3 calls of one service that overlap in time: all are started, then the virtual clock runs
                    import asyncio
                    dom, name = o["svc"].split(".")
                    tasks = [asyncio.ensure_future(env.hass.services.async_call(
                        dom, name, dict(data), blocking=True, return_response=o["rr"])) for data in o["datas"]]
                    await env.settle(max([d.get("delay", 0) for d in o["datas"]] + [0]) + 0.2)
                    recs = env.records[nrec:]
                    task_of = {r[3]: r[4] for r in recs if r[1] == "enter"}          # tag -> asyncio task
                    results = []
                    for data, t in zip(o["datas"], tasks):
                        if not t.done():
                            t.cancel()
                            results.append({"call": ["harness", "call did not finish"], "response": None})
                            continue
                        exc = t.exception()
                        tk = task_of.get(data.get("tag"))
                        mine = [r for r in recs if r[1] == "call" and tk is not None and r[4] is tk]
                        results.append(call_outcome(type(exc).__name__ if exc is not None else None, 0 if tk is None else 1,
                                                    mine, None if exc is not None else t.result(), o["rr"], data, sigs))
                    steps.append({"calls": results})
                elif o.get("via") == "script":
                    dom, name = o["svc"].split(".")
                    await env.fire("ev_relay", {"k": i, "dom": dom, "name": name, "rr": o["rr"], "data": dict(o["data"])})
                    await env.settle(0)
                    rel = [r for r in env.records[nrec:] if r[1] == "relay" and r[2] == i]
                    recs = [r for r in env.records[nrec:] if r[1] == "call"]
                    nent = len([r for r in env.records[nrec:] if r[1] == "enter"])
                    if len(rel) != 1:
                        steps.append({"call": ["harness", f"{len(rel)} relay records"], "response": None})
                    elif rel[0][3] == "exc":
                        steps.append(call_outcome(rel[0][4], nent, recs, None, True, o["data"], sigs))
                    else:
                        steps.append(call_outcome(None, nent, recs, rel[0][4], rel[0][4] is not None, o["data"], sigs))
                else:
                    dom, name = o["svc"].split(".")
                    exc = resp = None
                    try:
                        resp = await env.hass.services.async_call(dom, name, dict(o["data"]), blocking=True,
                                                                  return_response=o["rr"])
                    except Exception as e:  # an exception of the called code is an outcome
                        exc = type(e).__name__
                    await env.settle(0)
                    recs = [r for r in env.records[nrec:] if r[1] == "call"]
                    nent = len([r for r in env.records[nrec:] if r[1] == "enter"])
                    steps.append(call_outcome(exc, nent, recs, resp, o["rr"], o["data"], sigs))
        finally:
            Function.service_register = classmethod(orig_reg)
            Function.service_remove = classmethod(orig_rem)
        return steps

    return run_ha({}, p["legacy"], body)


PROBE_FIELDS = {"fields": {"entity_id": {"description": "e"}, "x": {"description": "x"}, "y": {"description": "y"}}}


def out_call_src(p):
    def arg_src(a):
        k, ty, v = a
        return f"{k}=mkctx()" if ty == "context" else f"{k}={v!r}"

    target = f"probe_{p['target']}"
    argl = ", ".join(arg_src(a) for a in p["args"])
    if p["entry"] == "service_call":
        return f"service.call('test', {target!r}{', ' if argl else ''}{argl})"
    if p["entry"] == "domain_service":
        return f"test.{target}({argl})"
    return f"test.ent.{target}({argl})"


def run_out_batch(batch):
    """all outgoing-call cases of a batch (same subsystem) on one Home Assistant instance: go_<i>() makes call i"""
    from ha_env import run_ha
    from homeassistant.core import Context, ServiceRegistry, SupportsResponse
    from homeassistant.helpers.service import async_set_service_schema
    from custom_components.pyscript.state import State
    src = ""
    for i, p in enumerate(batch):
        src += (f"@service\ndef go_{i}():\n    try:\n        r = " + out_call_src(p) + f"\n        rec('ret', {i}, r)\n"
                f"    except Exception as e:\n        rec('exc', {i}, type(e).__name__, str(e))\n\n")

    async def body(env):
        from custom_components.pyscript.function import Function
        ctxobj = Context()
        Function.functions["mkctx"] = lambda: ctxobj
        seen, passed = {}, {}

        async def probe(call):
            seen["data"] = dict(call.data)
            seen["ctx_is_given"] = call.context is ctxobj
            return {"ok": 1}

        for r in RESPS:
            env.hass.services.async_register("test", f"probe_{r}", probe, supports_response=SupportsResponse(r))
            async_set_service_schema(env.hass, "test", f"probe_{r}", PROBE_FIELDS)
        env.hass.states.async_set("test.ent", "on", {})
        env.write("o.py", src)
        await env.reload("file.o")
        await State.get_service_params()
        orig = ServiceRegistry.async_call

        async def spy(self, domain, service, service_data=None, *a, **kw):
            if domain == "test":
                passed["kw"] = dict(kw)
            return await orig(self, domain, service, service_data, *a, **kw)

        results = []
        ServiceRegistry.async_call = spy
        try:
            for i, p in enumerate(batch):
                seen.clear()
                passed.clear()
                await env.call("pyscript", f"go_{i}", {})
                await env.settle(0)
                rec = [r for r in env.records if r[1] in ("ret", "exc") and r[2] == i]
                results.append({
                    "seen": {k: (canon(v) if k != "data" else sorted([kk, canon(vv)] for kk, vv in v.items()))
                             for k, v in seen.items()},
                    "passed": sorted([k, ("CTXOBJ" if v is ctxobj else canon(v))] for k, v in passed.get("kw", {}).items()),
                    "result": [["ret", canon(r[3])] if r[1] == "ret" else ["exc", r[3]] for r in rec][:1]})
        finally:
            ServiceRegistry.async_call = orig
        return results

    return run_ha({}, batch[0]["legacy"], body)


def _worker(job):
    try:
        if job[0] == "life":
            return [{"obs": run_life(job[1])}]
        return [{"obs": o} for o in run_out_batch(job[1])]
    except BaseException as e:
        import traceback
        n = 1 if job[0] == "life" else len(job[1])
        return [{"crash": f"{type(e).__name__}: {e}", "tb": traceback.format_exc()[-1500:]}] * n


OUT_BATCH = 12


def run_impl(cases):
    jobs, owners = [], []
    outs = {True: [], False: []}
    for idx, c in enumerate(cases):
        if c.payload["kind"] == "life":
            jobs.append(("life", c.payload))
            owners.append([idx])
        else:
            outs[c.payload["legacy"]].append(idx)
    for idxs in outs.values():
        for j in range(0, len(idxs), OUT_BATCH):
            jobs.append(("out", [cases[i].payload for i in idxs[j:j + OUT_BATCH]]))
            owners.append(idxs[j:j + OUT_BATCH])
    results = common.pmap(_worker, jobs, chunk=1)
    for idxs, rs in zip(owners, results):
        for i, r in zip(idxs, rs):
            c = cases[i]
            if "crash" in r:
                raise RuntimeError("harness environment crashed: " + r["crash"] + "\n" + r.get("tb", ""))
            p = c.payload
            p["_obs"] = r["obs"]
            if p["kind"] == "life":
                c.impl = render_life_impl(p)
                c.line = None if p.get("oracle_only") else life_line(p)
            else:
                c.impl = render_out_impl(p)
                c.line = out_line(p)


# ------------------------------------------------------------------ rendering / driver lines
def life_line(p):
    """model input: file loads become unload + definitions + start(observed registration order)"""
    dops = []
    for o, st in zip(p["ops"], p["_obs"]):
        k = o["k"]
        if k == "load":
            dops.append(["unload", o["ctx"]])
            gens = {df["gen"] for df in o["defs"]}
            for df in o["defs"]:
                dops.append(["define", o["ctx"], "-", df["var"], df["gen"], df["decl"]])
            dops.append(["start", o["ctx"], [e[1] for e in st["events"] if e[0] == "reg" and e[1] in gens]])
            dops.append(["obs"])
        elif k == "unload":
            dops += [["unload", o["ctx"]], ["obs"]]
        elif k == "rundef":
            dops += [["define", o["ctx"], o["fn"], o["var"], o["gen"], o["decl"]], ["obs"]]
        elif k == "rundel":
            dops += [["delete", o["ctx"], o["var"]], ["obs"]]
        elif k == "calls":
            dops.append(["calls", o["svc"], 1 if o["rr"] else 0, "CTX",
                         [sorted([kk, canon(vv)] for kk, vv in data.items()) for data in o["datas"]]])
        else:
            dops.append(["scall" if o.get("via") == "script" else "call", o["svc"], 1 if o["rr"] else 0, "CTX",
                         sorted([kk, canon(vv)] for kk, vv in o["data"].items())])
    sigs = [[g, SIGS[sg]["required"], SIGS[sg]["params"], SIGS[sg]["extra"]] for g, sg in sorted(sig_map(p).items())]
    return "C12 " + sx(["life", "legacy" if p["legacy"] else "new", p.get("svcs", SVCS), sigs, dops])


def render_life_impl(p):
    out = []
    for o, st in zip(p["ops"], p["_obs"]):
        if "state" in st:
            under = any(e[0] == "rem" and e[1] == 0 for e in st["events"])
            # a handler that is not a generated @service function (gen -1: pyscript's own reload / jupyter services) is
            # not one of pyscript's script entries - the model's tables hold only those
            rows = [r if r[4] != -1 else [r[0], 0, r[2], r[3], "-", "-"] for r in st["state"]]
            out.append(["state"] + rows + [["flags", 0, 1 if under or any_under(p, st) else 0]])
        elif "calls" in st:
            out.append(["calls"] + [["call", norm_call(r["call"])] for r in st["calls"]])
        else:
            out.append(["call", norm_call(st["call"])])
    return sx(out)


def any_under(p, upto):
    for st in p["_obs"]:
        if any(e[0] == "rem" and e[1] == 0 for e in st.get("events", [])):
            return True
        if st is upto:
            break
    return False


def norm_call(c):
    if isinstance(c, list) and c and c[0] == "ran":
        return ["ran", c[1], sorted([list(x) for x in c[2]]), int(c[3])]
    return c


def norm_steps(x):
    out = []

    def one(c):
        if isinstance(c, list) and c[0] == "ran":
            c = ["ran", int(c[1]), sorted([[k, v] for k, v in c[2]]), int(c[3])]
        return ["call", c]
    for st in x:
        if st[0] == "call":
            out.append(one(st[1]))
        elif st[0] == "calls":
            out.append(["calls"] + [one(c[1]) for c in st[1:]])
        else:
            rows = []
            for row in st[1:]:
                rows.append([row[0]] + [int(v) if isinstance(v, str) and v.isdigit() else v for v in row[1:]])
            out.append(["state"] + rows)
    return sx(out)


def out_line(p):
    args = [[k, ty, "CTXOBJ" if ty == "context" else canon(v)] for k, ty, v in p["args"]]
    return "C12 " + sx(["split", p["entry"], "-", p["target"], canon("test.ent"), args])


HASS_ORDER = {"context": 0, "blocking": 1, "return_response": 2, "limit": 3}


def render_out_impl(p):
    o = p["_obs"]
    res = o["result"][0] if o["result"] else ["none"]
    if res and res[0] == "exc":
        return sx(["raise", res[1]])
    hass = sorted([[k, v] for k, v in o["passed"]], key=lambda kv: HASS_ORDER.get(kv[0], 9))
    data = sorted([k, v] for k, v in o["seen"].get("data", []))
    return sx([["hass", hass], ["data", data], ["returned", 0 if res[1] == canon(None) else 1]])


def split(outline):
    m = re.match(r"ok model=(.*) spec=(.*)$", outline)
    if not m:
        return outline, None
    try:
        mod, spc = parse_sx(m.group(1)), parse_sx(m.group(2))
        if mod and mod[0] == "raise":
            return sx(mod), sx(spc)
        if mod and isinstance(mod[0], list) and mod[0] and mod[0][0] == "hass":
            def lst(x):
                return x[1] if len(x) > 1 and isinstance(x[1], list) else []
            hass = sorted([[k, v] for k, v in lst(mod[0])], key=lambda kv: HASS_ORDER.get(kv[0], 9))
            data = sorted([k, v] for k, v in lst(mod[1]))
            if spc and isinstance(spc[0], list):
                spc = [["data", sorted([k, v] for k, v in lst(spc[0]))], ["returned", int(spc[1][1])]]
            return sx([["hass", hass], ["data", data], ["returned", int(mod[2][1])]]), sx(spc)
        return norm_steps(mod), norm_steps(spc)
    except Exception as e:  # malformed driver output is a tie failure, not a crash
        return f"err unparsable-driver-output {type(e).__name__} {e}", None


# ------------------------------------------------------------------ verdict: the property on the observations
def judge_call(d, bad, i, svc, rr, data, st, what, pre, sigs):
    """one call (alone or overlapping with others): the most recent live definition runs with THIS call's data plus
    trigger_type='service' and context (the data wins over both), and THIS call gets its result back when a response is
    requested.  Data that does not fit the function's parameters never runs it; an answer that is not a dict is
    Home Assistant's error when a response was requested."""
    want = d.handler(svc)
    got = st["call"]

    def ran_as(rr_):
        kw = {"trigger_type": canon("service"), "context": "CTX"}
        kw.update({k: canon(v) for k, v in data.items()})
        if not bind_ok(sigs.get(want[0], 0), kw):
            return "binderror"
        if rr_ and data.get("ret") in NOT_A_DICT:
            return "badresponse"
        return ["ran", want[0], sorted([k, v] for k, v in kw.items()), 1 if rr_ else 0]
    if want is None:
        # (a script calling a service that does not exist gets KeyError from hass.services.supports_response instead of
        #  ServiceNotFound when it did not pass return_response: the property does not fix the exception class)
        exp = "keyerror" if what.startswith("script-side") and got == "keyerror" else "notfound"
    elif (rr and want[1] == "none") or (not rr and want[1] == "only"):
        exp = "invalid"
    else:
        exp = ran_as(rr)
    if exp == "invalid" and not rr and got != "invalid" and norm_call(got) == ran_as(False):
        # Home Assistant's "this service only returns a response" refusal is not part of the property: the legacy
        # subsystem hands HA the string "only" instead of the enum, HA then runs the call (nothing is returned)
        exp = got = None
    if norm_call(got) != exp:
        sym = "call"
        if isinstance(got, list) and got[0] == "ran" and isinstance(exp, list) and got[2] != exp[2]:
            sym = "call-kwargs"
        bad.append((i, {svc}, pre + sym, f"step {i} {what}{svc} return_response={rr} data={data}: {norm_call(got)!r:.220} instead of {exp!r:.220}"))
    elif got is None:
        if st["response"] != canon(None):
            bad.append((i, {svc}, pre + "response", f"step {i} {what}{svc}: returned {st['response']} though no response was requested"))
    elif isinstance(exp, list):
        wantresp = canon(answer(exp[1], data)) if rr else canon(None)
        if st["response"] != wantresp:
            bad.append((i, {svc}, pre + "response", f"step {i} {what}{svc} data={data}: returned {st['response']} instead of {wantresp}"))


def judge_life(p):
    """[(step, services, symptom, text)] – every step at which the real code is not in the state the declarations demand"""
    d = Decls()
    bad = []
    sigs = sig_map(p)
    if p.get("probe") == "builtin-case":
        # pyscript's own service must stay what it is: `@service` refuses the built-in names
        for i, st in enumerate(p["_obs"]):
            for key, has, _cnt, _own, gen, _resp in st.get("state", []):
                if not has:
                    bad.append((i, {key}, "builtin-removed", f"step {i}: the built-in service {key} is gone"))
                elif gen != -1:
                    bad.append((i, {key}, "builtin-replaced", f"step {i}: the built-in service {key} is now handled by "
                                                              f"the script function of definition {gen}"))
        return bad
    for i, (o, st) in enumerate(zip(p["ops"], p["_obs"])):
        if o["k"] not in ("call", "calls"):
            apply_op(d, o)
            if o["k"] in ("rundef", "rundel") and st.get("ran") != 1:
                bad.append((i, set(SVCS), "driver", f"step {i}: the driver function ran {st.get('ran')} times"))
            for row in st["state"]:
                key, has, cnt, own, gen, resp = row
                want = d.handler(key)
                if want is None and has:
                    bad.append((i, {key}, "extra", f"step {i} {o['k']}: {key} is registered (definition {gen}) but no live function declares it"))
                elif want is not None and not has:
                    bad.append((i, {key}, "missing", f"step {i} {o['k']}: {key} is declared by live definition {want[0]} but not registered"))
                elif want is not None and (gen != want[0]):
                    bad.append((i, {key}, "wrong-handler", f"step {i} {o['k']}: {key} is handled by definition {gen}, the most recent live definition is {want[0]}"))
                elif want is not None and resp != want[1]:
                    bad.append((i, {key}, "wrong-response-mode", f"step {i} {o['k']}: {key} supports_response={resp}, declared {want[1]}"))
            if any(e[0] == "rem" and e[1] == 0 for e in st["events"]):
                bad.append((i, set(SVCS), "remove-underflow", f"step {i}: service_remove reached with count 0: {st['events']}"))
        elif o["k"] == "calls":
            for j, (data, res) in enumerate(zip(o["datas"], st["calls"])):
                judge_call(d, bad, i, o["svc"], o["rr"], data, res, f"overlapping call {j + 1}/{len(o['datas'])} of ", "overlap-", sigs)
        elif o.get("via") == "script":
            # a script's service.call: a response-only service is asked for its response by pyscript itself
            w = d.handler(o["svc"])
            judge_call(d, bad, i, o["svc"], o["rr"] or bool(w and w[1] == "only"), o["data"], st, "script-side call ", "script-", sigs)
        else:
            judge_call(d, bad, i, o["svc"], o["rr"], o["data"], st, "call ", "", sigs)
    return bad


def judge_out(p):
    """the documented meaning of an outgoing call (service.call in reference.rst; the three forms are 'equivalent'):
    every keyword that is not a call control of the right type is service data; return_response=True also blocks; a
    response-only service is asked for its response.  Home Assistant itself refuses: a response request to a service
    without responses or with blocking=False, and a response-only service called with return_response=False."""
    o = p["_obs"]
    res = o["result"][0] if o["result"] else ["none"]
    given = {k: (ty, v) for k, ty, v in p["args"]}

    def control(k):
        ty = given[k][0]
        return (k == "context" and ty == "context") or (k in ("blocking", "return_response") and ty == "bool") or \
               (p["entry"] == "entity_method" and k == "limit" and ty in ("int", "float"))
    data = {k: ("CTXOBJ" if ty == "context" else canon(v)) for k, (ty, v) in given.items() if not control(k)}
    if p["entry"] == "entity_method":
        data["entity_id"] = canon("test.ent")
    ctl = {k for k in given if control(k)}
    rr = given["return_response"][1] if "return_response" in ctl else (p["target"] == "only")
    refuses = (rr and (p["target"] == "none" or ("blocking" in ctl and given["blocking"][1] is False))) or \
              (not rr and p["target"] == "only")
    em = p["entry"] == "entity_method"
    if res[0] == "exc":
        if refuses and res[1] == "ServiceValidationError":
            return None
        if em and "limit" in ctl and res[1] == "TypeError":
            return ("limit-typeerror", f"entity method with limit={given['limit'][1]!r} raised TypeError: the call is not delivered")
        if em and rr and res[1] == "ServiceValidationError":
            return ("response-not-blocking", f"entity method ({p['args']}) to a supports_response={p['target']} service raised "
                                             f"ServiceValidationError: the response request does not make the call blocking / is not added")
        return ("raise", f"{p['entry']}({p['args']}) raised {res[1]}")
    if refuses:
        return ("accepted", f"{p['entry']}({p['args']}) to a supports_response={p['target']} service was not refused")
    got = {k: v for k, v in o["seen"].get("data", [])}
    if got != data:
        return ("data", f"{p['entry']}({p['args']}) delivered {got} instead of exactly {data}")
    if "context" in ctl and o["seen"].get("ctx_is_given") != "true":
        return ("context", f"{p['entry']}: the given context was not used for the call")
    want = canon({"ok": 1}) if rr else canon(None)
    if res != ["ret", want]:
        return ("result", f"{p['entry']}({p['args']}) returned {res} instead of {want}")
    return None


def verdict(c):
    p = c.payload
    if "_obs" not in p or p.get("model_only"):
        return None
    if p["kind"] == "out":
        r = judge_out(p)
        return r and r[1]
    bad = judge_life(p)
    if not bad:
        return None
    return pick(p, bad)[3]


def pick(p, bad):
    """prefer a failing step that no recorded hazard explains"""
    hz = hazards(p)
    for b in bad:
        if not explain(hz, b):
            return b
    return bad[0]


def explain(hz, b):
    i, svcs, _sym, _t = b
    for (j, kind, hs) in hz:
        if j <= i and (hs & svcs):
            return kind
    return None


def classify(c, reason):
    p = c.payload
    sub = "legacy" if p["legacy"] else "new"
    if p["kind"] == "out":
        r = judge_out(p)
        return f"out:{p['entry']}:{r[0]}" if r else "out:none"
    bad = judge_life(p)
    if not bad:
        return "life:none"
    b = pick(p, bad)
    if p.get("probe"):
        return f"probe:{sub}:{p['probe']}:{b[2]}"
    kind = explain(hazards(p), b)
    return f"life:{sub}:{kind or 'clean'}:{b[2]}"


def replay_cases(obj):
    p = {k: v for k, v in obj["case"].items() if not k.startswith("_")}
    return [Case(p, None, tags=tags_of(p))]


def shrink(c, reason):
    p = {k: v for k, v in c.payload.items() if not k.startswith("_")}
    if p["kind"] != "life":
        return c
    sig = classify(c, reason)
    best = c
    ops = list(p["ops"])
    i = len(ops) - 1
    budget = 12
    while i >= 0 and len(ops) > 1 and budget > 0:
        trial = ops[:i] + ops[i + 1:]
        q = dict(p, ops=trial)
        cc = Case(q, None, tags=tags_of(q))
        budget -= 1
        try:
            run_impl([cc])
            r = verdict(cc)
        except Exception:
            r = None
        if r and classify(cc, r) == sig:
            ops, best = trial, cc
        i -= 1
    if best is not c and best.line is not None:
        outs = common.drive([best.line])
        best.model, best.spec = split(outs[0])
    return best


def extra_coverage(cases):
    ops, fam, sym, regorder = {}, {}, {}, {"new-loads-with-several-managers": 0, "not-in-definition-order": 0}
    shapes = {"parameter_lists": {}, "doc_string_forms": {}, "names_per_function": {}, "with_trigger_decorator": 0, "service_names": {}}
    calls = {"ran": 0, "notfound": 0, "invalid": 0}
    for c in cases:
        p = c.payload
        if p["kind"] != "life":
            continue
        for o, st in zip(p["ops"], p.get("_obs", [])):
            ops[o["k"]] = ops.get(o["k"], 0) + 1
            for df in (o["defs"] if o["k"] == "load" else [o] if o["k"] == "rundef" else []):
                for key, v in (("parameter_lists", SIGS[df.get("sig", 0)]["src"]), ("doc_string_forms", DOCS[df.get("doc", 0)]),
                               ("names_per_function", str(len(df["decl"])))):
                    shapes[key][v] = shapes[key].get(v, 0) + 1
                shapes["with_trigger_decorator"] += 1 if df.get("trig") else 0
                for s_, _r in df["decl"]:
                    shapes["service_names"][s_] = shapes["service_names"].get(s_, 0) + 1
            if o["k"] == "call":
                k = st["call"][0] if isinstance(st["call"], list) else st["call"]
                calls[k] = calls.get(k, 0) + 1
            if o["k"] == "calls":
                for r_ in st["calls"]:
                    k = r_["call"][0] if isinstance(r_["call"], list) else r_["call"]
                    calls["overlapping:" + str(k)] = calls.get("overlapping:" + str(k), 0) + 1
            if o["k"] == "load" and not p["legacy"] and len(o["defs"]) > 1:
                regorder["new-loads-with-several-managers"] += 1
                gens = [e[1] for e in st["events"] if e[0] == "reg"]
                if gens != sorted(gens):
                    regorder["not-in-definition-order"] += 1
        for (_i, kind, _s) in hazards(p):
            fam[kind] = fam.get(kind, 0) + 1
        for b in judge_life(p) if "_obs" in p else []:
            sym[b[2]] = sym.get(b[2], 0) + 1
    return {"op_histogram": ops, "hazard_situations_entered": fam, "deviation_symptoms_seen": sym,
            "call_outcomes": calls, "manager_start_order": regorder, "definition_shapes": shapes,
            "outgoing_entry_points": {e: len([c for c in cases if c.payload.get("entry") == e])
                                      for e in ("service_call", "domain_service", "entity_method")}}
